#!/bin/bash
# c20/check.sh <quick|thorough>          decide property C20 (shuttle; thorough adds Miri)
# c20/check.sh --replay <file> [--log]   re-run one persisted failing schedule / Miri seed
#
# Rebuilds the harness (and rustrtc, a path dependency on /repo's working tree, hooks on) and runs it.
# Exit 0 held (KNOWN-FINDING lines allowed) / 1 violation (VIOLATION property=C20 replay=<path>) / 2 harness error.
# Honours VERIF_SEED (default 20260925). Writes <root>/evidence/C20.json and, for failures,
# <root>/replays/C20-*.json (+ .schedule.txt, shuttle's schedule file), where <root> is the parent
# directory of this crate. Reads <root>/known_findings.json, never writes it.
# Knobs: C20_WORKERS=n (worker processes, default min(cores,12)); C20_MIRI_SEEDS=n (Miri seeds per mode; 0 = skip Miri).
set -u
here="$(cd "$(dirname "$0")" && pwd)" || exit 2
root="$(dirname "$here")"
cd "$here" || exit 2
export CARGO_NET_OFFLINE=true
mkdir -p "$root/evidence" "$root/replays" "$root/target-c20"
log="$root/target-c20/build.log"
if ! cargo build --profile sim --offline -q 2> "$log"; then
  echo "HARNESS ERROR: build failed (see $log)"; tail -30 "$log"; exit 2
fi
BIN="$root/target-c20/sim/c20"
if [ "${1:-}" = "--replay" ]; then shift; exec "$BIN" --replay "$@"; fi
tier="${1:-${VERIF_TIER:-quick}}"
case "$tier" in
  quick|thorough) exec "$BIN" check "$tier" ;;
  *) echo "usage: $0 <quick|thorough> | --replay <file> [--log]"; exit 2 ;;
esac
