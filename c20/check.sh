#!/bin/bash
# c20/check.sh <quick|thorough>              decide property C20 (shuttle; thorough adds Miri)
# c20/check.sh --replay <file> [--log]       re-run one persisted failing schedule / Miri seed
#                                            (a C12-threads-*.json file is recognised by its content and routed to the c12 family)
# c20/check.sh c12 <quick|thorough>          run ONLY the second family, `sctp_send`: the thread-interleaving part of
#                                            property C12 (2..8 threads calling SctpTransport::send_data on one association;
#                                            the outbound-queue lock is the scheduling point). Does not touch C20's evidence.
# c20/check.sh c12 --replay <file> [--log]   re-run one persisted failing schedule of that family
# c20/check.sh c12 --list <quick|thorough>   print that family's workloads
#
# C20 workloads: 16 drain-to-end-of-stream families (scenario ids 0..) and 16 teardown families (ids 100000..: the consumer
# abandons / stops / stalls and the last handle is dropped over a ring that is exactly full, partly filled or empty).
# Oracles: C20.identity / .once / .order / .eos / .balance / .ub and C20.release (every payload created is released exactly
# once: kinds leaked, released_twice, released_while_queued). Miri (thorough) runs modes sp, mp and td, none with -Zmiri-ignore-leaks.
#
# Rebuilds the harness (and rustrtc, a path dependency on /repo's working tree, hooks on) and runs it.
# Exit 0 held (KNOWN-FINDING lines allowed) / 1 violation (VIOLATION property=<C20|C12> replay=<path>) / 2 harness error.
# Honours VERIF_SEED (default 20260925). <root> is the parent directory of this crate.
#   C20: writes <root>/evidence/C20.json and, for failures, <root>/replays/C20-*.json (+ .schedule.txt, shuttle's schedule file)
#   c12: writes <root>/evidence/C12-threads.json (property_id "C12", same schema) and <root>/replays/C12-threads-*.json (+ .schedule.txt)
# Reads <root>/known_findings.json, never writes it (c12 family: entries with property "C12" and pattern.engine == "threads").
# Knobs: C20_WORKERS=n (worker processes, default min(cores,12), both families); C20_MIRI_SEEDS=n (Miri seeds per mode; 0 = skip Miri);
#        C12T_SCALE=n (c12 family: n times the schedules per scenario).
set -u
here="$(cd "$(dirname "$0")" && pwd)" || exit 2
root="$(dirname "$here")"
cd "$here" || exit 2
export CARGO_NET_OFFLINE=true
mkdir -p "$root/evidence" "$root/replays" "$root/target-c20"
log="$root/target-c20/build.log"
if ! cargo build --profile sim --offline -q 2> "$log"; then
  echo "HARNESS ERROR: build failed (see $log)"; tail -30 "$log"; exit 2
fi
BIN="$root/target-c20/sim/c20"
if [ "${1:-}" = "--replay" ]; then shift; exec "$BIN" --replay "$@"; fi
if [ "${1:-}" = "c12" ]; then
  shift
  case "${1:-}" in
    --replay) shift; exec "$BIN" c12 --replay "$@" ;;
    --list) exec "$BIN" c12 --list "${2:-quick}" ;;
    quick|thorough) exec "$BIN" c12 check "$1" ;;
    "") exec "$BIN" c12 check "${VERIF_TIER:-quick}" ;;
    *) echo "usage: $0 c12 <quick|thorough> | c12 --replay <file> [--log] | c12 --list <quick|thorough>"; exit 2 ;;
  esac
fi
tier="${1:-${VERIF_TIER:-quick}}"
case "$tier" in
  quick|thorough) exec "$BIN" check "$tier" ;;
  *) echo "usage: $0 <quick|thorough> | --replay <file> [--log] | c12 <quick|thorough> | c12 --replay <file> [--log]"; exit 2 ;;
esac
