//! Workloads: what the producer threads, the optional controller thread and the consumer do.
//! Ids 0.. are the 16 drain-to-end-of-stream families, ids TEARDOWN_BASE.. the 16 teardown
//! families (consumer abandons / stops / stalls, last handle dropped over a non-empty ring).
//! A workload is a pure function of (VERIF_SEED, scenario id); it is written out in full in
//! every replay file so a replay does not depend on this generator staying unchanged.
use serde_json::{json, Value};

#[derive(Clone, Copy, Debug, PartialEq, Eq)]
pub enum Op {
    /// `SampleStreamSource::send` (drop-oldest when full)
    Send,
    /// `SampleStreamSource::try_send` (WouldBlock when full)
    TrySend,
    /// `SampleStreamSource::send_many` with n samples
    SendMany(u8),
    /// `SampleStreamTrack::stop()`
    Stop,
    /// clone the source handle and drop the clone at once (sender count up/down, must not close)
    CloneDrop,
}

impl Op {
    pub fn pushes(&self) -> u32 {
        match self {
            Op::Send | Op::TrySend => 1,
            Op::SendMany(n) => *n as u32,
            _ => 0,
        }
    }
    fn to_json(&self) -> Value {
        match self {
            Op::Send => json!("send"),
            Op::TrySend => json!("try_send"),
            Op::SendMany(n) => json!({ "send_many": n }),
            Op::Stop => json!("stop"),
            Op::CloneDrop => json!("clone_drop"),
        }
    }
    fn from_json(v: &Value) -> Option<Op> {
        if let Some(s) = v.as_str() {
            return match s {
                "send" => Some(Op::Send),
                "try_send" => Some(Op::TrySend),
                "stop" => Some(Op::Stop),
                "clone_drop" => Some(Op::CloneDrop),
                _ => None,
            };
        }
        v.get("send_many").and_then(|n| n.as_u64()).map(|n| Op::SendMany(n as u8))
    }
}

#[derive(Clone, Copy, Debug, PartialEq, Eq)]
pub enum SourceMode {
    /// every producer thread holds an `Arc<SampleStreamSource>` of the one source
    SharedArc,
    /// every producer thread owns its own `SampleStreamSource::clone()`
    Cloned,
}

/// What the consumer thread does with its track handle.
#[derive(Clone, Copy, Debug, PartialEq, Eq)]
pub enum Consumer {
    /// loop on recv() until EndOfStream (the only behaviour of the first 16 families; the creating
    /// thread keeps its own track handle until the run has been judged)
    Drain,
    /// receive at most k samples (k = 0: never call recv), then drop the track handle and return
    AbandonAfter(u32),
    /// receive at most k samples, call stop() on the track, then drop the handle and return
    StopThenAbandon(u32),
    /// receive at most k samples, wait (yielding to the scheduler) until every producer thread has
    /// finished and dropped its source handle, then drain to EndOfStream
    StallThenDrain(u32),
}

impl Consumer {
    pub fn label(&self) -> &'static str {
        match self {
            Consumer::Drain => "drain",
            Consumer::AbandonAfter(_) => "abandon",
            Consumer::StopThenAbandon(_) => "stop_then_abandon",
            Consumer::StallThenDrain(_) => "stall",
        }
    }
    fn to_json(&self) -> Value {
        match self {
            Consumer::Drain => json!("drain"),
            Consumer::AbandonAfter(k) => json!({ "abandon_after": k }),
            Consumer::StopThenAbandon(k) => json!({ "stop_then_abandon": k }),
            Consumer::StallThenDrain(k) => json!({ "stall_then_drain": k }),
        }
    }
    /// a replay file written before this field existed has no `consumer`: drain to end-of-stream
    fn from_json(v: Option<&Value>) -> Option<Consumer> {
        let Some(v) = v else { return Some(Consumer::Drain) };
        if v.is_null() || v.as_str() == Some("drain") {
            return Some(Consumer::Drain);
        }
        let k = |name: &str| v.get(name).and_then(|k| k.as_u64()).map(|k| k as u32);
        k("abandon_after").map(Consumer::AbandonAfter).or_else(|| k("stop_then_abandon").map(Consumer::StopThenAbandon)).or_else(|| k("stall_then_drain").map(Consumer::StallThenDrain))
    }
}

#[derive(Clone, Debug)]
pub struct Workload {
    pub id: u32,
    pub family: &'static str,
    pub capacity: usize,
    pub mode: SourceMode,
    /// one op list per producer thread; the thread drops its source handle after the last op
    pub producers: Vec<Vec<Op>>,
    /// optional extra thread that owns no source (only `Stop` is meaningful here)
    pub controller: Vec<Op>,
    pub consumer: Consumer,
}

impl Workload {
    pub fn total_pushes(&self) -> u32 {
        self.producers.iter().flatten().map(|o| o.pushes()).sum()
    }
    pub fn pushing_producers(&self) -> usize {
        self.producers.iter().filter(|p| p.iter().any(|o| o.pushes() > 0)).count()
    }
    pub fn has_stop(&self) -> bool {
        matches!(self.consumer, Consumer::StopThenAbandon(_)) || self.controller.iter().chain(self.producers.iter().flatten()).any(|o| *o == Op::Stop)
    }
    /// Structural class used by known-findings patterns: how many threads push into the one ring.
    pub fn scenario_class(&self) -> &'static str {
        if self.pushing_producers() >= 2 {
            "multi_producer_shared_ring"
        } else {
            "single_producer"
        }
    }
    /// receive cap: a healthy queue can never deliver more than was pushed
    pub fn recv_cap(&self) -> usize {
        self.total_pushes() as usize + 4
    }
    pub fn to_json(&self) -> Value {
        json!({
            "id": self.id,
            "family": self.family,
            "capacity": self.capacity,
            "source_mode": match self.mode { SourceMode::SharedArc => "shared_arc", SourceMode::Cloned => "cloned" },
            "producers": self.producers.iter().map(|p| p.iter().map(|o| o.to_json()).collect::<Vec<_>>()).collect::<Vec<_>>(),
            "controller": self.controller.iter().map(|o| o.to_json()).collect::<Vec<_>>(),
            "consumer": self.consumer.to_json(),
            "scenario_class": self.scenario_class(),
            "total_pushes": self.total_pushes(),
        })
    }
    pub fn from_json(v: &Value) -> Option<Workload> {
        let ops = |v: &Value| -> Option<Vec<Op>> { v.as_array()?.iter().map(Op::from_json).collect() };
        Some(Workload {
            id: v.get("id")?.as_u64()? as u32,
            family: "replayed",
            capacity: v.get("capacity")?.as_u64()? as usize,
            mode: match v.get("source_mode")?.as_str()? {
                "shared_arc" => SourceMode::SharedArc,
                "cloned" => SourceMode::Cloned,
                _ => return None,
            },
            producers: v.get("producers")?.as_array()?.iter().map(ops).collect::<Option<Vec<_>>>()?,
            controller: ops(v.get("controller")?)?,
            consumer: Consumer::from_json(v.get("consumer"))?,
        })
    }
}

pub struct Rng(pub u64);
impl Rng {
    pub fn next(&mut self) -> u64 {
        // splitmix64
        self.0 = self.0.wrapping_add(0x9E37_79B9_7F4A_7C15);
        let mut z = self.0;
        z = (z ^ (z >> 30)).wrapping_mul(0xBF58_476D_1CE4_E5B9);
        z = (z ^ (z >> 27)).wrapping_mul(0x94D0_49BB_1331_11EB);
        z ^ (z >> 31)
    }
    pub fn below(&mut self, n: u64) -> u64 {
        self.next() % n
    }
    pub fn pick<T: Copy>(&mut self, xs: &[T]) -> T {
        xs[self.below(xs.len() as u64) as usize]
    }
}

pub fn mix(seed: u64, a: u64, b: u64) -> u64 {
    let mut r = Rng(seed ^ a.wrapping_mul(0xA24B_AED4_963E_E407) ^ b.wrapping_mul(0x9FB2_1C65_1E98_DF25));
    r.next();
    r.next()
}

const FAMILIES: usize = 16;
const SMALL_CAPS: [usize; 4] = [1, 2, 3, 4];
const ALL_CAPS: [usize; 10] = [1, 2, 3, 4, 5, 8, 13, 16, 32, 64];

fn push_ops(r: &mut Rng, n_ops: usize, kinds: &[u8]) -> Vec<Op> {
    (0..n_ops)
        .map(|_| match r.pick(kinds) {
            0 => Op::Send,
            1 => Op::TrySend,
            2 => Op::SendMany(r.below(4) as u8), // 0..3 samples: includes the empty batch
            _ => Op::CloneDrop,
        })
        .collect()
}

/// (seed, id) -> workload. Families guarantee that the corners named in the property are
/// present whatever the seed: capacity 1 and 2, producers pushing nothing / one / several
/// samples, stop() from a producer or from a bystander thread, shared and cloned handles,
/// 1 to 4 producers.
pub fn generate(seed: u64, id: u32) -> Workload {
    if id >= TEARDOWN_BASE {
        return generate_teardown(seed, id);
    }
    let mut r = Rng(mix(seed, 0xC20, id as u64));
    let fam = id as usize % FAMILIES;
    let any = [0u8, 1, 2];
    let (family, np, capacity, mode, with_stop): (&'static str, usize, usize, SourceMode, bool) = match fam {
        0 => ("1p_close_without_push", 1, r.pick(&ALL_CAPS), SourceMode::Cloned, false),
        1 => ("1p_one_sample", 1, r.pick(&SMALL_CAPS), SourceMode::Cloned, false),
        2 => ("1p_cap1_overflow", 1, 1, SourceMode::Cloned, false),
        3 => ("1p_cap2_overflow", 1, 2, SourceMode::SharedArc, false),
        4 => ("1p_try_send_only", 1, r.pick(&SMALL_CAPS), SourceMode::Cloned, false),
        5 => ("1p_stop_by_bystander", 1, r.pick(&ALL_CAPS), SourceMode::Cloned, true),
        6 => ("1p_stop_by_producer", 1, r.pick(&SMALL_CAPS), SourceMode::SharedArc, true),
        7 => ("1p_plus_idle_clones", 3, r.pick(&ALL_CAPS), SourceMode::Cloned, false),
        8 => ("1p_large_cap", 1, r.pick(&[16usize, 32, 64]), SourceMode::Cloned, false),
        9 => ("2p_shared_arc", 2, r.pick(&ALL_CAPS), SourceMode::SharedArc, false),
        10 => ("2p_cloned", 2, r.pick(&ALL_CAPS), SourceMode::Cloned, false),
        11 => ("2p_cap1_or_2", 2, r.pick(&[1usize, 2]), if r.below(2) == 0 { SourceMode::SharedArc } else { SourceMode::Cloned }, false),
        12 => ("3p_mixed", 3, r.pick(&ALL_CAPS), if r.below(2) == 0 { SourceMode::SharedArc } else { SourceMode::Cloned }, r.below(3) == 0),
        13 => ("4p_mixed", 4, r.pick(&ALL_CAPS), if r.below(2) == 0 { SourceMode::SharedArc } else { SourceMode::Cloned }, r.below(3) == 0),
        14 => ("2p_with_stop", 2, r.pick(&SMALL_CAPS), SourceMode::Cloned, true),
        _ => ("random", 1 + r.below(4) as usize, 1 + r.below(64) as usize, if r.below(2) == 0 { SourceMode::SharedArc } else { SourceMode::Cloned }, r.below(4) == 0),
    };
    let mut producers: Vec<Vec<Op>> = Vec::new();
    for p in 0..np {
        let ops = match fam {
            0 => vec![],
            1 => vec![r.pick(&[Op::Send, Op::TrySend, Op::SendMany(1)])],
            2 | 3 => {
                let n = 2 + r.below(4) as usize;
                push_ops(&mut r, n, &[0, 0, 2])
            }
            4 => {
                let n = 1 + r.below(5) as usize;
                push_ops(&mut r, n, &[1])
            }
            7 => {
                // only producer 0 pushes; the others hold a handle, maybe clone/drop, and let go
                if p == 0 {
                    let n = 1 + r.below(4) as usize;
                    push_ops(&mut r, n, &any)
                } else {
                    let n = r.below(2) as usize;
                    push_ops(&mut r, n, &[3])
                }
            }
            8 => {
                let n = 2 + r.below(3) as usize;
                push_ops(&mut r, n, &any)
            }
            _ => {
                // 0, 1 or several ops; keep multi-producer workloads short so schedules stay dense
                let n = match r.below(6) {
                    0 => 0,
                    1 => 1,
                    _ => 2 + r.below(if np >= 3 { 2 } else { 3 }) as usize,
                };
                push_ops(&mut r, n, &[0, 1, 2, 0, 1, 2, 3])
            }
        };
        producers.push(ops);
    }
    let mut controller = vec![];
    if with_stop {
        let by_producer = fam == 6 || (fam != 5 && r.below(2) == 0);
        if by_producer {
            let p = r.below(np as u64) as usize;
            let at = r.below(producers[p].len() as u64 + 1) as usize;
            producers[p].insert(at, Op::Stop);
        } else {
            controller.push(Op::Stop);
        }
    }
    Workload { id, family, capacity, mode, producers, controller, consumer: Consumer::Drain }
}

/// Scenario ids from here on belong to the teardown families (ids below keep the meaning they
/// always had: `id % 16` selects one of the 16 drain-to-end-of-stream families above).
pub const TEARDOWN_BASE: u32 = 100_000;
pub const TEARDOWN_FAMILIES: u32 = 16;

/// (seed, id >= TEARDOWN_BASE) -> workload whose consumer does NOT simply drain: it abandons the
/// track after k receives (k = 0: without ever calling recv), stops and abandons it, or stalls
/// until the producers are done and drains then. The creating thread lets go of its source AND
/// its track handle at once, so the last handle - source or track, whichever the schedule makes
/// last - is dropped with whatever is still queued, and `SpscRing::drop` has to release it.
/// With k = 0 the fill level at teardown is fixed by the workload alone: the families guarantee,
/// whatever the seed, capacity 1 / 2 / 4 exactly full, partly filled and empty, one and several
/// producers, try_send (refused pushes, ring left full) and send (drop-oldest keeps the ring
/// exactly full), stop() before the handles go. In families that say `cap3` the capacity is
/// [1, 2, 4][(id - TEARDOWN_BASE) / 16 % 3], so three consecutive rounds cover all three.
pub fn generate_teardown(seed: u64, id: u32) -> Workload {
    let mut r = Rng(mix(seed, 0xC20_7D, id as u64));
    let k = id - TEARDOWN_BASE;
    let (fam, round) = (k % TEARDOWN_FAMILIES, (k / TEARDOWN_FAMILIES) as usize);
    let cap3 = [1usize, 2, 4][round % 3];
    let alt_mode = if round % 2 == 0 { SourceMode::Cloned } else { SourceMode::SharedArc };
    let mixed = [0u8, 1, 2, 0, 1, 2, 3];
    let mut controller = vec![];
    let (family, capacity, mode, producers, consumer): (&'static str, usize, SourceMode, Vec<Vec<Op>>, Consumer) = match fam {
        0 => {
            // one slot, at least one send, nobody receives: exactly full
            let mut ops = vec![Op::Send];
            let n = r.below(3) as usize;
            ops.extend(push_ops(&mut r, n, &[0, 0, 2]));
            ("td_abandon_cap1_full", 1, SourceMode::Cloned, vec![ops], Consumer::AbandonAfter(0))
        }
        1 => {
            let mut ops = vec![Op::Send, Op::Send];
            let n = r.below(3) as usize;
            ops.extend(push_ops(&mut r, n, &[0, 2]));
            ("td_abandon_cap2_full", 2, SourceMode::SharedArc, vec![ops], Consumer::AbandonAfter(0))
        }
        2 => {
            let mut ops = vec![Op::SendMany(3), Op::Send];
            let n = r.below(3) as usize;
            ops.extend(push_ops(&mut r, n, &[0, 1, 2]));
            ("td_abandon_cap4_full", 4, alt_mode, vec![ops], Consumer::AbandonAfter(0))
        }
        3 => {
            // try_send only: fills the ring, the rest is refused, the ring stays full
            let n = cap3 + 1 + r.below(2) as usize;
            ("td_abandon_try_send_full", cap3, alt_mode, vec![vec![Op::TrySend; n]], Consumer::AbandonAfter(0))
        }
        4 => {
            // fewer pushes than slots: partly filled at teardown, exactly `n` queued
            let cap = [2usize, 4, 4][round % 3];
            let n = 1 + r.below(cap as u64 - 1) as usize;
            let ops = (0..n).map(|_| r.pick(&[Op::Send, Op::TrySend])).collect();
            ("td_abandon_partly_filled", cap, alt_mode, vec![ops], Consumer::AbandonAfter(0))
        }
        5 => {
            // nothing is ever queued; k = 1 lets the consumer meet end-of-stream instead
            let np = 1 + round % 2;
            let producers = (0..np)
                .map(|_| match r.below(3) {
                    0 => vec![],
                    1 => vec![Op::SendMany(0)],
                    _ => vec![Op::CloneDrop],
                })
                .collect();
            ("td_abandon_empty", cap3, alt_mode, producers, Consumer::AbandonAfter(r.below(2) as u32))
        }
        6 => {
            // the consumer takes one or two samples while the producer overflows the ring: any
            // fill level 0..=capacity at teardown, head and tail anywhere (wrapped ring)
            let mut ops = vec![Op::Send; cap3 + 1];
            let n = r.below(3) as usize;
            ops.extend(push_ops(&mut r, n, &[0, 0, 1, 2]));
            ("td_abandon_after_k", cap3, alt_mode, vec![ops], Consumer::AbandonAfter(1 + r.below(2) as u32))
        }
        7 => {
            // two producers, each sends at least `capacity` samples: exactly full
            let producers = (0..2).map(|_| vec![Op::Send; cap3 + r.below(2) as usize]).collect();
            ("td_abandon_2p_full", cap3, alt_mode, producers, Consumer::AbandonAfter(0))
        }
        8 => {
            let producers = (0..3)
                .map(|_| {
                    let n = r.below(4) as usize;
                    push_ops(&mut r, n, &mixed)
                })
                .collect();
            ("td_abandon_3p_mixed", cap3, alt_mode, producers, Consumer::AbandonAfter(r.below(3) as u32))
        }
        9 => {
            // the consumer itself stops the track, then lets go of it
            let np = 1 + round % 2;
            let producers = (0..np)
                .map(|_| {
                    let n = 1 + r.below(4) as usize;
                    push_ops(&mut r, n, &[0, 0, 1, 2])
                })
                .collect();
            ("td_stop_then_abandon", cap3, alt_mode, producers, Consumer::StopThenAbandon(r.below(2) as u32))
        }
        10 | 14 => {
            // stop() comes from a producer or from a bystander thread, racing with everything else
            let np = 1 + r.below(2) as usize;
            let mut producers: Vec<Vec<Op>> = (0..np)
                .map(|_| {
                    let n = 1 + r.below(4) as usize;
                    push_ops(&mut r, n, &[0, 0, 1, 2])
                })
                .collect();
            if r.below(2) == 0 {
                let p = r.below(np as u64) as usize;
                let at = r.below(producers[p].len() as u64 + 1) as usize;
                producers[p].insert(at, Op::Stop);
            } else {
                controller.push(Op::Stop);
            }
            if fam == 10 {
                ("td_abandon_stop_elsewhere", cap3, alt_mode, producers, Consumer::AbandonAfter(r.below(2) as u32))
            } else {
                // the stalled consumer finds the track ended and leaves what is queued to the teardown
                ("td_stall_with_stop", cap3, alt_mode, producers, Consumer::StallThenDrain(r.below(2) as u32))
            }
        }
        11 => {
            // drop-oldest keeps the one slot full while the consumer stalls; the queue releases the victims
            let mut ops = vec![Op::Send, Op::Send];
            let n = r.below(3) as usize;
            ops.extend(push_ops(&mut r, n, &[0, 0, 2]));
            ("td_stall_cap1_overflow", 1, SourceMode::Cloned, vec![ops], Consumer::StallThenDrain(r.below(2) as u32))
        }
        12 => {
            let cap = [2usize, 4][round % 2];
            let mut ops = vec![Op::Send; cap + 1];
            let n = r.below(4) as usize;
            let at = r.below(cap as u64 + 1) as usize;
            for (k, o) in push_ops(&mut r, n, &[0, 0, 1, 2]).into_iter().enumerate() {
                ops.insert((at + k).min(ops.len()), o);
            }
            ("td_stall_cap2_or_4", cap, alt_mode, vec![ops], Consumer::StallThenDrain(r.below(3) as u32))
        }
        13 => {
            let producers = (0..2)
                .map(|_| {
                    let n = 1 + r.below(3) as usize;
                    push_ops(&mut r, n, &mixed)
                })
                .collect();
            ("td_stall_2p", cap3, alt_mode, producers, Consumer::StallThenDrain(r.below(3) as u32))
        }
        _ => {
            let np = 1 + r.below(3) as usize;
            let producers = (0..np)
                .map(|_| {
                    let n = r.below(5) as usize;
                    push_ops(&mut r, n, &mixed)
                })
                .collect();
            if r.below(4) == 0 {
                controller.push(Op::Stop);
            }
            let k = r.below(3) as u32;
            let consumer = match r.below(3) {
                0 => Consumer::AbandonAfter(k),
                1 => Consumer::StopThenAbandon(k),
                _ => Consumer::StallThenDrain(k),
            };
            ("td_random", r.pick(&[1usize, 2, 3, 4, 5, 8]), if r.below(2) == 0 { SourceMode::SharedArc } else { SourceMode::Cloned }, producers, consumer)
        }
    };
    Workload { id, family, capacity, mode, producers, controller, consumer }
}
