//! Workloads: what the producer threads, the optional controller thread and the consumer do.
//! A workload is a pure function of (VERIF_SEED, scenario id); it is written out in full in
//! every replay file so a replay does not depend on this generator staying unchanged.
use serde_json::{json, Value};

#[derive(Clone, Copy, Debug, PartialEq, Eq)]
pub enum Op {
    /// `SampleStreamSource::send` (drop-oldest when full)
    Send,
    /// `SampleStreamSource::try_send` (WouldBlock when full)
    TrySend,
    /// `SampleStreamSource::send_many` with n samples
    SendMany(u8),
    /// `SampleStreamTrack::stop()`
    Stop,
    /// clone the source handle and drop the clone at once (sender count up/down, must not close)
    CloneDrop,
}

impl Op {
    pub fn pushes(&self) -> u32 {
        match self {
            Op::Send | Op::TrySend => 1,
            Op::SendMany(n) => *n as u32,
            _ => 0,
        }
    }
    fn to_json(&self) -> Value {
        match self {
            Op::Send => json!("send"),
            Op::TrySend => json!("try_send"),
            Op::SendMany(n) => json!({ "send_many": n }),
            Op::Stop => json!("stop"),
            Op::CloneDrop => json!("clone_drop"),
        }
    }
    fn from_json(v: &Value) -> Option<Op> {
        if let Some(s) = v.as_str() {
            return match s {
                "send" => Some(Op::Send),
                "try_send" => Some(Op::TrySend),
                "stop" => Some(Op::Stop),
                "clone_drop" => Some(Op::CloneDrop),
                _ => None,
            };
        }
        v.get("send_many").and_then(|n| n.as_u64()).map(|n| Op::SendMany(n as u8))
    }
}

#[derive(Clone, Copy, Debug, PartialEq, Eq)]
pub enum SourceMode {
    /// every producer thread holds an `Arc<SampleStreamSource>` of the one source
    SharedArc,
    /// every producer thread owns its own `SampleStreamSource::clone()`
    Cloned,
}

#[derive(Clone, Debug)]
pub struct Workload {
    pub id: u32,
    pub family: &'static str,
    pub capacity: usize,
    pub mode: SourceMode,
    /// one op list per producer thread; the thread drops its source handle after the last op
    pub producers: Vec<Vec<Op>>,
    /// optional extra thread that owns no source (only `Stop` is meaningful here)
    pub controller: Vec<Op>,
}

impl Workload {
    pub fn total_pushes(&self) -> u32 {
        self.producers.iter().flatten().map(|o| o.pushes()).sum()
    }
    pub fn pushing_producers(&self) -> usize {
        self.producers.iter().filter(|p| p.iter().any(|o| o.pushes() > 0)).count()
    }
    pub fn has_stop(&self) -> bool {
        self.controller.iter().chain(self.producers.iter().flatten()).any(|o| *o == Op::Stop)
    }
    /// Structural class used by known-findings patterns: how many threads push into the one ring.
    pub fn scenario_class(&self) -> &'static str {
        if self.pushing_producers() >= 2 {
            "multi_producer_shared_ring"
        } else {
            "single_producer"
        }
    }
    /// receive cap: a healthy queue can never deliver more than was pushed
    pub fn recv_cap(&self) -> usize {
        self.total_pushes() as usize + 4
    }
    pub fn to_json(&self) -> Value {
        json!({
            "id": self.id,
            "family": self.family,
            "capacity": self.capacity,
            "source_mode": match self.mode { SourceMode::SharedArc => "shared_arc", SourceMode::Cloned => "cloned" },
            "producers": self.producers.iter().map(|p| p.iter().map(|o| o.to_json()).collect::<Vec<_>>()).collect::<Vec<_>>(),
            "controller": self.controller.iter().map(|o| o.to_json()).collect::<Vec<_>>(),
            "scenario_class": self.scenario_class(),
            "total_pushes": self.total_pushes(),
        })
    }
    pub fn from_json(v: &Value) -> Option<Workload> {
        let ops = |v: &Value| -> Option<Vec<Op>> { v.as_array()?.iter().map(Op::from_json).collect() };
        Some(Workload {
            id: v.get("id")?.as_u64()? as u32,
            family: "replayed",
            capacity: v.get("capacity")?.as_u64()? as usize,
            mode: match v.get("source_mode")?.as_str()? {
                "shared_arc" => SourceMode::SharedArc,
                "cloned" => SourceMode::Cloned,
                _ => return None,
            },
            producers: v.get("producers")?.as_array()?.iter().map(ops).collect::<Option<Vec<_>>>()?,
            controller: ops(v.get("controller")?)?,
        })
    }
}

pub struct Rng(pub u64);
impl Rng {
    pub fn next(&mut self) -> u64 {
        // splitmix64
        self.0 = self.0.wrapping_add(0x9E37_79B9_7F4A_7C15);
        let mut z = self.0;
        z = (z ^ (z >> 30)).wrapping_mul(0xBF58_476D_1CE4_E5B9);
        z = (z ^ (z >> 27)).wrapping_mul(0x94D0_49BB_1331_11EB);
        z ^ (z >> 31)
    }
    pub fn below(&mut self, n: u64) -> u64 {
        self.next() % n
    }
    pub fn pick<T: Copy>(&mut self, xs: &[T]) -> T {
        xs[self.below(xs.len() as u64) as usize]
    }
}

pub fn mix(seed: u64, a: u64, b: u64) -> u64 {
    let mut r = Rng(seed ^ a.wrapping_mul(0xA24B_AED4_963E_E407) ^ b.wrapping_mul(0x9FB2_1C65_1E98_DF25));
    r.next();
    r.next()
}

const FAMILIES: usize = 16;
const SMALL_CAPS: [usize; 4] = [1, 2, 3, 4];
const ALL_CAPS: [usize; 10] = [1, 2, 3, 4, 5, 8, 13, 16, 32, 64];

fn push_ops(r: &mut Rng, n_ops: usize, kinds: &[u8]) -> Vec<Op> {
    (0..n_ops)
        .map(|_| match r.pick(kinds) {
            0 => Op::Send,
            1 => Op::TrySend,
            2 => Op::SendMany(r.below(4) as u8), // 0..3 samples: includes the empty batch
            _ => Op::CloneDrop,
        })
        .collect()
}

/// (seed, id) -> workload. Families guarantee that the corners named in the property are
/// present whatever the seed: capacity 1 and 2, producers pushing nothing / one / several
/// samples, stop() from a producer or from a bystander thread, shared and cloned handles,
/// 1 to 4 producers.
pub fn generate(seed: u64, id: u32) -> Workload {
    let mut r = Rng(mix(seed, 0xC20, id as u64));
    let fam = id as usize % FAMILIES;
    let any = [0u8, 1, 2];
    let (family, np, capacity, mode, with_stop): (&'static str, usize, usize, SourceMode, bool) = match fam {
        0 => ("1p_close_without_push", 1, r.pick(&ALL_CAPS), SourceMode::Cloned, false),
        1 => ("1p_one_sample", 1, r.pick(&SMALL_CAPS), SourceMode::Cloned, false),
        2 => ("1p_cap1_overflow", 1, 1, SourceMode::Cloned, false),
        3 => ("1p_cap2_overflow", 1, 2, SourceMode::SharedArc, false),
        4 => ("1p_try_send_only", 1, r.pick(&SMALL_CAPS), SourceMode::Cloned, false),
        5 => ("1p_stop_by_bystander", 1, r.pick(&ALL_CAPS), SourceMode::Cloned, true),
        6 => ("1p_stop_by_producer", 1, r.pick(&SMALL_CAPS), SourceMode::SharedArc, true),
        7 => ("1p_plus_idle_clones", 3, r.pick(&ALL_CAPS), SourceMode::Cloned, false),
        8 => ("1p_large_cap", 1, r.pick(&[16usize, 32, 64]), SourceMode::Cloned, false),
        9 => ("2p_shared_arc", 2, r.pick(&ALL_CAPS), SourceMode::SharedArc, false),
        10 => ("2p_cloned", 2, r.pick(&ALL_CAPS), SourceMode::Cloned, false),
        11 => ("2p_cap1_or_2", 2, r.pick(&[1usize, 2]), if r.below(2) == 0 { SourceMode::SharedArc } else { SourceMode::Cloned }, false),
        12 => ("3p_mixed", 3, r.pick(&ALL_CAPS), if r.below(2) == 0 { SourceMode::SharedArc } else { SourceMode::Cloned }, r.below(3) == 0),
        13 => ("4p_mixed", 4, r.pick(&ALL_CAPS), if r.below(2) == 0 { SourceMode::SharedArc } else { SourceMode::Cloned }, r.below(3) == 0),
        14 => ("2p_with_stop", 2, r.pick(&SMALL_CAPS), SourceMode::Cloned, true),
        _ => ("random", 1 + r.below(4) as usize, 1 + r.below(64) as usize, if r.below(2) == 0 { SourceMode::SharedArc } else { SourceMode::Cloned }, r.below(4) == 0),
    };
    let mut producers: Vec<Vec<Op>> = Vec::new();
    for p in 0..np {
        let ops = match fam {
            0 => vec![],
            1 => vec![r.pick(&[Op::Send, Op::TrySend, Op::SendMany(1)])],
            2 | 3 => {
                let n = 2 + r.below(4) as usize;
                push_ops(&mut r, n, &[0, 0, 2])
            }
            4 => {
                let n = 1 + r.below(5) as usize;
                push_ops(&mut r, n, &[1])
            }
            7 => {
                // only producer 0 pushes; the others hold a handle, maybe clone/drop, and let go
                if p == 0 {
                    let n = 1 + r.below(4) as usize;
                    push_ops(&mut r, n, &any)
                } else {
                    let n = r.below(2) as usize;
                    push_ops(&mut r, n, &[3])
                }
            }
            8 => {
                let n = 2 + r.below(3) as usize;
                push_ops(&mut r, n, &any)
            }
            _ => {
                // 0, 1 or several ops; keep multi-producer workloads short so schedules stay dense
                let n = match r.below(6) {
                    0 => 0,
                    1 => 1,
                    _ => 2 + r.below(if np >= 3 { 2 } else { 3 }) as usize,
                };
                push_ops(&mut r, n, &[0, 1, 2, 0, 1, 2, 3])
            }
        };
        producers.push(ops);
    }
    let mut controller = vec![];
    if with_stop {
        let by_producer = fam == 6 || (fam != 5 && r.below(2) == 0);
        if by_producer {
            let p = r.below(np as u64) as usize;
            let at = r.below(producers[p].len() as u64 + 1) as usize;
            producers[p].insert(at, Op::Stop);
        } else {
            controller.push(Op::Stop);
        }
    }
    Workload { id, family, capacity, mode, producers, controller }
}
