//! Property C20 — track sample queues never duplicate, reorder, corrupt or leak samples —
//! decided by controlled-scheduler exploration (shuttle 0.9.3) of the real
//! `SampleStreamSource` / `SampleStreamTrack` / `SpscRing` code built with `--cfg rustrtc_verif`,
//! whose atomics and pop lock call the scheduling point registered below before and after
//! every operation. Oracles: identity / once / order / eos / balance over what the consumer
//! received (exec.rs) and C20.release over the payloads (payload.rs): each `Bytes` payload that
//! was created is released exactly once, whichever way it left the queue - also when the last
//! handle is dropped over a ring that is still (exactly) full.
//!
//!   c20 check <quick|thorough>      explore, judge, triage against known findings, write evidence
//!   c20 --replay <replay.json>      re-run one persisted failing schedule (exit 1 = reproduced)
//!   c20 --list <quick|thorough>     print the workloads of a tier
//!   c20 --worker ...                internal: explore a list of scenario ids, JSON lines on stdout
//!   c20 c12 <check|--replay|--list> second scenario family (property C12, concurrent SCTP senders): see sctp_send/mod.rs
//!
//! Exit codes: 0 held (KNOWN-FINDING lines allowed) / 1 violation / 2 harness error.
mod exec;
mod known;
mod miri;
mod payload;
mod sched;
mod sctp_send;
mod workload;

use exec::ORACLE_TAG;
use sched::{Recording, REC};
use serde_json::{json, Value};
use shuttle::scheduler::{PctScheduler, RandomScheduler, ReplayScheduler};
use shuttle::{Config, FailurePersistence, MaxSteps, Runner};
use shuttle_engine::scheduler::serialization::serialize_schedule;
use std::collections::{BTreeMap, BTreeSet};
use std::io::{BufRead, Write};
use std::panic::{catch_unwind, AssertUnwindSafe};
use std::path::{Path, PathBuf};
use std::process::{Command, Stdio};
use std::sync::Arc;
use workload::{generate, mix, Workload};

/// keeps the reference-count blocks of released payloads alive until the execution has been
/// judged, so that a second release is observed instead of corrupting the heap (payload.rs)
#[global_allocator]
static ALLOC: payload::QuarantineAlloc = payload::QuarantineAlloc;

const PROP: &str = "C20";
const DEFAULT_SEED: u64 = 20260925;
const MAX_STEPS: usize = 200_000;
const STACK: usize = 0x40000;
/// a scenario that already failed this often is established as violating; the rest of its
/// schedule budget is skipped (and reported as skipped)
const MAX_FAILURES_PER_SCENARIO: usize = 6;
/// under PCT every n-th scheduling point is a yield (see exec::sched_point)
const PCT_YIELD_EVERY: u32 = 8;
/// an execution takes well under a millisecond; one that burns this much CPU time without a
/// single scheduling decision sits in a loop that contains no scheduling point (seen:
/// SpscRing::drop with head > tail). CPU time, not wall time: on a loaded or paused machine a
/// healthy worker can go seconds without being run.
const HANG_AFTER_CPU: std::time::Duration = std::time::Duration::from_millis(2000);
/// no progress and no CPU use for this long is not a finding about rustrtc but a stuck harness
const STALL_AFTER_WALL: std::time::Duration = std::time::Duration::from_secs(180);
const EXIT_HANG: i32 = 3;
const EXIT_STALL: i32 = 4;

/// CPU time (user + system) this process has used so far
fn process_cpu_time() -> Option<std::time::Duration> {
    // /proc/self/stat: fields 14 and 15 are utime and stime in USER_HZ (100 per second on Linux);
    // the command name (field 2) may contain spaces, so count from the closing parenthesis
    let s = std::fs::read_to_string("/proc/self/stat").ok()?;
    let rest = &s[s.rfind(')')? + 1..];
    let f: Vec<&str> = rest.split_whitespace().collect();
    let ticks = f.get(11)?.parse::<u64>().ok()? + f.get(12)?.parse::<u64>().ok()?;
    Some(std::time::Duration::from_millis(ticks * 10))
}

/// what the watchdog needs to describe the execution in progress
#[derive(Clone, Default)]
struct HangCtx {
    active: bool,
    scenario: u32,
    scheduler: String,
    scheduler_seed: u64,
    yield_every: u32,
}
static HANG_CTX: std::sync::Mutex<HangCtx> = std::sync::Mutex::new(HangCtx { active: false, scenario: 0, scheduler: String::new(), scheduler_seed: 0, yield_every: 0 });
static EXECUTIONS_IN_SCENARIO: std::sync::atomic::AtomicU64 = std::sync::atomic::AtomicU64::new(0);

fn set_hang_ctx(c: HangCtx) {
    *HANG_CTX.lock().unwrap_or_else(|e| e.into_inner()) = c;
}

/// Watches the progress counter from a plain OS thread. `on_hang` gets the description of the
/// stuck execution and decides how the process ends (it must not return).
fn spawn_watchdog(on_hang: impl Fn(HangCtx, Value) + Send + 'static) {
    std::thread::spawn(move || {
        let mut last = (sched::PROGRESS.load(std::sync::atomic::Ordering::Relaxed), std::time::Instant::now(), process_cpu_time());
        loop {
            std::thread::sleep(std::time::Duration::from_millis(100));
            let now = sched::PROGRESS.load(std::sync::atomic::Ordering::Relaxed);
            let ctx = HANG_CTX.lock().unwrap_or_else(|e| e.into_inner()).clone();
            if now != last.0 || !ctx.active {
                last = (now, std::time::Instant::now(), process_cpu_time());
                continue;
            }
            let burnt = match (last.2, process_cpu_time()) {
                (Some(a), Some(b)) => b.saturating_sub(a),
                // no /proc: fall back to wall time with a generous margin
                _ => last.1.elapsed() / 5,
            };
            if burnt < HANG_AFTER_CPU && last.1.elapsed() >= STALL_AFTER_WALL {
                eprintln!("worker made no progress and used no CPU for {} s", STALL_AFTER_WALL.as_secs());
                std::process::exit(EXIT_STALL);
            }
            if burnt >= HANG_AFTER_CPU {
                let sched = sched::current_schedule();
                let log = exec::current_log_summary();
                let f = json!({
                    "oracle": "C20.ub", "kind": "hang",
                    "detail": format!("an execution burnt {} ms of CPU time without one scheduling decision: a thread loops without reaching any atomic or lock operation (SpscRing::drop walks from head to tail and never ends once corrupted indices leave head > tail)", HANG_AFTER_CPU.as_millis()),
                    "scheduler": ctx.scheduler, "scheduler_seed": ctx.scheduler_seed, "yield_every": ctx.yield_every,
                    "schedule": serialize_schedule(&sched), "schedule_steps": sched.len(), "schedule_file": Value::Null,
                    "persisted_matches_recorder": Value::Null,
                    "log": log.as_ref().map(|l| l.0.clone()).unwrap_or(Value::Null),
                    "log_hash": format!("{:016x}", log.as_ref().map(|l| l.1).unwrap_or(0)),
                });
                on_hang(ctx, f);
                std::process::exit(EXIT_HANG);
            }
        }
    });
}

struct Tier {
    name: &'static str,
    scenarios: u32,
    random_per_scenario: usize,
    pct_per_scenario: usize,
    /// teardown families (scenario ids from workload::TEARDOWN_BASE on): how many ids, and the
    /// schedule budget of each (their workloads are small: a handful of pushes, a consumer that
    /// leaves early)
    td_scenarios: u32,
    td_random_per_scenario: usize,
    td_pct_per_scenario: usize,
    /// Miri seeds per driver mode (0 = Miri is not part of this tier)
    miri_seeds: u64,
}
fn tier(name: &str) -> Option<Tier> {
    match name {
        "quick" => Some(Tier { name: "quick", scenarios: 256, random_per_scenario: 28000, pct_per_scenario: 12000, td_scenarios: 64, td_random_per_scenario: 10000, td_pct_per_scenario: 5000, miri_seeds: 8 }),
        "thorough" => Some(Tier { name: "thorough", scenarios: 3072, random_per_scenario: 40000, pct_per_scenario: 20000, td_scenarios: 768, td_random_per_scenario: 20000, td_pct_per_scenario: 10000, miri_seeds: 64 }),
        _ => None,
    }
}

fn root() -> String {
    let p = Path::new(concat!(env!("CARGO_MANIFEST_DIR"), "/.."));
    p.canonicalize().unwrap_or_else(|_| p.to_path_buf()).to_string_lossy().into_owned()
}

fn seed_from_env() -> Result<u64, String> {
    match std::env::var("VERIF_SEED") {
        Ok(s) if !s.trim().is_empty() => s.trim().parse::<u64>().map_err(|e| format!("VERIF_SEED={s:?}: {e}")),
        _ => Ok(DEFAULT_SEED),
    }
}

/// scenario ids of a tier whose workloads are pairwise different (a later id that expands to
/// the same workload as an earlier one is left out, so (scenario, schedule) pairs stay distinct)
fn scenarios_of(seed: u64, t: &Tier) -> Vec<Workload> {
    let mut seen = BTreeSet::new();
    let mut out = vec![];
    for id in (0..t.scenarios).chain(workload::TEARDOWN_BASE..workload::TEARDOWN_BASE + t.td_scenarios) {
        let w = generate(seed, id);
        let mut key = w.to_json();
        key.as_object_mut().unwrap().remove("id");
        if seen.insert(key.to_string()) {
            out.push(w);
        }
    }
    out
}

fn main() {
    let args: Vec<String> = std::env::args().skip(1).collect();
    let code = match args.first().map(|s| s.as_str()) {
        Some("check") => match args.get(1).and_then(|t| tier(t)) {
            Some(t) => check(t),
            None => usage(),
        },
        Some("c12") => sctp_send::main(&args[1..]),
        // a replay file says itself which family wrote it
        Some("--replay") if args.get(1).map(|p| sctp_send::owns_replay(p)).unwrap_or(false) => sctp_send::main(&args),
        Some("--replay") => match args.get(1) {
            Some(p) => replay_outer(p, args.iter().any(|a| a == "--log")),
            None => usage(),
        },
        Some("--replay-inner") => match args.get(1) {
            Some(p) => replay(p),
            None => usage(),
        },
        Some("--list") => match args.get(1).and_then(|t| tier(t)) {
            Some(t) => {
                let seed = seed_from_env().unwrap_or(DEFAULT_SEED);
                for w in scenarios_of(seed, &t) {
                    println!("{}", w.to_json());
                }
                0
            }
            None => usage(),
        },
        Some("--worker") => worker(&args[1..]),
        _ => usage(),
    };
    std::process::exit(code);
}

fn usage() -> i32 {
    eprintln!("usage: c20 check <quick|thorough> | c20 --replay <file.json> | c20 --list <quick|thorough> | c20 c12 <check <quick|thorough> | --replay <file.json> | --list <quick|thorough>>");
    2
}

// =============================================================================================
// one scenario, explored in this process
// =============================================================================================
fn shuttle_config(persist_dir: Option<PathBuf>) -> Config {
    let mut c = Config::new();
    c.stack_size = STACK;
    c.max_steps = MaxSteps::FailAfter(MAX_STEPS);
    c.failure_persistence = match persist_dir {
        Some(d) => FailurePersistence::File(Some(d)),
        None => FailurePersistence::None,
    };
    c.silence_warnings = true;
    c
}

fn install_process_hooks() {
    // silence the default "thread panicked" report; shuttle chains its own hook (which persists
    // the failing schedule) in front of this one
    std::panic::set_hook(Box::new(|_| {}));
    rustrtc::verif_hooks::sync::set_sched_point(exec::sched_point);
    // track ids come from rustrtc's random helper; pin it so nothing in a run depends on the OS
    rustrtc::verif_hooks::set_random_source(Some(Box::new(|b: &mut [u8]| b.fill(0x20))));
    // turns the payload quarantine on if (and only if) it works on this build
    payload::selftest();
}

fn panic_text(p: &(dyn std::any::Any + Send)) -> String {
    if let Some(s) = p.downcast_ref::<String>() {
        s.clone()
    } else if let Some(s) = p.downcast_ref::<&str>() {
        s.to_string()
    } else {
        "<non-string panic payload>".into()
    }
}

/// (oracle, kind, detail) of a failed execution, from the panic text and the execution log
fn classify(msg: &str, log: &Option<(Value, u64)>) -> (String, String, String) {
    if let Some(rest) = msg.strip_prefix(ORACLE_TAG) {
        let mut it = rest.splitn(3, '|');
        let (o, k, d) = (it.next().unwrap_or("?"), it.next().unwrap_or("?"), it.next().unwrap_or(""));
        return (o.into(), k.into(), d.into());
    }
    if msg.contains(payload::BYTES_DOUBLE_DROP_PANIC) {
        // bytes' debug assertion: a `Bytes` over an owner was dropped after its reference count
        // had reached zero, i.e. a stale bitwise copy of a payload that was released before
        let which = log.as_ref().map(|(l, _)| l["release"]["dropped_again_after_release"].to_string()).unwrap_or_default();
        let td = log.as_ref().map(|(l, _)| l["teardown"].to_string()).unwrap_or_default();
        return ("C20.release".into(), "released_twice".into(), format!("double free: a payload that had been released was dropped again (bytes: {}): {which}; teardown {td}", payload::BYTES_DOUBLE_DROP_PANIC));
    }
    if msg.contains("deadlock!") {
        // recv() is the only blocking call in a scenario, producers never block: every thread
        // but the consumer (and the joiner waiting for it) has finished, so every handle is gone
        let all_dropped = log.as_ref().map(|(l, _)| l["all_sources_dropped"] == json!(true)).unwrap_or(false);
        let kind = if all_dropped { "recv_deadlock_after_close" } else { "deadlock_with_live_source" };
        return ("C20.eos".into(), kind.into(), format!("consumer parked in recv() for ever after every producer finished and dropped its source handle; shuttle: {}", msg.lines().next().unwrap_or("")));
    }
    if msg.contains("exceeded max_steps") {
        return ("C20.eos".into(), "step_limit".into(), format!("no end within {MAX_STEPS} scheduling steps: {}", msg.lines().next().unwrap_or("")));
    }
    ("C20.ub".into(), "panic".into(), format!("panic inside the run: {}", msg.lines().next().unwrap_or("")))
}

#[derive(Clone, Copy, Debug)]
enum Kind {
    Random,
    Pct(usize),
}
impl Kind {
    fn label(&self) -> String {
        match self {
            Kind::Random => "random".into(),
            Kind::Pct(d) => format!("pct(depth={d})"),
        }
    }
    fn yield_every(&self) -> u32 {
        match self {
            Kind::Random => 0,
            Kind::Pct(_) => PCT_YIELD_EVERY,
        }
    }
}

struct Failure {
    oracle: String,
    kind: String,
    detail: String,
    scheduler: String,
    scheduler_seed: u64,
    yield_every: u32,
    schedule: String,
    schedule_steps: usize,
    schedule_file: Option<String>,
    persisted_matches_recorder: Option<bool>,
    log: Value,
    log_hash: u64,
}

fn newest_schedule_file(dir: &Path) -> Option<PathBuf> {
    let mut v: Vec<PathBuf> = std::fs::read_dir(dir).ok()?.filter_map(|e| e.ok()).map(|e| e.path()).filter(|p| p.file_name().and_then(|n| n.to_str()).map(|n| n.starts_with("schedule") && n.ends_with(".txt")).unwrap_or(false)).collect();
    v.sort();
    v.pop()
}

fn explore_scenario(w: &Workload, seed: u64, t: &Tier, workdir: &Path) -> Value {
    let t0 = std::time::Instant::now();
    REC.with(|r| r.borrow_mut().reset_scenario());
    exec::STATS.with(|s| *s.borrow_mut() = exec::Stats::default());
    let wl = Arc::new(w.clone());
    let mut failures: Vec<Failure> = vec![];
    let mut failure_counts: BTreeMap<String, u64> = BTreeMap::new();
    let mut skipped = 0usize;
    let mut per_sched: BTreeMap<String, u64> = BTreeMap::new();
    let mut chunk = 0u64;
    let (random_budget, pct_budget) = if w.id >= workload::TEARDOWN_BASE { (t.td_random_per_scenario, t.td_pct_per_scenario) } else { (t.random_per_scenario, t.pct_per_scenario) };
    for (is_pct, budget) in [(false, random_budget), (true, pct_budget)] {
        let mut remaining = budget;
        while remaining > 0 {
            if failure_counts.values().sum::<u64>() as usize >= MAX_FAILURES_PER_SCENARIO {
                skipped += remaining;
                break;
            }
            let kind = if is_pct { Kind::Pct(2 + (chunk % 4) as usize) } else { Kind::Random };
            let sseed = mix(seed, 0x5C4ED ^ ((w.id as u64) << 20), chunk);
            chunk += 1;
            exec::set_yield_every(kind.yield_every());
            set_hang_ctx(HangCtx { active: true, scenario: w.id, scheduler: kind.label(), scheduler_seed: sseed, yield_every: kind.yield_every() });
            let before = REC.with(|r| r.borrow().executions_started);
            let cfg = shuttle_config(Some(workdir.to_path_buf()));
            let wl2 = wl.clone();
            let res = catch_unwind(AssertUnwindSafe(|| match kind {
                Kind::Random => Runner::new(Recording(RandomScheduler::new_from_seed(sseed, remaining)), cfg).run(move || exec::body(&wl2)),
                Kind::Pct(d) => Runner::new(Recording(PctScheduler::new_from_seed(sseed, d, remaining)), cfg).run(move || exec::body(&wl2)),
            }));
            exec::leave_exec();
            set_hang_ctx(HangCtx::default());
            let ran = (REC.with(|r| r.borrow().executions_started) - before) as usize;
            EXECUTIONS_IN_SCENARIO.fetch_add(ran as u64, std::sync::atomic::Ordering::Relaxed);
            *per_sched.entry(if is_pct { "pct".into() } else { "random".into() }).or_insert(0) += ran as u64;
            remaining = remaining.saturating_sub(ran.max(1));
            match res {
                Ok(_) => REC.with(|r| r.borrow_mut().finish_execution(true)),
                Err(p) => {
                    REC.with(|r| r.borrow_mut().finish_execution(false));
                    let msg = panic_text(&*p);
                    let log = exec::current_log_summary();
                    let (oracle, k, detail) = classify(&msg, &log);
                    let key = format!("{oracle}|{k}");
                    let first_of_its_kind = !failure_counts.contains_key(&key);
                    *failure_counts.entry(key).or_insert(0) += 1;
                    let sched = sched::current_schedule();
                    let recorded = serialize_schedule(&sched);
                    let file = newest_schedule_file(workdir);
                    let persisted = file.as_ref().and_then(|f| std::fs::read_to_string(f).ok());
                    let mut kept = None;
                    if let Some(f) = &file {
                        if first_of_its_kind {
                            let dest = workdir.join(format!("s{}-{}.schedule.txt", w.id, failures.len()));
                            if std::fs::rename(f, &dest).is_ok() {
                                kept = Some(dest.to_string_lossy().into_owned());
                            }
                        } else {
                            let _ = std::fs::remove_file(f);
                        }
                    }
                    if first_of_its_kind {
                        failures.push(Failure {
                            oracle,
                            kind: k,
                            detail,
                            scheduler: kind.label(),
                            scheduler_seed: sseed,
                            yield_every: kind.yield_every(),
                            // shuttle's own file is authoritative; the recorder is the fallback
                            schedule: persisted.clone().unwrap_or(recorded.clone()),
                            schedule_steps: sched.len(),
                            schedule_file: kept,
                            persisted_matches_recorder: persisted.as_ref().map(|p| p.trim() == recorded.trim()),
                            log: log.as_ref().map(|l| l.0.clone()).unwrap_or(Value::Null),
                            log_hash: log.as_ref().map(|l| l.1).unwrap_or(0),
                        });
                    }
                }
            }
        }
    }
    let (executions, steps, distinct, distinct_nt) = REC.with(|r| {
        let r = r.borrow();
        (r.executions_started, r.steps, r.distinct.len(), r.distinct_nontrivial.len())
    });
    let stats = exec::STATS.with(|s| s.borrow().clone());
    json!({
        "scenario": w.id,
        "executions": executions,
        "executions_completed": stats.executions_completed,
        "executions_nontrivial": stats.nontrivial,
        "steps": steps,
        "distinct_schedules": distinct,
        "distinct_nontrivial_schedules": distinct_nt,
        "by_scheduler": per_sched,
        "budget_skipped": skipped,
        "samples_accepted": stats.samples_accepted,
        "samples_received": stats.samples_received,
        "samples_lost_to_overflow": stats.samples_lost_to_overflow,
        "probes": stats.probes,
        "payloads_created": stats.payloads_created,
        "payloads_released_by": payload::PATHS.iter().zip(stats.released_by.iter()).map(|(k, v)| (k.to_string(), json!(v))).collect::<serde_json::Map<String, Value>>(),
        "teardown": { "empty": stats.teardown[0], "partly_filled": stats.teardown[1], "full": stats.teardown[2] },
        "teardown_full_by_capacity": stats.teardown_full_by_capacity.iter().map(|(k, v)| (k.to_string(), json!(v))).collect::<serde_json::Map<String, Value>>(),
        "failure_counts": failure_counts,
        "failures": failures.iter().map(|f| json!({
            "oracle": f.oracle, "kind": f.kind, "detail": f.detail, "scheduler": f.scheduler,
            "scheduler_seed": f.scheduler_seed, "yield_every": f.yield_every, "schedule": f.schedule,
            "schedule_steps": f.schedule_steps, "schedule_file": f.schedule_file,
            "persisted_matches_recorder": f.persisted_matches_recorder,
            "log": f.log, "log_hash": format!("{:016x}", f.log_hash),
        })).collect::<Vec<_>>(),
        "wall_ms": t0.elapsed().as_millis() as u64,
    })
}

// =============================================================================================
// worker process: --worker <tier> <seed> <workdir> <id,id,...>
// =============================================================================================
fn worker(a: &[String]) -> i32 {
    let (Some(t), Some(seed), Some(dir), Some(ids)) = (a.first().and_then(|t| tier(t)), a.get(1).and_then(|s| s.parse::<u64>().ok()), a.get(2), a.get(3)) else {
        return usage();
    };
    let dir = PathBuf::from(dir);
    if std::fs::create_dir_all(&dir).is_err() {
        eprintln!("cannot create {dir:?}");
        return 2;
    }
    install_process_hooks();
    spawn_watchdog(|ctx, failure| {
        // the exploring thread is stuck for good: report what is known and let the parent
        // restart a worker for the scenarios that are left
        let line = json!({ "hang": ctx.scenario, "executions": EXECUTIONS_IN_SCENARIO.load(std::sync::atomic::Ordering::Relaxed) + 1, "failure": failure });
        let mut o = std::io::stdout().lock();
        let _ = writeln!(o, "{line}");
        let _ = o.flush();
    });
    let out = std::io::stdout();
    for id in ids.split(',').filter(|s| !s.is_empty()) {
        let Ok(id) = id.parse::<u32>() else { return 2 };
        let w = generate(seed, id);
        EXECUTIONS_IN_SCENARIO.store(0, std::sync::atomic::Ordering::Relaxed);
        {
            let mut o = out.lock();
            let _ = writeln!(o, "{}", json!({ "begin": id }));
            let _ = o.flush();
        }
        let r = explore_scenario(&w, seed, &t, &dir);
        let mut o = out.lock();
        let _ = writeln!(o, "{r}");
        let _ = o.flush();
    }
    0
}

// =============================================================================================
// parent: fan out, merge, triage, evidence
// =============================================================================================
struct WorkerOutcome {
    results: Vec<Value>,
    /// scenario that was running when the process died, and how it died
    crashed: Option<(u32, String)>,
    unfinished: Vec<u32>,
}

fn run_worker(exe: &Path, t: &Tier, seed: u64, dir: &Path, ids: &[u32]) -> Result<WorkerOutcome, String> {
    std::fs::create_dir_all(dir).map_err(|e| format!("{dir:?}: {e}"))?;
    let errlog = std::fs::OpenOptions::new().create(true).append(true).open(dir.join("stderr.log")).map_err(|e| e.to_string())?;
    let mut child = Command::new(exe)
        .arg("--worker")
        .arg(t.name)
        .arg(seed.to_string())
        .arg(dir)
        .arg(ids.iter().map(|i| i.to_string()).collect::<Vec<_>>().join(","))
        .stdout(Stdio::piped())
        .stderr(Stdio::from(errlog))
        .spawn()
        .map_err(|e| format!("spawn worker: {e}"))?;
    let mut results = vec![];
    let mut begun: Option<u32> = None;
    let mut done: BTreeSet<u32> = BTreeSet::new();
    let mut hung = false;
    for line in std::io::BufReader::new(child.stdout.take().unwrap()).lines() {
        let line = line.map_err(|e| e.to_string())?;
        let v: Value = serde_json::from_str(&line).map_err(|e| format!("worker output does not parse: {e}: {line}"))?;
        if let Some(b) = v.get("begin").and_then(|b| b.as_u64()) {
            begun = Some(b as u32);
        } else if let Some(h) = v.get("hang").and_then(|b| b.as_u64()) {
            // partial result of a scenario whose exploration ended in a hung execution
            done.insert(h as u32);
            begun = None;
            hung = true;
            results.push(json!({
                "scenario": h, "executions": v["executions"], "executions_completed": v["executions"].as_u64().unwrap_or(1) - 1,
                "distinct_schedules": 0, "distinct_nontrivial_schedules": 0, "steps": 0, "budget_skipped": 0, "partial": true,
                "failure_counts": { "C20.ub|hang": 1 }, "failures": [v["failure"].clone()],
            }));
        } else {
            if let Some(s) = v.get("scenario").and_then(|s| s.as_u64()) {
                done.insert(s as u32);
            }
            begun = None;
            results.push(v);
        }
    }
    let st = child.wait().map_err(|e| e.to_string())?;
    let mut crashed = None;
    if hung && st.code() == Some(EXIT_HANG) {
        // reported in full by the worker's watchdog
    } else if !st.success() {
        let how = {
            #[cfg(unix)]
            {
                use std::os::unix::process::ExitStatusExt;
                match st.signal() {
                    Some(s) => format!("signal {s}"),
                    None => format!("exit code {:?}", st.code()),
                }
            }
            #[cfg(not(unix))]
            {
                format!("{st:?}")
            }
        };
        match begun {
            // only death by signal (SIGSEGV, SIGBUS, SIGABRT ...) is evidence about the code
            // under test; a plain non-zero exit is the harness failing
            Some(b) if how.starts_with("signal") => crashed = Some((b, how)),
            Some(b) => return Err(format!("worker failed in scenario {b} ({how}); see {dir:?}/stderr.log")),
            None => return Err(format!("worker failed outside any scenario ({how}); see {dir:?}/stderr.log")),
        }
    }
    let unfinished = ids.iter().copied().filter(|i| !done.contains(i) && crashed.as_ref().map(|c| c.0 != *i).unwrap_or(true)).collect();
    Ok(WorkerOutcome { results, crashed, unfinished })
}

fn slug(s: &str) -> String {
    s.chars().map(|c| if c.is_ascii_alphanumeric() { c } else { '-' }).collect()
}

fn check(t: Tier) -> i32 {
    let t0 = std::time::Instant::now();
    let seed = match seed_from_env() {
        Ok(s) => s,
        Err(e) => {
            println!("HARNESS ERROR: {e}");
            return 2;
        }
    };
    let root = root();
    let known = match known::load(&root) {
        Ok(k) => k,
        Err(e) => {
            println!("HARNESS ERROR: {e}");
            return 2;
        }
    };
    let replays_dir = PathBuf::from(format!("{root}/replays"));
    let work = replays_dir.join(format!(".c20-work-{}", std::process::id()));
    if let Err(e) = std::fs::create_dir_all(&work) {
        println!("HARNESS ERROR: cannot create {work:?}: {e}");
        return 2;
    }
    let exe = match std::env::current_exe() {
        Ok(e) => e,
        Err(e) => {
            println!("HARNESS ERROR: current_exe: {e}");
            return 2;
        }
    };
    let workloads = scenarios_of(seed, &t);
    let by_id: BTreeMap<u32, Workload> = workloads.iter().map(|w| (w.id, w.clone())).collect();
    let nworkers = std::env::var("C20_WORKERS").ok().and_then(|v| v.parse::<usize>().ok()).unwrap_or_else(|| std::thread::available_parallelism().map(|n| n.get()).unwrap_or(4).min(12)).max(1);
    // heavier workloads first within a round-robin deal, so workers end at about the same time
    let mut order: Vec<&Workload> = workloads.iter().collect();
    order.sort_by_key(|w| std::cmp::Reverse((w.total_pushes() as usize + 2) * (w.producers.len() + 2)));
    let mut deals: Vec<Vec<u32>> = vec![vec![]; nworkers];
    for (k, w) in order.iter().enumerate() {
        deals[k % nworkers].push(w.id);
    }
    let tref = &t;
    let outcomes: Vec<Result<(Vec<Value>, Vec<(u32, String)>), String>> = std::thread::scope(|s| {
        let hs: Vec<_> = deals
            .iter()
            .enumerate()
            .map(|(k, ids)| {
                let (exe, work) = (exe.clone(), work.clone());
                s.spawn(move || {
                    let mut todo = ids.clone();
                    let mut results = vec![];
                    let mut crashes = vec![];
                    let mut round = 0;
                    while !todo.is_empty() {
                        let o = run_worker(&exe, tref, seed, &work.join(format!("w{k}-{round}")), &todo)?;
                        results.extend(o.results);
                        if let Some(c) = o.crashed {
                            crashes.push(c);
                        }
                        todo = o.unfinished;
                        round += 1;
                    }
                    Ok((results, crashes))
                })
            })
            .collect();
        hs.into_iter().map(|h| h.join().unwrap_or_else(|_| Err("worker supervisor thread panicked".into()))).collect()
    });

    let mut results: Vec<Value> = vec![];
    let mut crashes: Vec<(u32, String)> = vec![];
    for o in outcomes {
        match o {
            Ok((r, c)) => {
                results.extend(r);
                crashes.extend(c);
            }
            Err(e) => {
                println!("HARNESS ERROR: {e}");
                return 2;
            }
        }
    }
    results.sort_by_key(|r| r["scenario"].as_u64().unwrap_or(0));

    // ---- totals -------------------------------------------------------------------------
    let sum = |k: &str| results.iter().map(|r| r[k].as_u64().unwrap_or(0)).sum::<u64>();
    let mut probes: BTreeMap<String, u64> = BTreeMap::new();
    let mut by_sched: BTreeMap<String, u64> = BTreeMap::new();
    let mut by_family: BTreeMap<String, u64> = BTreeMap::new();
    let mut per_scenario = vec![];
    let mut released_by: BTreeMap<String, u64> = BTreeMap::new();
    let mut teardown: BTreeMap<String, u64> = BTreeMap::new();
    let mut teardown_full_by_capacity: BTreeMap<String, u64> = BTreeMap::new();
    let mut teardown_by_family: BTreeMap<String, BTreeMap<String, u64>> = BTreeMap::new();
    let mut by_consumer: BTreeMap<String, u64> = BTreeMap::new();
    for r in &results {
        for (k, v) in r["payloads_released_by"].as_object().into_iter().flatten() {
            *released_by.entry(k.clone()).or_insert(0) += v.as_u64().unwrap_or(0);
        }
        for (k, v) in r["teardown"].as_object().into_iter().flatten() {
            *teardown.entry(k.clone()).or_insert(0) += v.as_u64().unwrap_or(0);
        }
        for (k, v) in r["teardown_full_by_capacity"].as_object().into_iter().flatten() {
            *teardown_full_by_capacity.entry(k.clone()).or_insert(0) += v.as_u64().unwrap_or(0);
        }
        for (k, v) in r["probes"].as_object().into_iter().flatten() {
            *probes.entry(format!("probe.{k}")).or_insert(0) += v.as_u64().unwrap_or(0);
        }
        for (k, v) in r["by_scheduler"].as_object().into_iter().flatten() {
            *by_sched.entry(k.clone()).or_insert(0) += v.as_u64().unwrap_or(0);
        }
        let id = r["scenario"].as_u64().unwrap_or(0) as u32;
        if let Some(w) = by_id.get(&id) {
            *by_family.entry(w.family.to_string()).or_insert(0) += r["executions"].as_u64().unwrap_or(0);
            *by_consumer.entry(w.consumer.label().to_string()).or_insert(0) += r["executions"].as_u64().unwrap_or(0);
            let f = teardown_by_family.entry(w.family.to_string()).or_default();
            for (k, v) in r["teardown"].as_object().into_iter().flatten() {
                *f.entry(k.clone()).or_insert(0) += v.as_u64().unwrap_or(0);
            }
            per_scenario.push(json!({
                "scenario": id, "family": w.family, "class": w.scenario_class(), "capacity": w.capacity,
                "producers": w.producers.len(), "pushes": w.total_pushes(), "stop": w.has_stop(), "consumer": w.consumer.label(), "teardown": r["teardown"],
                "executions": r["executions"], "distinct_schedules": r["distinct_schedules"],
                "distinct_nontrivial_schedules": r["distinct_nontrivial_schedules"],
                "failure_counts": r["failure_counts"], "budget_skipped": r["budget_skipped"],
            }));
        }
    }

    // ---- failures -> candidate findings ---------------------------------------------------
    struct Cand {
        w: Workload,
        f: Value,
    }
    let mut cands: Vec<Cand> = vec![];
    for r in &results {
        let id = r["scenario"].as_u64().unwrap_or(0) as u32;
        for f in r["failures"].as_array().into_iter().flatten() {
            cands.push(Cand { w: by_id[&id].clone(), f: f.clone() });
        }
    }
    for (id, how) in &crashes {
        cands.push(Cand {
            w: by_id[id].clone(),
            f: json!({ "oracle": "C20.ub", "kind": "process_crash", "detail": format!("the exploring process died ({how}) while running this scenario: memory error in the code under test"),
                        "scheduler": "exploration", "scheduler_seed": 0, "yield_every": 0, "schedule": "", "schedule_steps": 0, "schedule_file": Value::Null, "log": Value::Null, "log_hash": "0" }),
        });
    }
    // ---- second engine ---------------------------------------------------------------------
    let miri_seeds = std::env::var("C20_MIRI_SEEDS").ok().and_then(|v| v.parse::<u64>().ok()).unwrap_or(t.miri_seeds);
    let miri_first = seed % 1_000_000;
    let miri_outcome = if miri_seeds > 0 { Some(miri::run_all(miri_first, miri_seeds)) } else { None };
    let mut miri_runs = 0u64;
    if let Some(m) = &miri_outcome {
        if !m.usable {
            println!("NOTE: the Miri engine is unusable here ({}); the memory-error clause rests on the shuttle oracles alone in this run", m.note);
        }
        for mode in &m.modes {
            miri_runs += mode.seeds.1 - mode.seeds.0;
            // a stand-in workload so that known-findings patterns (scenario_class ...) apply
            let w = Workload {
                id: match mode.mode {
                    "sp" => 1_000_001,
                    "mp" => 1_000_002,
                    _ => 1_000_003,
                },
                family: match mode.mode {
                    "sp" => "miri_sp",
                    "mp" => "miri_mp",
                    _ => "miri_td",
                },
                capacity: 2,
                mode: workload::SourceMode::Cloned,
                producers: if mode.mode == "mp" { vec![vec![workload::Op::Send, workload::Op::TrySend]; 2] } else { vec![vec![workload::Op::Send, workload::Op::TrySend, workload::Op::SendMany(2)]] },
                controller: vec![],
                consumer: if mode.mode == "td" { workload::Consumer::AbandonAfter(0) } else { workload::Consumer::Drain },
            };
            for (mseed, oracle, kind, detail) in &mode.failing {
                cands.push(Cand {
                    w: w.clone(),
                    f: json!({ "oracle": oracle, "kind": kind, "detail": format!("[miri {} seed {mseed}] {detail}", mode.mode), "engine": "miri", "miri_mode": mode.mode, "miri_seed": mseed,
                               "scheduler": "miri", "scheduler_seed": mseed, "yield_every": 0, "schedule": "", "schedule_steps": 0, "schedule_file": Value::Null, "log": Value::Null, "log_hash": "0" }),
                });
            }
        }
    }
    // group by (scenario class, oracle, kind); in each group keep the two smallest cases
    let mut groups: BTreeMap<(String, String, String), Vec<Cand>> = BTreeMap::new();
    for c in cands {
        let key = (c.w.scenario_class().to_string(), c.f["oracle"].as_str().unwrap_or("?").to_string(), c.f["kind"].as_str().unwrap_or("?").to_string());
        groups.entry(key).or_default().push(c);
    }
    let mut lines_known: Vec<String> = vec![];
    let mut lines_viol: Vec<String> = vec![];
    let mut replay_files: Vec<String> = vec![];
    let mut viol_samples: Vec<Value> = vec![];
    let mut known_reported: BTreeSet<String> = BTreeSet::new();
    let mut new_violations = 0i64;
    let mut replay_unconfirmed = 0;
    let failing_scenarios_total: BTreeSet<u32> = groups.values().flatten().map(|c| c.w.id).collect();
    for ((class, oracle, kind), mut cs) in groups {
        cs.sort_by_key(|c| (c.w.producers.len(), c.w.total_pushes(), c.f["schedule_steps"].as_u64().unwrap_or(0), c.w.id));
        let n_scen = cs.iter().map(|c| c.w.id).collect::<BTreeSet<_>>().len();
        let matched = known.iter().find(|k| cs.iter().all(|c| k.matches(&oracle, &kind, &c.w)));
        let keep = if matched.is_some() { 1 } else { 2 };
        let mut paths = vec![];
        for c in cs.iter().take(keep) {
            let is_miri = c.f["engine"] == json!("miri");
            let base = if is_miri {
                format!("{PROP}-{}-{}-{}-miri-{}-{}", slug(oracle.trim_start_matches("C20.")), slug(&kind), seed, c.f["miri_mode"].as_str().unwrap_or("?"), c.f["miri_seed"])
            } else {
                format!("{PROP}-{}-{}-{}-s{}", slug(oracle.trim_start_matches("C20.")), slug(&kind), seed, c.w.id)
            };
            let sched_name = format!("{base}.schedule.txt");
            let json_path = replays_dir.join(format!("{base}.json"));
            let sched_text = c.f["schedule"].as_str().unwrap_or("").to_string();
            let adopted = match c.f["schedule_file"].as_str() {
                Some(f) => std::fs::rename(f, replays_dir.join(&sched_name)).is_ok(),
                None => false,
            };
            if !adopted && !sched_text.is_empty() {
                let _ = std::fs::write(replays_dir.join(&sched_name), &sched_text);
            }
            let desc = json!({
                "property": PROP, "oracle": oracle, "kind": kind, "scenario_class": class, "detail": c.f["detail"],
                "seed": seed, "workload": c.w.to_json(),
                "scheduler": c.f["scheduler"], "scheduler_seed": c.f["scheduler_seed"], "yield_every": c.f["yield_every"],
                "schedule_file": if sched_text.is_empty() { Value::Null } else { json!(sched_name) },
                "schedule_file_written_by": if adopted { "shuttle FailurePersistence::File" } else { "harness recorder (same text format)" },
                "schedule": sched_text, "schedule_steps": c.f["schedule_steps"],
                "log_hash": c.f["log_hash"], "log": c.f["log"], "tier": t.name,
                "engine": if is_miri { "miri" } else { "shuttle" },
                "miri": if is_miri { json!({ "mode": c.f["miri_mode"], "seed": c.f["miri_seed"], "flags": miri::flags_for_seed(c.f["miri_seed"].as_u64().unwrap_or(0)),
                                              "by_hand": format!("cd c20/miri && RUSTFLAGS='--cfg c20_miri' MIRIFLAGS='{}' cargo +nightly miri run --offline -- {}", miri::flags_for_seed(c.f["miri_seed"].as_u64().unwrap_or(0)), c.f["miri_mode"].as_str().unwrap_or("sp")) }) } else { Value::Null },
                "how_to_replay": "c20/check.sh --replay <this file>",
            });
            if let Err(e) = std::fs::write(&json_path, serde_json::to_string_pretty(&desc).unwrap()) {
                println!("HARNESS ERROR: cannot write {json_path:?}: {e}");
                return 2;
            }
            let p = json_path.to_string_lossy().into_owned();
            // the replay must reproduce in a fresh process before it is reported
            let confirmed = Command::new(&exe).arg("--replay").arg(&p).stdout(Stdio::piped()).stderr(Stdio::null()).output().map(|o| { let t = String::from_utf8_lossy(&o.stdout).into_owned(); t.contains("REPRODUCED oracle=") || t.contains("REPRODUCED-AS-CRASH") || (kind == "process_crash" && t.contains("REPRODUCED-WITH-DIFFERENT-TRACE")) }).unwrap_or(false);
            if !confirmed {
                replay_unconfirmed += 1;
            }
            viol_samples.push(json!({ "replay": p, "oracle": oracle, "kind": kind, "scenario_class": class, "workload": c.w.to_json(), "detail": c.f["detail"], "replay_confirmed_in_fresh_process": confirmed, "failing_scenarios_in_group": n_scen }));
            paths.push((p, confirmed));
        }
        match matched {
            Some(k) => {
                if known_reported.insert(k.id.clone()) {
                    lines_known.push(format!("KNOWN-FINDING: property={PROP} {} [{}; oracle {oracle}, {kind}, class {class}; {} scenario(s); replay {}]", k.what, k.id, n_scen, paths.first().map(|p| p.0.as_str()).unwrap_or("-")));
                } else {
                    lines_known.push(format!("  (also under {}: oracle {oracle}, {kind}, class {class}; {} scenario(s); replay {})", k.id, n_scen, paths.first().map(|p| p.0.as_str()).unwrap_or("-")));
                }
            }
            None => {
                new_violations += 1;
                for (p, confirmed) in &paths {
                    println!("violation: oracle={oracle} kind={kind} class={class} scenarios={n_scen} replay_confirmed={confirmed} detail={}", cs[0].f["detail"].as_str().unwrap_or(""));
                    lines_viol.push(format!("VIOLATION property={PROP} replay={p}"));
                }
            }
        }
        replay_files.extend(paths.into_iter().map(|p| p.0));
    }
    let _ = std::fs::remove_dir_all(&work);
    for k in &known {
        if !known_reported.contains(&k.id) {
            lines_known.push(format!("note: known finding {} is listed as open but nothing in this run matched it (fixed in the tree? then mark it `fixed: ...` in known_findings.json)", k.id));
        }
    }

    // ---- report ---------------------------------------------------------------------------
    let evaluations = sum("executions");
    let distinct = sum("distinct_schedules");
    let distinct_nt = sum("distinct_nontrivial_schedules");
    let wall = t0.elapsed().as_secs_f64();
    for l in &lines_viol {
        println!("{l}");
    }
    for l in &lines_known {
        println!("{l}");
    }
    let mut exit = if new_violations > 0 { 1 } else { 0 };
    if replay_unconfirmed > 0 {
        println!("HARNESS ERROR: {replay_unconfirmed} replay file(s) did not reproduce in a fresh process");
        exit = 2;
    }
    let tb = workload::TEARDOWN_BASE;
    let mut samples: Vec<Value> = workloads.iter().filter(|w| [1u32, 3, 5, 9, 13, tb, tb + 3, tb + 6, tb + 7, tb + 9, tb + 12].contains(&w.id)).map(|w| w.to_json()).collect();
    let selftest = payload::selftest();
    samples.extend(viol_samples);
    let ev = json!({
        "property_id": PROP,
        "tier": t.name,
        "seed": seed,
        "level": "exploration",
        "coverage": {
            "evaluations": evaluations,
            "distinct_nontrivial": distinct_nt,
            "rule": "one evaluation = one shuttle execution (one complete thread interleaving, decided at every atomic / lock operation of spsc.rs and track.rs, before and after it) of one workload. A workload = (queue capacity 1..64, shared-Arc or cloned source handles, 1..4 producer threads each with a list of send / try_send / send_many(0..3) / stop / clone+drop operations followed by dropping its handle, optional bystander thread calling stop(), one consumer thread with a behaviour: `drain` = loop on track.recv() under shuttle::future::block_on until EndOfStream (the creating thread keeps its track handle until the run is judged); `abandon_after(k)` = receive at most k samples (k = 0: never call recv), drop the track handle, return; `stop_then_abandon(k)` = the same with stop() before the handle goes; `stall_then_drain(k)` = receive k, yield to the scheduler until every producer thread has dropped its source handle, then drain to EndOfStream. In the last three the creating thread drops its source AND its track handle right after spawning, so the LAST handle of the ring (a source or the track, whichever the schedule makes last) is dropped with whatever is still queued and SpscRing::drop has to release it. A workload is a pure function of (VERIF_SEED, scenario id). Ids 0.. select one of 16 drain families by id % 16 (they guarantee capacity 1 and 2, producers pushing 0 / 1 / several samples, stop and 1..4 producers in every batch); ids 100000.. select one of 16 teardown families by (id - 100000) % 16: td_abandon_cap1_full / _cap2_full / _cap4_full (one producer sends at least `capacity` samples, k = 0: ring exactly full at teardown, kept full by drop-oldest), td_abandon_try_send_full (try_send only, capacity 1/2/4 in turn: ring left full, further pushes refused), td_abandon_partly_filled (fewer pushes than slots), td_abandon_empty (nothing pushed), td_abandon_after_k (k = 1..2 while the producer overflows: any fill level, head and tail anywhere), td_abandon_2p_full and td_abandon_3p_mixed (several producers), td_stop_then_abandon and td_abandon_stop_elsewhere (stop() by the consumer / a producer / a bystander before the handles go), td_stall_cap1_overflow, td_stall_cap2_or_4, td_stall_2p, td_stall_with_stop, td_random; families that do not fix the capacity take 1, 2, 4 in turn with the id, so every batch tears down capacity 1, 2 and 4 rings exactly full, partly filled and empty with one and with several producers (counted: coverage.teardown*, probe.teardown_*). Ids that expand to an already-seen workload are left out. Every sample's payload is a bytes::Bytes made with Bytes::from_owner over an owner whose Drop counts the release of payload (producer, index) and the path that released it; nothing in the harness keeps a clone. Oracles on every execution: identity / once / order / eos / balance over what was received (an abandoning consumer owes no EndOfStream), and C20.release once every thread has ended and every handle is gone: each payload created was released exactly once (`leaked` = never, `released_twice` = more than once, `released_while_queued` = recv() delivered a sample whose payload had been released before). Schedules come from shuttle's RandomScheduler and PctScheduler (depth 2..5), seeded from (VERIF_SEED, scenario id, chunk). distinct = the sequence of task ids the scheduler chose (hashed, per scenario) was not seen before in that scenario; non-trivial = the execution ran to its end and the consumer received a sample while a producer handle was still alive, or parked before the close, or drained a sample after the close, or a push met a full ring (drop / WouldBlock), or stop() fell inside a send, or the last handle was dropped with at least one sample still queued. Executions ending in a violation are counted in evaluations and distinct_schedules but never in distinct_nontrivial.",
            "samples": samples,
            "distinct_schedules": distinct,
            "scenarios": results.len(),
            "scenarios_by_class": per_scenario.iter().fold(BTreeMap::<String, u64>::new(), |mut m, s| { *m.entry(s["class"].as_str().unwrap_or("?").to_string()).or_insert(0) += 1; m }),
            "scenarios_with_a_violation": failing_scenarios_total.len(),
            "executions_completed": sum("executions_completed"),
            "executions_nontrivial": sum("executions_nontrivial"),
            "scheduling_decisions": sum("steps"),
            "executions_by_scheduler": by_sched,
            "executions_by_family": by_family,
            "executions_by_consumer_behaviour": by_consumer,
            "teardown": { "what": "executions by what the ring held when its last handle (source or track) was dropped; full = exactly `capacity` samples queued", "total": teardown, "full_by_capacity": teardown_full_by_capacity, "by_family": teardown_by_family },
            "payloads": { "created": sum("payloads_created"), "released_by_path": released_by, "what": "payloads (Bytes::from_owner) created by the producers and the path that released each: the consumer after recv(), the producer's own try_send that refused it, the queue on overflow (dropped its oldest / discarded the new sample because the consumer held the pop lock), SpscRing::drop at teardown; C20.release demands exactly one release per payload" },
            "release_selftest": { "quarantine_of_released_payload_blocks": selftest.quarantine, "single_release_counted_once": selftest.single_release_counted_once, "double_release_detected": selftest.double_release_detected, "how": selftest.how },
            "budget_skipped_after_repeated_failures": sum("budget_skipped"),
            "samples_accepted": sum("samples_accepted"),
            "samples_received": sum("samples_received"),
            "samples_lost_to_overflow": sum("samples_lost_to_overflow"),
            "probes": probes,
            "per_scenario": if per_scenario.len() <= 300 { json!(per_scenario) } else { json!(format!("{} scenarios; listed per scenario only when there are at most 300 (see executions_by_family)", per_scenario.len())) },
            "known_findings_reported": lines_known,
            "replays": replay_files,
            "worker_processes": nworkers,
            "worker_crashes": crashes.iter().map(|c| json!({"scenario": c.0, "how": c.1})).collect::<Vec<_>>(),
            "executions_per_second": if wall > 0.0 { (evaluations as f64 / wall) as u64 } else { 0 },
            "engines": { "shuttle": "0.9.3 (RandomScheduler, PctScheduler; replay by ReplayScheduler)", "miri": match &miri_outcome { Some(m) => m.to_json(), None => json!("not run (C20_MIRI_SEEDS=0)") } },
            "miri_runs": miri_runs,
        },
        "assumptions": [
            "interleavings are explored at the granularity of the wrapped operations (every atomic load/store/RMW and every pop-lock acquisition in spsc.rs and track.rs, before and after); the code between two such points runs atomically, which is exact for sequentially consistent executions — weak-memory reorderings are outside shuttle and are left to the Miri engine",
            "tokio::sync::Notify and the std atomic `active_senders` are not wrapped: each of their calls is one atomic step here",
            "the hook Mutex::lock spins on try_lock with a scheduling point per turn; under PCT every 8th scheduling point is a yield so a spinning high-priority thread cannot starve the lock holder",
            "payload bytes are static; what lives on the heap is the reference-count block bytes allocates for the owner (Bytes::from_owner). The process allocator parks the block of a released payload until the execution has been judged, so a slot read twice (a second drop of a stale copy) is observed - bytes' debug assertion or a non-zero count word in the parked block = C20.release released_twice - instead of corrupting the exploring process; the consumer never drops a sample it recognises as a duplicate, as corrupt or as already released (it forgets it and the oracles report it). This rests on the private layout of bytes 1.12 `Owned<T>`; coverage.release_selftest says whether it held on this build. A workload that still crashes the exploring process is reported as C20.ub",
            "a payload is attributed to the teardown when it is released while some thread is inside the drop of a source or track handle; the fill level at teardown is the number of payloads created and not yet released when the last handle begins to drop (every other thread has ended its pushes and receives by then)",
            "a clean batch is evidence over the sampled schedules and workloads, not a proof",
        ],
        "wall_s": wall,
        "violations": new_violations,
    });
    let evdir = format!("{root}/evidence");
    let _ = std::fs::create_dir_all(&evdir);
    let evpath = format!("{evdir}/{PROP}.json");
    if let Err(e) = std::fs::write(&evpath, serde_json::to_string_pretty(&ev).unwrap()) {
        println!("HARNESS ERROR: cannot write {evpath}: {e}");
        return 2;
    }
    println!(
        "{PROP}: {} scenarios, {evaluations} schedules ({distinct} distinct, {distinct_nt} distinct non-trivial), {} scenario(s) with a violation, {:.1} s wall, {new_violations} new violation group(s), exit {exit}",
        results.len(),
        failing_scenarios_total.len(),
        wall
    );
    exit
}

// =============================================================================================
// replay
// =============================================================================================
/// The schedule is re-run in a child process: with corrupted ring indices the code under test
/// can read slots that were never written, and what that does depends on what the allocator
/// hands out — in the exploring process (recycled, well-formed memory) it shows as a duplicate,
/// a stale sample or an endless destructor, in a fresh process it can kill the process.
fn replay_outer(path: &str, log: bool) -> i32 {
    let exe = match std::env::current_exe() {
        Ok(e) => e,
        Err(e) => {
            eprintln!("current_exe: {e}");
            return 2;
        }
    };
    let mut c = Command::new(exe);
    c.arg("--replay-inner").arg(path);
    if log {
        c.arg("--log");
    }
    let st = match c.status() {
        Ok(s) => s,
        Err(e) => {
            eprintln!("cannot start the replay process: {e}");
            return 2;
        }
    };
    #[cfg(unix)]
    {
        use std::os::unix::process::ExitStatusExt;
        if let Some(sig) = st.signal() {
            let recorded = std::fs::read_to_string(path).ok().and_then(|t| serde_json::from_str::<Value>(&t).ok()).map(|d| format!("{} {}", d["oracle"].as_str().unwrap_or("?"), d["kind"].as_str().unwrap_or("?"))).unwrap_or_default();
            println!("REPRODUCED-AS-CRASH oracle=C20.ub kind=process_crash detail=replaying the recorded schedule kills the process with signal {sig}: memory error in the code under test (the exploring process saw: {recorded})");
            println!("VIOLATION property={PROP} replay={path}");
            return 1;
        }
    }
    st.code().unwrap_or(2)
}

fn replay(path: &str) -> i32 {
    let txt = match std::fs::read_to_string(path) {
        Ok(t) => t,
        Err(e) => {
            eprintln!("cannot read {path}: {e}");
            return 2;
        }
    };
    let d: Value = match serde_json::from_str(&txt) {
        Ok(v) => v,
        Err(e) => {
            eprintln!("cannot parse {path}: {e}");
            return 2;
        }
    };
    let Some(w) = Workload::from_json(&d["workload"]) else {
        eprintln!("{path}: no usable workload");
        return 2;
    };
    let want_oracle = d["oracle"].as_str().unwrap_or("").to_string();
    let want_kind = d["kind"].as_str().unwrap_or("").to_string();
    if want_kind == "process_crash" {
        return replay_crash(&d, &w);
    }
    if d["engine"] == json!("miri") {
        let (mode, mseed) = (d["miri"]["mode"].as_str().unwrap_or("sp").to_string(), d["miri"]["seed"].as_u64().unwrap_or(0));
        return match miri::replay(&mode, mseed) {
            Err(e) => {
                eprintln!("{e}");
                2
            }
            Ok(None) => {
                println!("NOT REPRODUCED: miri mode {mode} seed {mseed} ran clean (recorded: {want_oracle} {want_kind})");
                0
            }
            Ok(Some((o, k, detail))) => {
                if o == want_oracle && k == want_kind {
                    println!("REPRODUCED oracle={o} kind={k} detail={detail}");
                } else {
                    println!("DIFFERENT FAILURE: oracle={o} kind={k} detail={detail} (recorded: {want_oracle} {want_kind})");
                }
                println!("VIOLATION property={PROP} replay={path}");
                1
            }
        };
    }
    let dir = Path::new(path).parent().map(|p| p.to_path_buf()).unwrap_or_default();
    let sched_text = d["schedule_file"].as_str().and_then(|f| std::fs::read_to_string(dir.join(f)).ok()).or_else(|| d["schedule"].as_str().map(|s| s.to_string())).unwrap_or_default();
    if sched_text.trim().is_empty() {
        eprintln!("{path}: no schedule");
        return 2;
    }
    install_process_hooks();
    exec::set_yield_every(d["yield_every"].as_u64().unwrap_or(0) as u32);
    {
        let (path, want_oracle, want_kind) = (path.to_string(), want_oracle.clone(), want_kind.clone());
        spawn_watchdog(move |_, f| {
            if want_kind == "hang" {
                println!("REPRODUCED oracle=C20.ub kind=hang detail={}", f["detail"].as_str().unwrap_or(""));
            } else {
                println!("DIFFERENT FAILURE: oracle=C20.ub kind=hang (recorded: {want_oracle} {want_kind})");
            }
            println!("VIOLATION property={PROP} replay={path}");
            std::process::exit(1);
        });
    }
    set_hang_ctx(HangCtx { active: true, scenario: w.id, ..Default::default() });
    let wl = Arc::new(w);
    let res = catch_unwind(AssertUnwindSafe(|| {
        let s = Recording(ReplayScheduler::new_from_encoded(sched_text.trim()));
        Runner::new(s, shuttle_config(None)).run(move || exec::body(&wl))
    }));
    set_hang_ctx(HangCtx::default());
    exec::leave_exec();
    let log = exec::current_log_summary();
    let hash = log.as_ref().map(|l| format!("{:016x}", l.1)).unwrap_or_default();
    println!("replay {path}: log_hash={hash} (recorded {})", d["log_hash"].as_str().unwrap_or("?"));
    if std::env::args().any(|a| a == "--log") {
        if let Some((l, _)) = &log {
            println!("{}", serde_json::to_string_pretty(l).unwrap());
        }
    }
    match res {
        Ok(_) => {
            println!("NOT REPRODUCED: the recorded schedule ran to its end and every C20 oracle held (recorded: {want_oracle} {want_kind})");
            0
        }
        Err(p) => {
            let msg = panic_text(&*p);
            let (o, k, detail) = classify(&msg, &log);
            if o == want_oracle && k == want_kind && Some(hash.as_str()) == d["log_hash"].as_str() {
                println!("REPRODUCED oracle={o} kind={k} detail={detail}");
            } else if o == want_oracle {
                println!("REPRODUCED-WITH-DIFFERENT-TRACE oracle={o} kind={k} detail={detail}");
            } else {
                println!("DIFFERENT FAILURE: oracle={o} kind={k} detail={detail} (recorded: {want_oracle} {want_kind}); raw: {}", msg.lines().next().unwrap_or(""));
            }
            println!("VIOLATION property={PROP} replay={path}");
            1
        }
    }
}

/// a crash has no schedule to replay: re-explore the scenario in a child process with the same
/// seeds (deterministic) and see whether the process dies again
fn replay_crash(d: &Value, w: &Workload) -> i32 {
    let seed = d["seed"].as_u64().unwrap_or(DEFAULT_SEED);
    let Some(t) = tier(d["tier"].as_str().unwrap_or("quick")) else { return 2 };
    let same = |a: &Workload, b: &Workload| a.capacity == b.capacity && a.mode == b.mode && a.producers == b.producers && a.controller == b.controller;
    if !same(&generate(seed, w.id), w) {
        eprintln!("workload generator changed since this file was written; cannot re-create scenario {}", w.id);
        return 2;
    }
    let dir = std::env::temp_dir().join(format!("c20-crash-replay-{}", std::process::id()));
    let exe = std::env::current_exe().unwrap();
    let r = run_worker(&exe, &t, seed, &dir, &[w.id]);
    let _ = std::fs::remove_dir_all(&dir);
    match r {
        Ok(o) if o.crashed.is_some() => {
            println!("REPRODUCED oracle=C20.ub kind=process_crash detail=exploring process died again ({})", o.crashed.unwrap().1);
            println!("VIOLATION property={PROP} replay=(crash of scenario {})", w.id);
            1
        }
        Ok(o) if o.results.iter().any(|r| r["failures"].as_array().map(|a| !a.is_empty()).unwrap_or(false)) => {
            // what a read of a never-written slot does depends on the allocator; the same
            // exploration still violates C20, only not by killing the process this time
            let kinds: BTreeSet<String> = o.results.iter().flat_map(|r| r["failure_counts"].as_object().into_iter().flatten().map(|(k, _)| k.clone())).collect();
            println!("REPRODUCED-WITH-DIFFERENT-TRACE oracle=C20.ub kind=process_crash detail=no crash this time, the same exploration fails with {kinds:?}");
            println!("VIOLATION property={PROP} replay=(scenario {})", w.id);
            1
        }
        Ok(_) => {
            println!("NOT REPRODUCED: scenario {} explored without a crash", w.id);
            0
        }
        Err(e) => {
            eprintln!("{e}");
            2
        }
    }
}
