//! One shuttle execution of a workload against the real SampleStreamSource / SampleStreamTrack,
//! the per-execution log, and the C20 oracles evaluated on that log.
use crate::workload::{Op, SourceMode, Workload};
use bytes::Bytes;
use rustrtc::media::frame::{AudioFrame, MediaKind, MediaSample};
use rustrtc::media::track::{sample_track, MediaStreamTrack, SampleStreamSource, SampleStreamTrack};
use rustrtc::media::MediaError;
use std::cell::{Cell, RefCell};
use std::collections::BTreeMap;
use std::future::Future;
use std::pin::Pin;
use std::sync::{Arc, Mutex};
use std::task::{Context, Poll};

// ---------------------------------------------------------------------------------------------
// scheduling point handed to rustrtc::verif_hooks::sync
// ---------------------------------------------------------------------------------------------
thread_local! {
    /// true while a shuttle execution body is running on this OS thread
    static IN_EXEC: Cell<bool> = const { Cell::new(false) };
    /// every YIELD_EVERY-th scheduling point is a yield (0 = never). PCT needs this: the hook
    /// mutex spins on try_lock, and a highest-priority spinner would otherwise never let the
    /// lock holder run.
    static YIELD_EVERY: Cell<u32> = const { Cell::new(0) };
    static SP_COUNT: Cell<u32> = const { Cell::new(0) };
    pub static STATS: RefCell<Stats> = RefCell::new(Stats::default());
    /// set by the body at the end of an execution that completed; read by the schedule recorder
    pub static LAST_NONTRIVIAL: Cell<bool> = const { Cell::new(false) };
}

/// log of the execution in progress (global so the watchdog thread can read it)
static CUR: Mutex<Option<Arc<Mutex<Log>>>> = Mutex::new(None);

pub fn sched_point() {
    if !IN_EXEC.with(|c| c.get()) || std::thread::panicking() {
        return;
    }
    let n = SP_COUNT.with(|c| {
        let v = c.get().wrapping_add(1);
        c.set(v);
        v
    });
    let every = YIELD_EVERY.with(|c| c.get());
    if every != 0 && n % every == 0 {
        shuttle::thread::yield_now();
    } else {
        // shuttle's sleep is a plain context-switch point (no priority change under PCT)
        shuttle::thread::sleep(std::time::Duration::ZERO);
    }
}

pub fn leave_exec() {
    IN_EXEC.with(|c| c.set(false));
}

pub fn set_yield_every(n: u32) {
    YIELD_EVERY.with(|c| c.set(n));
}

// ---------------------------------------------------------------------------------------------
// samples
// ---------------------------------------------------------------------------------------------
static PAYLOADS: [&[u8]; 5] = [b"a", b"payload-bb", b"\x00\x01\x02\x03\x04\x05\x06\x07", b"", b"zzzzzzzzzzzzzzzzzzzzzzzzzzzzzzzz"];

pub fn make_sample(p: u32, i: u32) -> MediaSample {
    MediaSample::Audio(AudioFrame {
        rtp_timestamp: (p << 16) | i,
        clock_rate: 8000 + (p * 97 + i * 13) % 1000,
        data: Bytes::from_static(PAYLOADS[((p * 7 + i) % PAYLOADS.len() as u32) as usize]),
        sequence_number: Some(i as u16),
        payload_type: Some(96 + p as u8),
        marker: i % 2 == 1,
        header_extension: None,
        source_addr: None,
        raw_packet: None,
    })
}

/// bit-for-bit comparison of every field against what producer p pushed as its i-th sample
fn same_as_pushed(f: &AudioFrame, p: u32, i: u32) -> bool {
    let MediaSample::Audio(e) = make_sample(p, i) else { unreachable!() };
    f.rtp_timestamp == e.rtp_timestamp
        && f.clock_rate == e.clock_rate
        && f.data == e.data
        && f.sequence_number == e.sequence_number
        && f.payload_type == e.payload_type
        && f.marker == e.marker
        && f.header_extension.is_none()
        && f.source_addr.is_none()
        && f.raw_packet.is_none()
}

// ---------------------------------------------------------------------------------------------
// per-execution log
// ---------------------------------------------------------------------------------------------
#[derive(Clone, Debug, PartialEq, Eq)]
pub enum ConsumerEnd {
    Running,
    Eos,
    CapExceeded,
    OtherError(String),
}

#[derive(Debug)]
pub struct Log {
    pub np: usize,
    /// samples handed to a push call, per producer (index = next sample number)
    pub started: Vec<u32>,
    /// sample numbers the API accepted (send/send_many Ok, try_send Ok), per producer
    pub accepted: Vec<Vec<u32>>,
    pub would_block: u32,
    pub push_errors: Vec<String>,
    /// upper bound on the samples the drop-oldest policy may legitimately have discarded:
    /// min(number of send/send_many samples, sum over all pushes of max(0, occ - cap + 1)) where
    /// occ = pushes begun before this one minus receives recorded so far (an over-estimate of
    /// the ring occupancy the push can meet). A loss needs a full ring, i.e. cap+1 begun and
    /// undelivered pushes; charging each loss to the latest-begun of them, a push with
    /// occupancy bound occ can be charged at most occ - cap + 1 times.
    pub overflow_allowance_by_occupancy: u32,
    pub send_pushes: u32,
    pub started_total: u32,
    /// what recv() returned, in order: (rtp_timestamp, identical to the pushed sample?)
    pub received: Vec<(u32, bool)>,
    pub end: ConsumerEnd,
    pub in_send: Vec<bool>,
    pub handles_alive: usize,
    pub closed: bool,
    pub stop_called: bool,
    pub drop_count_at_end: u64,
    // probes
    pub parked: u32,
    pub parked_before_close: u32,
    pub received_after_close: u32,
    pub received_while_producer_alive: u32,
    pub stop_during_send: u32,
    pub last_drop_with_unreceived: u32,
    pub trace: Vec<String>,
}

impl Log {
    fn new(w: &Workload, handles: usize) -> Log {
        Log {
            np: w.producers.len(),
            started: vec![0; w.producers.len()],
            accepted: vec![vec![]; w.producers.len()],
            would_block: 0,
            push_errors: vec![],
            overflow_allowance_by_occupancy: 0,
            send_pushes: 0,
            started_total: 0,
            received: vec![],
            end: ConsumerEnd::Running,
            in_send: vec![false; w.producers.len()],
            handles_alive: handles,
            closed: false,
            stop_called: false,
            drop_count_at_end: 0,
            parked: 0,
            parked_before_close: 0,
            received_after_close: 0,
            received_while_producer_alive: 0,
            stop_during_send: 0,
            last_drop_with_unreceived: 0,
            trace: vec![],
        }
    }
    pub fn overflow_allowance(&self) -> u32 {
        self.overflow_allowance_by_occupancy.min(self.send_pushes)
    }
    fn accepted_total(&self) -> usize {
        self.accepted.iter().map(|a| a.len()).sum()
    }
    pub fn summary(&self) -> serde_json::Value {
        serde_json::json!({
            "accepted": self.accepted,
            "would_block": self.would_block,
            "received": self.received.iter().map(|(ts, ok)| format!("p{}#{}{}", ts >> 16, ts & 0xffff, if *ok { "" } else { "!corrupt" })).collect::<Vec<_>>(),
            "consumer_end": format!("{:?}", self.end),
            "all_sources_dropped": self.closed,
            "handles_alive": self.handles_alive,
            "stop_called": self.stop_called,
            "overflow_allowance": self.overflow_allowance(),
            "parked": self.parked,
            "parked_before_close": self.parked_before_close,
            "trace": self.trace,
        })
    }
    /// hash of everything observable about the run (exactness check for replays)
    pub fn hash(&self) -> u64 {
        use std::hash::{Hash, Hasher};
        let mut h = std::collections::hash_map::DefaultHasher::new();
        self.accepted.hash(&mut h);
        self.received.hash(&mut h);
        format!("{:?}", self.end).hash(&mut h);
        self.trace.hash(&mut h);
        self.parked.hash(&mut h);
        h.finish()
    }
}

#[derive(Default, Debug, Clone)]
pub struct Stats {
    pub executions_completed: u64,
    pub nontrivial: u64,
    pub samples_accepted: u64,
    pub samples_received: u64,
    pub samples_lost_to_overflow: u64,
    pub probes: BTreeMap<&'static str, u64>,
}
impl Stats {
    fn hit(&mut self, k: &'static str, n: u32) {
        if n > 0 {
            *self.probes.entry(k).or_insert(0) += 1;
        }
    }
}

type SharedLog = Arc<Mutex<Log>>;
fn with<R>(l: &SharedLog, f: impl FnOnce(&mut Log) -> R) -> R {
    // never contended: shuttle runs one thread at a time and no scheduling point is taken
    // while the guard is held
    f(&mut l.lock().unwrap())
}

pub fn current_log_summary() -> Option<(serde_json::Value, u64)> {
    let cur = CUR.lock().ok()?.clone();
    cur.map(|l| match l.try_lock() {
        Ok(l) => (l.summary(), l.hash()),
        Err(_) => (serde_json::json!("log busy"), 0),
    })
}

pub struct Violation {
    pub oracle: &'static str,
    pub kind: &'static str,
    pub detail: String,
}
pub const ORACLE_TAG: &str = "C20-ORACLE|";

// ---------------------------------------------------------------------------------------------
// threads
// ---------------------------------------------------------------------------------------------
enum Handle {
    Shared(Arc<SampleStreamSource>),
    Owned(SampleStreamSource),
}
impl Handle {
    fn src(&self) -> &SampleStreamSource {
        match self {
            Handle::Shared(a) => a,
            Handle::Owned(s) => s,
        }
    }
}

fn note_push_start(log: &SharedLog, p: usize, n: u32, cap: usize, drop_oldest: bool) -> u32 {
    with(log, |l| {
        let first = l.started[p];
        l.started[p] += n;
        for k in 0..n {
            // upper bound of the ring occupancy this push can meet
            let occ = (l.started_total + k) as usize - l.received.len().min((l.started_total + k) as usize);
            if occ >= cap {
                l.overflow_allowance_by_occupancy += (occ - cap + 1) as u32;
            }
        }
        if drop_oldest {
            l.send_pushes += n;
        }
        l.started_total += n;
        l.in_send[p] = true;
        first
    })
}

fn producer(p: usize, ops: Vec<Op>, h: Handle, track: Arc<SampleStreamTrack>, log: SharedLog, cap: usize) {
    for op in ops {
        match op {
            Op::Send | Op::TrySend => {
                let drop_oldest = op == Op::Send;
                let i = note_push_start(&log, p, 1, cap, drop_oldest);
                let s = make_sample(p as u32, i);
                let r = if drop_oldest { h.src().send(s) } else { h.src().try_send(s) };
                with(&log, |l| {
                    l.in_send[p] = false;
                    match r {
                        Ok(()) => l.accepted[p].push(i),
                        Err(MediaError::WouldBlock) if !drop_oldest => l.would_block += 1,
                        Err(e) => l.push_errors.push(format!("p{p}#{i} {:?}: {e:?}", op)),
                    }
                });
            }
            Op::SendMany(n) => {
                let first = note_push_start(&log, p, n as u32, cap, true);
                let r = h.src().send_many((0..n as u32).map(|k| make_sample(p as u32, first + k)));
                with(&log, |l| {
                    l.in_send[p] = false;
                    match r {
                        Ok(()) => l.accepted[p].extend(first..first + n as u32),
                        Err(e) => l.push_errors.push(format!("p{p}#{first}.. send_many({n}): {e:?}")),
                    }
                });
            }
            Op::Stop => do_stop(&track, &log, &format!("p{p}")),
            Op::CloneDrop => drop(h.src().clone()),
        }
    }
    let last = with(&log, |l| {
        let last = l.handles_alive == 1;
        if last && l.accepted_total() > l.received.len() {
            l.last_drop_with_unreceived += 1;
        }
        last
    });
    drop(h);
    with(&log, |l| {
        l.handles_alive -= 1;
        if last {
            l.closed = true;
            l.trace.push(format!("closed by p{p}"));
        }
    });
}

fn do_stop(track: &SampleStreamTrack, log: &SharedLog, who: &str) {
    with(log, |l| {
        if l.in_send.iter().any(|b| *b) {
            l.stop_during_send += 1;
        }
        l.stop_called = true;
        l.trace.push(format!("stop by {who}"));
    });
    track.stop();
}

/// Wraps `track.recv()` to see whether the consumer had to park.
struct Watch<'a> {
    inner: Pin<Box<dyn Future<Output = Result<MediaSample, MediaError>> + Send + 'a>>,
    log: &'a SharedLog,
}
impl Future for Watch<'_> {
    type Output = Result<MediaSample, MediaError>;
    fn poll(mut self: Pin<&mut Self>, cx: &mut Context<'_>) -> Poll<Self::Output> {
        let r = self.inner.as_mut().poll(cx);
        if r.is_pending() {
            with(self.log, |l| {
                l.parked += 1;
                if !l.closed && !l.stop_called {
                    l.parked_before_close += 1;
                }
            });
        }
        r
    }
}

fn consumer(track: Arc<SampleStreamTrack>, log: SharedLog, cap: usize, pushes: Vec<u32>) {
    loop {
        if with(&log, |l| l.received.len()) >= cap {
            with(&log, |l| l.end = ConsumerEnd::CapExceeded);
            return;
        }
        let r = shuttle::future::block_on(Watch { inner: track.recv(), log: &log });
        match r {
            Ok(MediaSample::Audio(f)) => {
                let (p, i) = (f.rtp_timestamp >> 16, f.rtp_timestamp & 0xffff);
                let ok = (p as usize) < pushes.len() && i < pushes[p as usize] && same_as_pushed(&f, p, i);
                with(&log, |l| {
                    l.received.push((f.rtp_timestamp, ok));
                    if l.closed {
                        l.received_after_close += 1;
                    } else {
                        l.received_while_producer_alive += 1;
                    }
                });
            }
            Ok(MediaSample::Video(_)) => {
                with(&log, |l| l.received.push((u32::MAX, false)));
            }
            Err(MediaError::EndOfStream) => {
                // drop_count() goes through a wrapped atomic (a scheduling point): never call it
                // with the log guard held
                let dc = track.drop_count();
                with(&log, |l| {
                    l.end = ConsumerEnd::Eos;
                    l.drop_count_at_end = dc;
                });
                return;
            }
            Err(e) => {
                with(&log, |l| l.end = ConsumerEnd::OtherError(format!("{e:?}")));
                return;
            }
        }
    }
}

// ---------------------------------------------------------------------------------------------
// the shuttle test body
// ---------------------------------------------------------------------------------------------
pub fn body(w: &Workload) {
    IN_EXEC.with(|c| c.set(true));
    SP_COUNT.with(|c| c.set(0));
    LAST_NONTRIVIAL.with(|c| c.set(false));
    let np = w.producers.len();
    let handles = np + 1;
    let log: SharedLog = Arc::new(Mutex::new(Log::new(w, handles)));
    *CUR.lock().unwrap() = Some(log.clone());
    crate::sched::PROGRESS.fetch_add(1, std::sync::atomic::Ordering::Relaxed);

    let (src, track, _feedback_rx) = sample_track(MediaKind::Audio, w.capacity);
    let pushes: Vec<u32> = w.producers.iter().map(|ops| ops.iter().map(|o| o.pushes()).sum()).collect();
    let mut joins = Vec::new();
    let original: Handle = match w.mode {
        SourceMode::SharedArc => Handle::Shared(Arc::new(src)),
        SourceMode::Cloned => Handle::Owned(src),
    };
    for (p, ops) in w.producers.iter().enumerate() {
        let h = match &original {
            Handle::Shared(a) => Handle::Shared(a.clone()),
            Handle::Owned(s) => Handle::Owned(s.clone()),
        };
        let (ops, track, log, cap) = (ops.clone(), track.clone(), log.clone(), w.capacity);
        joins.push(shuttle::thread::spawn(move || producer(p, ops, h, track, log, cap)));
    }
    if !w.controller.is_empty() {
        let (ops, track, log) = (w.controller.clone(), track.clone(), log.clone());
        joins.push(shuttle::thread::spawn(move || {
            for op in ops {
                if op == Op::Stop {
                    do_stop(&track, &log, "bystander");
                }
            }
        }));
    }
    let cons = {
        let (track, log, cap) = (track.clone(), log.clone(), w.recv_cap());
        shuttle::thread::spawn(move || consumer(track, log, cap, pushes))
    };
    // the creating thread lets go of its own handle at a point the scheduler chooses
    let last = with(&log, |l| l.handles_alive == 1);
    drop(original);
    with(&log, |l| {
        l.handles_alive -= 1;
        if last {
            l.closed = true;
            l.trace.push("closed by main".into());
        }
    });
    for j in joins {
        j.join().expect("producer thread panicked");
    }
    cons.join().expect("consumer thread panicked");

    let verdict = with(&log, |l| judge(w, l));
    with(&log, |l| account(w, l));
    if let Err(v) = verdict {
        // a ring whose indices were corrupted can have head > tail, and SpscRing::drop then
        // loops (practically) for ever re-dropping slots: do not run that destructor on a queue
        // already known to be broken, the finding is reported through the oracle instead
        std::mem::forget(track);
        IN_EXEC.with(|c| c.set(false));
        panic!("{ORACLE_TAG}{}|{}|{}", v.oracle, v.kind, v.detail);
    }
    with(&log, |l| l.trace.push("judged ok; dropping track".into()));
    drop(track);
    crate::sched::PROGRESS.fetch_add(1, std::sync::atomic::Ordering::Relaxed);
    IN_EXEC.with(|c| c.set(false));
}

// ---------------------------------------------------------------------------------------------
// oracles (evaluated once every thread has finished; a consumer that never finishes is
// reported by shuttle as a deadlock and judged in the driver)
// ---------------------------------------------------------------------------------------------
fn judge(w: &Workload, l: &Log) -> Result<(), Violation> {
    let name = |ts: u32| format!("p{}#{}", ts >> 16, ts & 0xffff);
    // C20.identity: every received sample is bit-identical to one pushed sample
    for (k, (ts, ok)) in l.received.iter().enumerate() {
        if !*ok {
            return Err(Violation { oracle: "C20.identity", kind: "corrupt_sample", detail: format!("receive #{k} ({}) equals no pushed sample", name(*ts)) });
        }
        let (p, i) = ((ts >> 16) as usize, ts & 0xffff);
        if !l.accepted[p].contains(&i) {
            return Err(Violation { oracle: "C20.identity", kind: "never_accepted", detail: format!("receive #{k} ({}) was refused by the push call (WouldBlock/Err) yet delivered", name(*ts)) });
        }
    }
    // C20.once
    let mut seen = std::collections::BTreeSet::new();
    for (k, (ts, _)) in l.received.iter().enumerate() {
        if !seen.insert(*ts) {
            return Err(Violation { oracle: "C20.once", kind: "duplicate", detail: format!("receive #{k} delivers {} a second time", name(*ts)) });
        }
    }
    // C20.order
    let mut last: Vec<Option<u32>> = vec![None; l.np];
    for (k, (ts, _)) in l.received.iter().enumerate() {
        let (p, i) = ((ts >> 16) as usize, ts & 0xffff);
        if let Some(prev) = last[p] {
            if i <= prev {
                return Err(Violation { oracle: "C20.order", kind: "reordered", detail: format!("receive #{k} delivers {} after p{p}#{prev}", name(*ts)) });
            }
        }
        last[p] = Some(i);
    }
    // C20.eos: every source handle is gone by now, so recv() must have ended with EndOfStream
    match &l.end {
        ConsumerEnd::Eos => {}
        ConsumerEnd::CapExceeded => {
            return Err(Violation { oracle: "C20.once", kind: "more_received_than_pushed", detail: format!("{} receives for {} pushes", l.received.len(), w.total_pushes()) })
        }
        other => return Err(Violation { oracle: "C20.eos", kind: "wrong_end", detail: format!("consumer ended with {other:?}") }),
    }
    if !l.push_errors.is_empty() {
        return Err(Violation { oracle: "C20.eos", kind: "closed_while_sender_alive", detail: format!("push failed while the pushing handle was alive: {:?}", l.push_errors) });
    }
    // C20.balance / C20.eos(drain): accepted = received + lost-by-design + left-in-queue.
    // Without stop() nothing may be left in the queue at end-of-stream, and the only loss the
    // API defines is one sample per send() that met a full ring.
    let missing = l.accepted_total() - l.received.len(); // received ⊆ accepted and duplicate-free at this point
    let allowance = l.overflow_allowance();
    if !l.stop_called && missing as u32 > allowance {
        let lost: Vec<String> = l.accepted.iter().enumerate().flat_map(|(p, a)| a.iter().filter(|i| !seen.contains(&(((p as u32) << 16) | **i))).map(move |i| format!("p{p}#{i}")).collect::<Vec<_>>()).collect();
        // "after the source closes the consumer drains what remains and then observes end-of-stream"
        let (oracle, kind) = ("C20.eos", "undrained_at_eos");
        return Err(Violation { oracle, kind, detail: format!("accepted {} received {} but at most {} could be dropped by a full ring; never delivered: {:?}", l.accepted_total(), l.received.len(), allowance, lost) });
    }
    if l.drop_count_at_end != 0 {
        return Err(Violation { oracle: "C20.balance", kind: "drop_count", detail: format!("drop_count() = {} though nothing called increment_drop_count", l.drop_count_at_end) });
    }
    Ok(())
}

fn account(_w: &Workload, l: &Log) {
    let overflow_lost = if l.stop_called { 0 } else { (l.accepted_total() - l.received.len().min(l.accepted_total())) as u32 };
    let nontrivial = l.received_while_producer_alive > 0
        || l.parked_before_close > 0
        || overflow_lost > 0
        || l.stop_during_send > 0
        || l.received_after_close > 0
        || l.would_block > 0;
    LAST_NONTRIVIAL.with(|c| c.set(nontrivial));
    STATS.with(|s| {
        let mut s = s.borrow_mut();
        s.executions_completed += 1;
        if nontrivial {
            s.nontrivial += 1;
        }
        s.samples_accepted += l.accepted_total() as u64;
        s.samples_received += l.received.len() as u64;
        s.samples_lost_to_overflow += overflow_lost as u64;
        s.hit("overflow_drop_oldest_or_drop_new", overflow_lost);
        s.hit("send_met_possibly_full_ring", l.overflow_allowance());
        s.hit("try_send_would_block", l.would_block);
        s.hit("stop_during_send", l.stop_during_send);
        s.hit("last_source_dropped_with_items_queued", l.last_drop_with_unreceived);
        s.hit("sample_drained_after_close", l.received_after_close);
        s.hit("recv_parked_before_close", l.parked_before_close);
        s.hit("recv_parked", l.parked);
        s.hit("sample_received_while_producer_alive", l.received_while_producer_alive);
        s.hit("stop_called", l.stop_called as u32);
    });
}
