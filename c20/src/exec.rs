//! One shuttle execution of a workload against the real SampleStreamSource / SampleStreamTrack,
//! the per-execution log, and the C20 oracles evaluated on that log.
use crate::payload::{self, Ctx, Table};
use crate::workload::{Consumer, Op, SourceMode, Workload};
use rustrtc::media::frame::{AudioFrame, MediaKind, MediaSample};
use rustrtc::media::track::{sample_track, MediaStreamTrack, SampleStreamSource, SampleStreamTrack};
use rustrtc::media::MediaError;
use std::cell::{Cell, RefCell};
use std::collections::BTreeMap;
use std::future::Future;
use std::pin::Pin;
use std::sync::{Arc, Mutex};
use std::task::{Context, Poll};

// ---------------------------------------------------------------------------------------------
// scheduling point handed to rustrtc::verif_hooks::sync
// ---------------------------------------------------------------------------------------------
thread_local! {
    /// true while a shuttle execution body is running on this OS thread
    static IN_EXEC: Cell<bool> = const { Cell::new(false) };
    /// every YIELD_EVERY-th scheduling point is a yield (0 = never). PCT needs this: the hook
    /// mutex spins on try_lock, and a highest-priority spinner would otherwise never let the
    /// lock holder run.
    static YIELD_EVERY: Cell<u32> = const { Cell::new(0) };
    static SP_COUNT: Cell<u32> = const { Cell::new(0) };
    pub static STATS: RefCell<Stats> = RefCell::new(Stats::default());
    /// set by the body at the end of an execution that completed; read by the schedule recorder
    pub static LAST_NONTRIVIAL: Cell<bool> = const { Cell::new(false) };
}

/// log of the execution in progress (global so the watchdog thread can read it)
static CUR: Mutex<Option<Arc<Mutex<Log>>>> = Mutex::new(None);

pub fn sched_point() {
    if !IN_EXEC.with(|c| c.get()) || std::thread::panicking() {
        return;
    }
    let n = SP_COUNT.with(|c| {
        let v = c.get().wrapping_add(1);
        c.set(v);
        v
    });
    let every = YIELD_EVERY.with(|c| c.get());
    if every != 0 && n % every == 0 {
        shuttle::thread::yield_now();
    } else {
        // shuttle's sleep is a plain context-switch point (no priority change under PCT)
        shuttle::thread::sleep(std::time::Duration::ZERO);
    }
}

pub fn in_exec() -> bool {
    IN_EXEC.with(|c| c.get())
}

pub fn leave_exec() {
    IN_EXEC.with(|c| c.set(false));
}

pub fn set_yield_every(n: u32) {
    YIELD_EVERY.with(|c| c.set(n));
}

// ---------------------------------------------------------------------------------------------
// samples
// ---------------------------------------------------------------------------------------------
static PAYLOADS: [&[u8]; 5] = [b"a", b"payload-bb", b"\x00\x01\x02\x03\x04\x05\x06\x07", b"", b"zzzzzzzzzzzzzzzzzzzzzzzzzzzzzzzz"];

fn payload_bytes(p: u32, i: u32) -> &'static [u8] {
    PAYLOADS[((p * 7 + i) % PAYLOADS.len() as u32) as usize]
}
fn clock_rate(p: u32, i: u32) -> u32 {
    8000 + (p * 97 + i * 13) % 1000
}

/// The i-th sample of producer p. Its payload is a `Bytes` over an owner that reports its own
/// release to `tbl` (payload.rs); the bytes themselves are static, so comparing or reading them
/// never depends on the owner being alive. This is the only place a payload is created, and
/// nothing in the harness keeps a clone of it.
pub fn make_sample(tbl: &Arc<Table>, p: u32, i: u32) -> MediaSample {
    MediaSample::Audio(AudioFrame {
        rtp_timestamp: (p << 16) | i,
        clock_rate: clock_rate(p, i),
        data: payload::tracked_bytes(tbl, p, i, payload_bytes(p, i)),
        sequence_number: Some(i as u16),
        payload_type: Some(96 + p as u8),
        marker: i % 2 == 1,
        header_extension: None,
        source_addr: None,
        raw_packet: None,
    })
}

/// bit-for-bit comparison of every field against what producer p pushed as its i-th sample
fn same_as_pushed(f: &AudioFrame, p: u32, i: u32) -> bool {
    f.rtp_timestamp == (p << 16) | i
        && f.clock_rate == clock_rate(p, i)
        && f.data[..] == *payload_bytes(p, i)
        && f.sequence_number == Some(i as u16)
        && f.payload_type == Some(96 + p as u8)
        && f.marker == (i % 2 == 1)
        && f.header_extension.is_none()
        && f.source_addr.is_none()
        && f.raw_packet.is_none()
}

// ---------------------------------------------------------------------------------------------
// per-execution log
// ---------------------------------------------------------------------------------------------
#[derive(Clone, Debug, PartialEq, Eq)]
pub enum ConsumerEnd {
    Running,
    Eos,
    /// let go of the track on purpose (abandon_after / stop_then_abandon) before end-of-stream
    Abandoned,
    CapExceeded,
    OtherError(String),
}

/// the moment the last handle (source or track) of the queue is dropped
#[derive(Clone, Debug)]
pub struct Teardown {
    /// payloads created and not yet released = samples still in the ring (every thread but the
    /// one dropping has finished: whatever was received or refused has been released by now)
    pub fill: usize,
    /// samples popped from the ring so far = the ring's head index
    pub head: usize,
    pub by: String,
    pub handle: &'static str,
}

pub struct Log {
    pub np: usize,
    pub capacity: usize,
    pub consumer_mode: Consumer,
    pub table: Arc<Table>,
    /// handles that keep the ring alive: source handles plus every Arc of the track
    pub holders_alive: usize,
    pub holders_total: usize,
    pub holders_dropped: usize,
    pub producers_done: usize,
    pub teardown: Option<Teardown>,
    /// samples recv() delivered although their payload had been released before
    pub released_while_queued: Vec<u32>,
    pub stalled: u32,
    pub released_at_teardown: u32,
    /// samples handed to a push call, per producer (index = next sample number)
    pub started: Vec<u32>,
    /// sample numbers the API accepted (send/send_many Ok, try_send Ok), per producer
    pub accepted: Vec<Vec<u32>>,
    pub would_block: u32,
    pub push_errors: Vec<String>,
    /// upper bound on the samples the drop-oldest policy may legitimately have discarded:
    /// min(number of send/send_many samples, sum over all pushes of max(0, occ - cap + 1)) where
    /// occ = pushes begun before this one minus receives recorded so far (an over-estimate of
    /// the ring occupancy the push can meet). A loss needs a full ring, i.e. cap+1 begun and
    /// undelivered pushes; charging each loss to the latest-begun of them, a push with
    /// occupancy bound occ can be charged at most occ - cap + 1 times.
    pub overflow_allowance_by_occupancy: u32,
    pub send_pushes: u32,
    pub started_total: u32,
    /// what recv() returned, in order: (rtp_timestamp, identical to the pushed sample?)
    pub received: Vec<(u32, bool)>,
    pub end: ConsumerEnd,
    pub in_send: Vec<bool>,
    pub handles_alive: usize,
    pub closed: bool,
    pub stop_called: bool,
    pub drop_count_at_end: u64,
    // probes
    pub parked: u32,
    pub parked_before_close: u32,
    pub received_after_close: u32,
    pub received_while_producer_alive: u32,
    pub stop_during_send: u32,
    pub last_drop_with_unreceived: u32,
    pub trace: Vec<String>,
}

impl Log {
    fn new(w: &Workload, handles: usize, holders: usize, table: Arc<Table>) -> Log {
        Log {
            np: w.producers.len(),
            capacity: w.capacity,
            consumer_mode: w.consumer,
            table,
            holders_alive: holders,
            holders_total: holders,
            holders_dropped: 0,
            producers_done: 0,
            teardown: None,
            released_while_queued: vec![],
            stalled: 0,
            released_at_teardown: 0,
            started: vec![0; w.producers.len()],
            accepted: vec![vec![]; w.producers.len()],
            would_block: 0,
            push_errors: vec![],
            overflow_allowance_by_occupancy: 0,
            send_pushes: 0,
            started_total: 0,
            received: vec![],
            end: ConsumerEnd::Running,
            in_send: vec![false; w.producers.len()],
            handles_alive: handles,
            closed: false,
            stop_called: false,
            drop_count_at_end: 0,
            parked: 0,
            parked_before_close: 0,
            received_after_close: 0,
            received_while_producer_alive: 0,
            stop_during_send: 0,
            last_drop_with_unreceived: 0,
            trace: vec![],
        }
    }
    pub fn overflow_allowance(&self) -> u32 {
        self.overflow_allowance_by_occupancy.min(self.send_pushes)
    }
    fn accepted_total(&self) -> usize {
        self.accepted.iter().map(|a| a.len()).sum()
    }
    pub fn summary(&self) -> serde_json::Value {
        serde_json::json!({
            "accepted": self.accepted,
            "would_block": self.would_block,
            "received": self.received.iter().map(|(ts, ok)| format!("p{}#{}{}", ts >> 16, ts & 0xffff, if *ok { "" } else { "!corrupt" })).collect::<Vec<_>>(),
            "consumer_end": format!("{:?}", self.end),
            "all_sources_dropped": self.closed,
            "handles_alive": self.handles_alive,
            "stop_called": self.stop_called,
            "overflow_allowance": self.overflow_allowance(),
            "parked": self.parked,
            "parked_before_close": self.parked_before_close,
            "trace": self.trace,
            "consumer": self.consumer_mode.label(),
            "capacity": self.capacity,
            "handles_of_the_ring_alive": self.holders_total - self.holders_dropped,
            "released_by_ring_drop": self.released_at_teardown,
            "teardown": self.teardown.as_ref().map(|t| serde_json::json!({ "queued_when_last_handle_dropped": t.fill, "ring_head": t.head, "last_handle": t.handle, "dropped_by": t.by })),
            "release": release_summary(&self.table),
        })
    }
    /// hash of everything observable about the run (exactness check for replays)
    pub fn hash(&self) -> u64 {
        use std::hash::{Hash, Hasher};
        let mut h = std::collections::hash_map::DefaultHasher::new();
        self.accepted.hash(&mut h);
        self.received.hash(&mut h);
        format!("{:?}", self.end).hash(&mut h);
        self.trace.hash(&mut h);
        self.parked.hash(&mut h);
        h.finish()
    }
}

/// per payload: how often released, by which paths; plus what the quarantine scan shows
fn release_summary(tbl: &Table) -> serde_json::Value {
    let q = payload::peek_quarantine();
    tbl.try_with(|t| {
        let over: Vec<String> = q.iter().filter(|(_, w)| *w != 0).filter_map(|(a, w)| t.blocks.iter().rev().find(|b| b.0 == *a).map(|b| format!("p{}#{} dropped {} more time(s) after its release", b.1, b.2, 0usize.wrapping_sub(*w)))).collect();
        let never: Vec<String> = t.created.iter().enumerate().flat_map(|(p, c)| c.iter().enumerate().filter(|(i, c)| **c && t.released[p][*i] == 0).map(move |(i, _)| format!("p{p}#{i}")).collect::<Vec<_>>()).collect();
        serde_json::json!({ "releases_in_order": t.order_text(), "not_released_so_far": never, "dropped_again_after_release": over })
    })
    .unwrap_or(serde_json::json!("table busy"))
}

#[derive(Default, Debug, Clone)]
pub struct Stats {
    pub executions_completed: u64,
    pub nontrivial: u64,
    pub samples_accepted: u64,
    pub samples_received: u64,
    pub samples_lost_to_overflow: u64,
    pub probes: BTreeMap<&'static str, u64>,
    pub payloads_created: u64,
    /// payloads released, by path (index = payload::Path)
    pub released_by: [u64; 6],
    /// executions by what the ring held when its last handle was dropped: [empty, partly filled, exactly full]
    pub teardown: [u64; 3],
    pub teardown_full_by_capacity: BTreeMap<usize, u64>,
}
impl Stats {
    fn hit(&mut self, k: &'static str, n: u32) {
        if n > 0 {
            *self.probes.entry(k).or_insert(0) += 1;
        }
    }
}

type SharedLog = Arc<Mutex<Log>>;
fn with<R>(l: &SharedLog, f: impl FnOnce(&mut Log) -> R) -> R {
    // never contended: shuttle runs one thread at a time and no scheduling point is taken
    // while the guard is held
    f(&mut l.lock().unwrap())
}

pub fn current_log_summary() -> Option<(serde_json::Value, u64)> {
    let cur = CUR.lock().ok()?.clone();
    cur.map(|l| match l.try_lock() {
        Ok(l) => (l.summary(), l.hash()),
        Err(_) => (serde_json::json!("log busy"), 0),
    })
}

pub struct Violation {
    pub oracle: &'static str,
    pub kind: &'static str,
    pub detail: String,
}
pub const ORACLE_TAG: &str = "C20-ORACLE|";

// ---------------------------------------------------------------------------------------------
// threads
// ---------------------------------------------------------------------------------------------
enum Handle {
    Shared(Arc<SampleStreamSource>),
    Owned(SampleStreamSource),
}
impl Handle {
    fn src(&self) -> &SampleStreamSource {
        match self {
            Handle::Shared(a) => a,
            Handle::Owned(s) => s,
        }
    }
}

/// Drops one of the handles that keep the ring alive (a source handle or an Arc of the track).
/// If it is the last one, what the ring still holds is noted first: `SpscRing::drop` runs inside
/// this drop, and every payload it lets go of is attributed to the teardown.
fn drop_holder<T>(x: T, log: &SharedLog, who: &str, handle: &'static str) {
    let tbl = with(log, |l| l.table.clone());
    // Dropping a source handle takes several steps (sender count, closed flag, then the Arc of
    // the ring), so two drops can overlap. The thread that BEGINS its drop last notes the fill
    // level: every other thread has finished its pushes and receives by then, nothing but the
    // teardown can change it any more. The thread that COMPLETES its drop last is the one whose
    // drop ran SpscRing::drop.
    let begins_last = with(log, |l| {
        l.holders_alive -= 1;
        l.holders_alive == 0
    });
    if begins_last {
        let fill = tbl.outstanding();
        let head = tbl.with(|t| (t.by_path[payload::Path::Consumer as usize] + t.by_path[payload::Path::QueueOverflowOldest as usize]) as usize);
        with(log, |l| {
            l.teardown = Some(Teardown { fill, head, by: String::new(), handle: "" });
            l.trace.push(format!("last handle about to go ({handle} held by {who}) with {fill} queued"));
        });
    }
    let before = tbl.with(|t| t.by_path[payload::Path::RingDrop as usize]);
    payload::set_ctx(&tbl, Ctx::HandleDrop);
    drop(x);
    payload::set_ctx(&tbl, Ctx::Idle);
    let after = tbl.with(|t| t.by_path[payload::Path::RingDrop as usize]);
    with(log, |l| {
        l.holders_dropped += 1;
        l.released_at_teardown += after - before;
        if l.holders_dropped == l.holders_total {
            if let Some(t) = l.teardown.as_mut() {
                t.by = who.to_string();
                t.handle = handle;
            }
        }
    });
}

fn note_push_start(log: &SharedLog, p: usize, n: u32, cap: usize, drop_oldest: bool) -> u32 {
    with(log, |l| {
        let first = l.started[p];
        l.started[p] += n;
        for k in 0..n {
            // upper bound of the ring occupancy this push can meet
            let occ = (l.started_total + k) as usize - l.received.len().min((l.started_total + k) as usize);
            if occ >= cap {
                l.overflow_allowance_by_occupancy += (occ - cap + 1) as u32;
            }
        }
        if drop_oldest {
            l.send_pushes += n;
        }
        l.started_total += n;
        l.in_send[p] = true;
        first
    })
}

fn producer(p: usize, ops: Vec<Op>, h: Handle, track: Option<Arc<SampleStreamTrack>>, log: SharedLog, cap: usize) {
    let tbl = with(&log, |l| l.table.clone());
    for op in ops {
        match op {
            Op::Send | Op::TrySend => {
                let drop_oldest = op == Op::Send;
                let i = note_push_start(&log, p, 1, cap, drop_oldest);
                let s = make_sample(&tbl, p as u32, i);
                payload::set_ctx(&tbl, Ctx::Push { p: p as u16, first: i, n: 1, refusing: !drop_oldest });
                let r = if drop_oldest { h.src().send(s) } else { h.src().try_send(s) };
                payload::set_ctx(&tbl, Ctx::Idle);
                with(&log, |l| {
                    l.in_send[p] = false;
                    match r {
                        Ok(()) => l.accepted[p].push(i),
                        Err(MediaError::WouldBlock) if !drop_oldest => l.would_block += 1,
                        Err(e) => l.push_errors.push(format!("p{p}#{i} {:?}: {e:?}", op)),
                    }
                });
            }
            Op::SendMany(n) => {
                let first = note_push_start(&log, p, n as u32, cap, true);
                payload::set_ctx(&tbl, Ctx::Push { p: p as u16, first, n: n as u32, refusing: false });
                // the iterator is lazy: sample k is created when send_many is about to push it
                let r = h.src().send_many((0..n as u32).map(|k| make_sample(&tbl, p as u32, first + k)));
                payload::set_ctx(&tbl, Ctx::Idle);
                with(&log, |l| {
                    l.in_send[p] = false;
                    match r {
                        Ok(()) => l.accepted[p].extend(first..first + n as u32),
                        Err(e) => l.push_errors.push(format!("p{p}#{first}.. send_many({n}): {e:?}")),
                    }
                });
            }
            Op::Stop => {
                if let Some(t) = &track {
                    do_stop(t, &log, &format!("p{p}"))
                }
            }
            Op::CloneDrop => drop(h.src().clone()),
        }
    }
    let last = with(&log, |l| {
        let last = l.handles_alive == 1;
        if last && l.accepted_total() > l.received.len() {
            l.last_drop_with_unreceived += 1;
        }
        last
    });
    drop_holder(h, &log, &format!("p{p}"), "source");
    with(&log, |l| {
        l.handles_alive -= 1;
        l.producers_done += 1;
        if last {
            l.closed = true;
            l.trace.push(format!("closed by p{p}"));
        }
    });
    if let Some(t) = track {
        drop_holder(t, &log, &format!("p{p}"), "track");
    }
}

fn do_stop(track: &SampleStreamTrack, log: &SharedLog, who: &str) {
    with(log, |l| {
        if l.in_send.iter().any(|b| *b) {
            l.stop_during_send += 1;
        }
        l.stop_called = true;
        l.trace.push(format!("stop by {who}"));
    });
    track.stop();
}

/// Wraps `track.recv()` to see whether the consumer had to park.
struct Watch<'a> {
    inner: Pin<Box<dyn Future<Output = Result<MediaSample, MediaError>> + Send + 'a>>,
    log: &'a SharedLog,
}
impl Future for Watch<'_> {
    type Output = Result<MediaSample, MediaError>;
    fn poll(mut self: Pin<&mut Self>, cx: &mut Context<'_>) -> Poll<Self::Output> {
        let r = self.inner.as_mut().poll(cx);
        if r.is_pending() {
            with(self.log, |l| {
                l.parked += 1;
                if !l.closed && !l.stop_called {
                    l.parked_before_close += 1;
                }
            });
        }
        r
    }
}

/// recv() until the stream ends (true) or `limit` samples have been received in this call (false)
fn recv_loop(track: &SampleStreamTrack, log: &SharedLog, tbl: &Arc<Table>, cap: usize, pushes: &[u32], limit: Option<u32>) -> bool {
    let mut got = 0u32;
    loop {
        if limit.map(|k| got >= k).unwrap_or(false) {
            return false;
        }
        if with(log, |l| l.received.len()) >= cap {
            with(log, |l| l.end = ConsumerEnd::CapExceeded);
            return true;
        }
        let r = shuttle::future::block_on(Watch { inner: track.recv(), log });
        match r {
            Ok(MediaSample::Audio(f)) => {
                got += 1;
                let (p, i) = (f.rtp_timestamp >> 16, f.rtp_timestamp & 0xffff);
                let ok = (p as usize) < pushes.len() && i < pushes[p as usize] && same_as_pushed(&f, p, i);
                // a payload released while its sample was still on its way to the consumer: the
                // consumer now holds a `Bytes` whose owner is gone
                let stale = ok && tbl.release_count(p, i) > 0;
                let dup = with(log, |l| {
                    let dup = l.received.iter().any(|(ts, _)| *ts == f.rtp_timestamp);
                    l.received.push((f.rtp_timestamp, ok));
                    if stale {
                        l.released_while_queued.push(f.rtp_timestamp);
                    }
                    if l.closed {
                        l.received_after_close += 1;
                    } else {
                        l.received_while_producer_alive += 1;
                    }
                    dup
                });
                if !ok || stale || dup {
                    // a corrupt sample, a second copy of a delivered sample or a sample whose
                    // payload is already gone: dropping it would be a memory error committed by
                    // the harness; the log has what the oracles need
                    std::mem::forget(f);
                } else {
                    payload::set_ctx(tbl, Ctx::ConsumerDrop);
                    drop(f);
                    payload::set_ctx(tbl, Ctx::Idle);
                }
            }
            Ok(MediaSample::Video(v)) => {
                std::mem::forget(v);
                with(log, |l| l.received.push((u32::MAX, false)));
            }
            Err(MediaError::EndOfStream) => {
                // drop_count() goes through a wrapped atomic (a scheduling point): never call it
                // with the log guard held
                let dc = track.drop_count();
                with(log, |l| {
                    l.end = ConsumerEnd::Eos;
                    l.drop_count_at_end = dc;
                });
                return true;
            }
            Err(e) => {
                with(log, |l| l.end = ConsumerEnd::OtherError(format!("{e:?}")));
                return true;
            }
        }
    }
}

fn consumer(track: Arc<SampleStreamTrack>, log: SharedLog, cap: usize, pushes: Vec<u32>, mode: Consumer, np: usize) {
    let tbl = with(&log, |l| l.table.clone());
    let abandon = |log: &SharedLog| {
        let dc = track.drop_count();
        with(log, |l| {
            if l.end == ConsumerEnd::Running {
                l.end = ConsumerEnd::Abandoned;
                l.drop_count_at_end = dc;
                l.trace.push(format!("consumer abandons the track after {} receive(s)", l.received.len()));
            }
        });
    };
    match mode {
        Consumer::Drain => {
            recv_loop(&track, &log, &tbl, cap, &pushes, None);
        }
        Consumer::AbandonAfter(k) => {
            if !recv_loop(&track, &log, &tbl, cap, &pushes, Some(k)) {
                abandon(&log);
            }
        }
        Consumer::StopThenAbandon(k) => {
            let ended = recv_loop(&track, &log, &tbl, cap, &pushes, Some(k));
            do_stop(&track, &log, "consumer");
            if !ended {
                abandon(&log);
            }
        }
        Consumer::StallThenDrain(k) => {
            if !recv_loop(&track, &log, &tbl, cap, &pushes, Some(k)) {
                // a wait the scheduler sees: every turn of the loop hands the processor over
                while with(&log, |l| l.producers_done < np) {
                    with(&log, |l| l.stalled += 1);
                    shuttle::thread::yield_now();
                }
                with(&log, |l| l.trace.push(format!("consumer resumes after {} receive(s); every producer is done", l.received.len())));
                recv_loop(&track, &log, &tbl, cap, &pushes, None);
            }
        }
    }
    drop_holder(track, &log, "consumer", "track");
}

// ---------------------------------------------------------------------------------------------
// the shuttle test body
// ---------------------------------------------------------------------------------------------
pub fn body(w: &Workload) {
    IN_EXEC.with(|c| c.set(true));
    SP_COUNT.with(|c| c.set(0));
    LAST_NONTRIVIAL.with(|c| c.set(false));
    // blocks parked by an execution that ended in a violation
    payload::flush_quarantine();
    let np = w.producers.len();
    let handles = np + 1;
    let drain = w.consumer == Consumer::Drain;
    let pushes: Vec<u32> = w.producers.iter().map(|ops| ops.iter().map(|o| o.pushes()).sum()).collect();
    let wants_track = |ops: &[Op]| ops.contains(&Op::Stop);
    // source handles + the creating thread's and the consumer's Arc of the track + one Arc per
    // thread that calls stop()
    let holders = handles + 2 + w.producers.iter().filter(|o| wants_track(o)).count() + usize::from(!w.controller.is_empty());
    let table = Table::new(&pushes);
    let log: SharedLog = Arc::new(Mutex::new(Log::new(w, handles, holders, table.clone())));
    *CUR.lock().unwrap() = Some(log.clone());
    crate::sched::PROGRESS.fetch_add(1, std::sync::atomic::Ordering::Relaxed);

    let (src, track, _feedback_rx) = sample_track(MediaKind::Audio, w.capacity);
    let mut joins = Vec::new();
    let original: Handle = match w.mode {
        SourceMode::SharedArc => Handle::Shared(Arc::new(src)),
        SourceMode::Cloned => Handle::Owned(src),
    };
    for (p, ops) in w.producers.iter().enumerate() {
        let h = match &original {
            Handle::Shared(a) => Handle::Shared(a.clone()),
            Handle::Owned(s) => Handle::Owned(s.clone()),
        };
        let t = if wants_track(ops) { Some(track.clone()) } else { None };
        let (ops, log, cap) = (ops.clone(), log.clone(), w.capacity);
        joins.push(shuttle::thread::spawn(move || producer(p, ops, h, t, log, cap)));
    }
    if !w.controller.is_empty() {
        let (ops, track, log) = (w.controller.clone(), track.clone(), log.clone());
        joins.push(shuttle::thread::spawn(move || {
            for op in ops {
                if op == Op::Stop {
                    do_stop(&track, &log, "bystander");
                }
            }
            drop_holder(track, &log, "bystander", "track");
        }));
    }
    let cons = {
        let (track, log, cap, mode) = (track.clone(), log.clone(), w.recv_cap(), w.consumer);
        shuttle::thread::spawn(move || consumer(track, log, cap, pushes, mode, np))
    };
    // the creating thread lets go of its own source handle at a point the scheduler chooses
    let last = with(&log, |l| l.handles_alive == 1);
    drop_holder(original, &log, "main", "source");
    with(&log, |l| {
        l.handles_alive -= 1;
        if last {
            l.closed = true;
            l.trace.push("closed by main".into());
        }
    });
    // ... and, unless the consumer simply drains, of its track handle too: whichever thread is
    // last then tears the ring down with whatever is still queued
    let mut track = Some(track);
    if !drain {
        drop_holder(track.take().unwrap(), &log, "main", "track");
    }
    for j in joins {
        j.join().expect("producer thread panicked");
    }
    cons.join().expect("consumer thread panicked");

    let mut verdict = with(&log, |l| judge(w, l));
    if let Some(track) = track {
        if verdict.is_err() {
            // a ring whose indices were corrupted can have head > tail, and SpscRing::drop then
            // loops (practically) for ever re-dropping slots: do not run that destructor on a queue
            // already known to be broken, the finding is reported through the oracle instead
            std::mem::forget(track);
        } else {
            with(&log, |l| l.trace.push("judged ok; dropping track".into()));
            drop_holder(track, &log, "main", "track");
        }
    }
    if verdict.is_ok() {
        // every handle is gone and every thread has ended: the books on the payloads must balance
        verdict = judge_release(w, &log, &table);
    }
    with(&log, |l| account(w, l, &table));
    if let Err(v) = verdict {
        IN_EXEC.with(|c| c.set(false));
        panic!("{ORACLE_TAG}{}|{}|{}", v.oracle, v.kind, v.detail);
    }
    crate::sched::PROGRESS.fetch_add(1, std::sync::atomic::Ordering::Relaxed);
    IN_EXEC.with(|c| c.set(false));
}

// ---------------------------------------------------------------------------------------------
// oracles (evaluated once every thread has finished; a consumer that never finishes is
// reported by shuttle as a deadlock and judged in the driver)
// ---------------------------------------------------------------------------------------------
fn judge(w: &Workload, l: &Log) -> Result<(), Violation> {
    let name = |ts: u32| format!("p{}#{}", ts >> 16, ts & 0xffff);
    // C20.identity: every received sample is bit-identical to one pushed sample
    for (k, (ts, ok)) in l.received.iter().enumerate() {
        if !*ok {
            return Err(Violation { oracle: "C20.identity", kind: "corrupt_sample", detail: format!("receive #{k} ({}) equals no pushed sample", name(*ts)) });
        }
        let (p, i) = ((ts >> 16) as usize, ts & 0xffff);
        if !l.accepted[p].contains(&i) {
            return Err(Violation { oracle: "C20.identity", kind: "never_accepted", detail: format!("receive #{k} ({}) was refused by the push call (WouldBlock/Err) yet delivered", name(*ts)) });
        }
    }
    // C20.once
    let mut seen = std::collections::BTreeSet::new();
    for (k, (ts, _)) in l.received.iter().enumerate() {
        if !seen.insert(*ts) {
            return Err(Violation { oracle: "C20.once", kind: "duplicate", detail: format!("receive #{k} delivers {} a second time", name(*ts)) });
        }
    }
    // C20.order
    let mut last: Vec<Option<u32>> = vec![None; l.np];
    for (k, (ts, _)) in l.received.iter().enumerate() {
        let (p, i) = ((ts >> 16) as usize, ts & 0xffff);
        if let Some(prev) = last[p] {
            if i <= prev {
                return Err(Violation { oracle: "C20.order", kind: "reordered", detail: format!("receive #{k} delivers {} after p{p}#{prev}", name(*ts)) });
            }
        }
        last[p] = Some(i);
    }
    // C20.eos: every source handle is gone by now, so a consumer that kept calling recv() must
    // have been told EndOfStream; one that abandoned the track on purpose owes nothing
    let may_abandon = matches!(w.consumer, Consumer::AbandonAfter(_) | Consumer::StopThenAbandon(_));
    match &l.end {
        ConsumerEnd::Eos => {}
        ConsumerEnd::Abandoned if may_abandon => {}
        ConsumerEnd::CapExceeded => {
            return Err(Violation { oracle: "C20.once", kind: "more_received_than_pushed", detail: format!("{} receives for {} pushes", l.received.len(), w.total_pushes()) })
        }
        other => return Err(Violation { oracle: "C20.eos", kind: "wrong_end", detail: format!("consumer ended with {other:?}") }),
    }
    if !l.push_errors.is_empty() {
        return Err(Violation { oracle: "C20.eos", kind: "closed_while_sender_alive", detail: format!("push failed while the pushing handle was alive: {:?}", l.push_errors) });
    }
    // C20.balance / C20.eos(drain): accepted = received + lost-by-design + left-in-queue.
    // Without stop() nothing may be left in the queue at end-of-stream, and the only loss the
    // API defines is one sample per send() that met a full ring.
    let missing = l.accepted_total() - l.received.len(); // received ⊆ accepted and duplicate-free at this point
    let allowance = l.overflow_allowance();
    if !l.stop_called && l.end == ConsumerEnd::Eos && missing as u32 > allowance {
        let lost: Vec<String> = l.accepted.iter().enumerate().flat_map(|(p, a)| a.iter().filter(|i| !seen.contains(&(((p as u32) << 16) | **i))).map(move |i| format!("p{p}#{i}")).collect::<Vec<_>>()).collect();
        // "after the source closes the consumer drains what remains and then observes end-of-stream"
        let (oracle, kind) = ("C20.eos", "undrained_at_eos");
        return Err(Violation { oracle, kind, detail: format!("accepted {} received {} but at most {} could be dropped by a full ring; never delivered: {:?}", l.accepted_total(), l.received.len(), allowance, lost) });
    }
    if l.drop_count_at_end != 0 {
        return Err(Violation { oracle: "C20.balance", kind: "drop_count", detail: format!("drop_count() = {} though nothing called increment_drop_count", l.drop_count_at_end) });
    }
    Ok(())
}

/// C20.release: the execution has ended and every handle of the queue is gone, so every payload
/// that was created has been released exactly once - by the consumer after recv() handed it over,
/// by the producer's own push call when that refused it, by the queue when it dropped its oldest
/// (or discarded the new sample) on overflow, or by SpscRing::drop when the last handle went.
fn judge_release(w: &Workload, log: &SharedLog, tbl: &Arc<Table>) -> Result<(), Violation> {
    let (holders, stale, teardown) = with(log, |l| (l.holders_total - l.holders_dropped, l.released_while_queued.clone(), l.teardown.clone()));
    assert_eq!(holders, 0, "harness: {holders} handle(s) of the ring still alive when the release books are closed");
    let parked = payload::flush_quarantine();
    let name = |p: usize, i: usize| format!("p{p}#{i}");
    let td = teardown.map(|t| format!("last handle ({}) dropped by {} with {} of {} slot(s) occupied, ring head {}", t.handle, t.by, t.fill, w.capacity, t.head)).unwrap_or_else(|| "no teardown recorded".into());
    if let Some(ts) = stale.first() {
        return Err(Violation { oracle: "C20.release", kind: "released_while_queued", detail: format!("recv() delivered p{}#{} after its payload had been released: the consumer holds freed memory", ts >> 16, ts & 0xffff) });
    }
    tbl.with(|t| {
        let mut twice = vec![];
        let mut never = vec![];
        for (p, c) in t.created.iter().enumerate() {
            for (i, created) in c.iter().enumerate() {
                if !*created {
                    continue;
                }
                // drops of stale copies after the first release do not reach the owner's Drop any
                // more; they show as a non-zero count word in the parked block
                let again: usize = parked.iter().filter(|(a, word)| *word != 0 && t.blocks.iter().any(|b| b.0 == *a && b.1 as usize == p && b.2 as usize == i)).map(|(_, word)| 0usize.wrapping_sub(*word)).sum();
                let n = t.released[p][i] as usize + again;
                if n >= 2 {
                    let how: Vec<&str> = t.order.iter().filter(|o| o.0 as usize == p && o.1 as usize == i).map(|o| payload::PATHS[o.2 as usize]).collect();
                    twice.push(format!("{} released {n} times ({how:?}{})", name(p, i), if again > 0 { format!(" + {again} drop(s) of a stale copy after the release") } else { String::new() }));
                } else if n == 0 {
                    never.push(name(p, i));
                }
            }
        }
        if !twice.is_empty() {
            return Err(Violation { oracle: "C20.release", kind: "released_twice", detail: format!("double free: {}; {td}", twice.join(", ")) });
        }
        if !never.is_empty() {
            let created: usize = t.created.iter().map(|c| c.iter().filter(|c| **c).count()).sum();
            return Err(Violation { oracle: "C20.release", kind: "leaked", detail: format!("{} of {created} payload(s) never released after every handle was dropped: {never:?}; {td}", never.len()) });
        }
        Ok(())
    })
}

fn account(w: &Workload, l: &Log, tbl: &Table) {
    let overflow_lost = if l.stop_called || l.end != ConsumerEnd::Eos { 0 } else { (l.accepted_total() - l.received.len().min(l.accepted_total())) as u32 };
    let queued_at_teardown = l.teardown.as_ref().map(|t| t.fill).unwrap_or(0);
    let nontrivial = l.received_while_producer_alive > 0
        || l.parked_before_close > 0
        || overflow_lost > 0
        || l.stop_during_send > 0
        || l.received_after_close > 0
        || l.would_block > 0
        || queued_at_teardown > 0;
    LAST_NONTRIVIAL.with(|c| c.set(nontrivial));
    let (created, by_path) = tbl.with(|t| (t.created.iter().map(|c| c.iter().filter(|c| **c).count()).sum::<usize>(), t.by_path));
    STATS.with(|s| {
        let mut s = s.borrow_mut();
        s.executions_completed += 1;
        if nontrivial {
            s.nontrivial += 1;
        }
        s.samples_accepted += l.accepted_total() as u64;
        s.samples_received += l.received.len() as u64;
        s.samples_lost_to_overflow += overflow_lost as u64;
        s.payloads_created += created as u64;
        for (k, n) in by_path.iter().enumerate() {
            s.released_by[k] += *n as u64;
        }
        s.hit("overflow_drop_oldest_or_drop_new", overflow_lost);
        s.hit("send_met_possibly_full_ring", l.overflow_allowance());
        s.hit("try_send_would_block", l.would_block);
        s.hit("stop_during_send", l.stop_during_send);
        s.hit("last_source_dropped_with_items_queued", l.last_drop_with_unreceived);
        s.hit("sample_drained_after_close", l.received_after_close);
        s.hit("recv_parked_before_close", l.parked_before_close);
        s.hit("recv_parked", l.parked);
        s.hit("sample_received_while_producer_alive", l.received_while_producer_alive);
        s.hit("stop_called", l.stop_called as u32);
        s.hit("consumer_abandoned_track", (l.end == ConsumerEnd::Abandoned) as u32);
        s.hit("consumer_abandoned_without_recv", (l.end == ConsumerEnd::Abandoned && l.received.is_empty()) as u32);
        s.hit("consumer_stalled_then_drained", l.stalled);
        s.hit("queue_released_overflow_victim", by_path[payload::Path::QueueOverflowOldest as usize] + by_path[payload::Path::QueueOverflowNewest as usize]);
        s.hit("payload_released_outside_known_paths", by_path[payload::Path::Elsewhere as usize]);
        if let Some(t) = &l.teardown {
            let cap = w.capacity;
            let class = if t.fill == 0 { 0 } else if t.fill < cap { 1 } else { 2 };
            s.teardown[class] += 1;
            s.hit(["teardown_empty", "teardown_partly_filled", "teardown_with_full_ring"][class], 1);
            if class == 2 {
                *s.teardown_full_by_capacity.entry(cap).or_insert(0) += 1;
                s.hit(
                    match cap {
                        1 => "teardown_with_full_ring_capacity_1",
                        2 => "teardown_with_full_ring_capacity_2",
                        4 => "teardown_with_full_ring_capacity_4",
                        _ => "teardown_with_full_ring_capacity_other",
                    },
                    1,
                );
            }
            // occupied slots run past the end of the buffer and continue at slot 0
            s.hit("teardown_with_wrapped_ring", (t.fill > 0 && t.head % cap + t.fill > cap) as u32);
            s.hit("teardown_with_head_off_slot_0", (t.fill > 0 && t.head % cap != 0) as u32);
            s.hit(if t.handle == "source" { "last_handle_was_a_source" } else { "last_handle_was_the_track" }, 1);
            s.hit("last_handle_dropped_by_consumer", (t.by == "consumer") as u32);
            s.hit("teardown_after_stop", (l.stop_called && t.fill > 0) as u32);
            s.hit("teardown_nonempty_several_producers", (t.fill > 0 && l.accepted.iter().filter(|a| !a.is_empty()).count() >= 2) as u32);
        }
    });
}
