//! Payload accounting for oracle C20.release: every sample carries a `bytes::Bytes` made with
//! `Bytes::from_owner(Tracked)`; `Tracked::drop` counts the release of payload (producer, index)
//! in the table of the execution in progress, together with the path that released it.
//!
//! A payload released a second time means that `Bytes`' drop runs on a reference-count block
//! that was already freed. So that this stays observable (and harmless to the exploring process)
//! the process allocator keeps the blocks of released payloads in a quarantine until the
//! execution has been judged: the freed block stays mapped and unchanged, its reference count
//! reads 0, and a further drop of a stale copy of the same `Bytes` either trips bytes' own
//! `debug_assert!(old_cnt > 0 ..)` (profile `sim` keeps debug assertions: a panic inside the run,
//! classified as C20.release / released_twice) or leaves a non-zero count behind, which the scan
//! at the end of the execution reports. The quarantine relies on the layout of bytes 1.12's
//! private `Owned<T>` (`#[repr(C)] { ref_cnt: AtomicUsize, owner: T }`); `selftest()` checks
//! that assumption at start-up and switches the quarantine off should it not hold (a double
//! release is then left to Miri and to glibc's own detection, which kills the worker process =
//! C20.ub / process_crash).
use bytes::Bytes;
use std::alloc::{GlobalAlloc, Layout, System};
use std::sync::atomic::{AtomicBool, AtomicUsize, Ordering};
use std::sync::{Arc, Mutex};

// ---------------------------------------------------------------------------------------------
// allocator with a quarantine for the reference-count blocks of released payloads
// ---------------------------------------------------------------------------------------------
pub struct QuarantineAlloc;

const QCAP: usize = 512;
/// address of the block whose deallocation (imminent, same thread, no scheduling point in
/// between) is to be parked instead of carried out
static PENDING: AtomicUsize = AtomicUsize::new(0);
static QUARANTINE_ON: AtomicBool = AtomicBool::new(false);
static QLEN: AtomicUsize = AtomicUsize::new(0);
#[allow(clippy::declare_interior_mutable_const)]
const ZERO: AtomicUsize = AtomicUsize::new(0);
static QPTR: [AtomicUsize; QCAP] = [ZERO; QCAP];

const OWNED_LAYOUT: Layout = Layout::new::<OwnedShape>();
/// what bytes allocates for `Bytes::from_owner(Tracked)`
#[repr(C)]
struct OwnedShape {
    _ref_cnt: AtomicUsize,
    _owner: Tracked,
}
const OWNER_OFFSET: usize = std::mem::offset_of!(OwnedShape, _owner);

unsafe impl GlobalAlloc for QuarantineAlloc {
    #[inline]
    unsafe fn alloc(&self, l: Layout) -> *mut u8 {
        System.alloc(l)
    }
    #[inline]
    unsafe fn alloc_zeroed(&self, l: Layout) -> *mut u8 {
        System.alloc_zeroed(l)
    }
    #[inline]
    unsafe fn realloc(&self, p: *mut u8, l: Layout, n: usize) -> *mut u8 {
        System.realloc(p, l, n)
    }
    #[inline]
    unsafe fn dealloc(&self, p: *mut u8, l: Layout) {
        if l.size() == OWNED_LAYOUT.size() && p as usize == PENDING.load(Ordering::Relaxed) && l.align() == OWNED_LAYOUT.align() {
            PENDING.store(0, Ordering::Relaxed);
            let n = QLEN.load(Ordering::Relaxed);
            if n < QCAP {
                QPTR[n].store(p as usize, Ordering::Relaxed);
                QLEN.store(n + 1, Ordering::Release);
                return;
            }
        }
        System.dealloc(p, l)
    }
}

/// (block address, its reference-count word) of every parked block. 0 = released once and not
/// touched again; anything else = `Bytes::drop` ran again on the freed block.
pub fn peek_quarantine() -> Vec<(usize, usize)> {
    let n = QLEN.load(Ordering::Acquire).min(QCAP);
    (0..n)
        .map(|k| {
            let p = QPTR[k].load(Ordering::Relaxed);
            // Safety: a parked block is still allocated (this allocator did not pass the free on)
            (p, unsafe { (*(p as *const AtomicUsize)).load(Ordering::Relaxed) })
        })
        .collect()
}

/// peek, then really free the parked blocks
pub fn flush_quarantine() -> Vec<(usize, usize)> {
    let v = peek_quarantine();
    QLEN.store(0, Ordering::Release);
    for (p, _) in &v {
        // Safety: parked by dealloc() above with exactly this layout, freed nowhere else
        unsafe { System.dealloc(*p as *mut u8, OWNED_LAYOUT) };
    }
    v
}

// ---------------------------------------------------------------------------------------------
// release table of one execution
// ---------------------------------------------------------------------------------------------
/// who let go of a payload
#[derive(Clone, Copy, Debug, PartialEq, Eq)]
pub enum Path {
    /// the consumer dropped a sample recv() had handed to it
    Consumer = 0,
    /// inside try_send of this very sample: the push was refused (WouldBlock / Closed)
    ProducerRefusedPush = 1,
    /// inside send / send_many of a later sample: the queue was full and dropped its oldest
    QueueOverflowOldest = 2,
    /// inside send / send_many of this very sample: the queue was full and the consumer held the
    /// pop lock (or the re-push failed), so the new sample was discarded
    QueueOverflowNewest = 3,
    /// inside the drop of a source or track handle: SpscRing::drop released what was still queued
    RingDrop = 4,
    /// anywhere else (after the execution, while unwinding)
    Elsewhere = 5,
}
pub const PATHS: [&str; 6] = ["consumer_after_recv", "producer_refused_push", "queue_overflow_dropped_oldest", "queue_overflow_discarded_new", "ring_drop_at_teardown", "elsewhere"];

/// what the logical thread that runs right now is doing (per shuttle task)
#[derive(Clone, Copy, Debug, PartialEq, Eq)]
pub enum Ctx {
    Idle,
    /// inside a push call for samples first..first+n of producer p
    Push { p: u16, first: u32, n: u32, refusing: bool },
    ConsumerDrop,
    HandleDrop,
}

#[derive(Debug, Default)]
pub struct TableInner {
    /// per producer, per index: was the payload created, how often was it released
    pub created: Vec<Vec<bool>>,
    pub released: Vec<Vec<u8>>,
    /// per producer: index created last
    pub last_created: Vec<Option<u32>>,
    pub by_path: [u32; 6],
    /// (address of the reference-count block, producer, index) of every release
    pub blocks: Vec<(usize, u16, u32)>,
    ctx: Vec<(usize, Ctx)>,
    /// releases in order: (producer, index, path)
    pub order: Vec<(u16, u32, Path)>,
}

impl TableInner {
    /// releases in text form, in order (for the log of a failing run)
    pub fn order_text(&self) -> Vec<String> {
        self.order.iter().map(|(p, i, path)| format!("p{p}#{i}:{}", PATHS[*path as usize])).collect()
    }
}

pub struct Table(Mutex<TableInner>);

impl Table {
    pub fn new(pushes_per_producer: &[u32]) -> Arc<Table> {
        Arc::new(Table(Mutex::new(TableInner {
            created: pushes_per_producer.iter().map(|n| vec![false; *n as usize]).collect(),
            released: pushes_per_producer.iter().map(|n| vec![0; *n as usize]).collect(),
            last_created: vec![None; pushes_per_producer.len()],
            ..Default::default()
        })))
    }
    pub fn with<R>(&self, f: impl FnOnce(&mut TableInner) -> R) -> R {
        // never contended and never held across a scheduling point
        f(&mut self.0.lock().unwrap_or_else(|e| e.into_inner()))
    }
    pub fn try_with<R>(&self, f: impl FnOnce(&mut TableInner) -> R) -> Option<R> {
        self.0.try_lock().ok().map(|mut g| f(&mut g))
    }
    pub fn release_count(&self, p: u32, i: u32) -> u8 {
        self.with(|t| t.released.get(p as usize).and_then(|r| r.get(i as usize)).copied().unwrap_or(0))
    }
    /// payloads created and not released so far
    pub fn outstanding(&self) -> usize {
        self.with(|t| t.created.iter().zip(&t.released).map(|(c, r)| c.iter().zip(r).filter(|(c, r)| **c && **r == 0).count()).sum())
    }
}

fn current_task() -> Option<usize> {
    if crate::exec::in_exec() && !std::thread::panicking() {
        shuttle::current::get_current_task().map(usize::from)
    } else {
        None
    }
}

/// the calling logical thread announces what it is about to do
pub fn set_ctx(t: &Table, c: Ctx) {
    let Some(me) = current_task() else { return };
    t.with(|t| match t.ctx.iter_mut().find(|e| e.0 == me) {
        Some(e) => e.1 = c,
        None => t.ctx.push((me, c)),
    });
}

// ---------------------------------------------------------------------------------------------
// the owner behind every payload
// ---------------------------------------------------------------------------------------------
pub struct Tracked {
    p: u16,
    i: u32,
    bytes: &'static [u8],
    table: Arc<Table>,
}

impl AsRef<[u8]> for Tracked {
    fn as_ref(&self) -> &[u8] {
        self.bytes
    }
}

impl Drop for Tracked {
    fn drop(&mut self) {
        let block = self as *const Tracked as usize - OWNER_OFFSET;
        let me = current_task();
        let (p, i) = (self.p, self.i);
        self.table.with(|t| {
            let path = match me.and_then(|me| t.ctx.iter().find(|e| e.0 == me)).map(|e| e.1) {
                Some(Ctx::ConsumerDrop) => Path::Consumer,
                Some(Ctx::HandleDrop) => Path::RingDrop,
                Some(Ctx::Push { p: pp, first, n, refusing }) => {
                    let own = pp == p && i >= first && i < first + n && t.last_created.get(p as usize).copied().flatten() == Some(i);
                    match (own, refusing) {
                        (true, true) => Path::ProducerRefusedPush,
                        (true, false) => Path::QueueOverflowNewest,
                        (false, _) => Path::QueueOverflowOldest,
                    }
                }
                _ => Path::Elsewhere,
            };
            if let Some(r) = t.released.get_mut(p as usize).and_then(|r| r.get_mut(i as usize)) {
                *r = r.saturating_add(1);
            }
            t.by_path[path as usize] += 1;
            t.blocks.push((block, p, i));
            t.order.push((p, i, path));
        });
        if QUARANTINE_ON.load(Ordering::Relaxed) {
            PENDING.store(block, Ordering::Relaxed);
        }
    }
}

/// the payload of sample i of producer p: `bytes` behind an owner that reports its release
pub fn tracked_bytes(table: &Arc<Table>, p: u32, i: u32, bytes: &'static [u8]) -> Bytes {
    table.with(|t| {
        if let Some(c) = t.created.get_mut(p as usize).and_then(|c| c.get_mut(i as usize)) {
            *c = true;
        }
        if let Some(l) = t.last_created.get_mut(p as usize) {
            *l = Some(i);
        }
    });
    Bytes::from_owner(Tracked { p: p as u16, i, bytes, table: table.clone() })
}

// ---------------------------------------------------------------------------------------------
// start-up self-test
// ---------------------------------------------------------------------------------------------
#[derive(Clone, Debug)]
pub struct SelfTest {
    pub quarantine: bool,
    pub single_release_counted_once: bool,
    pub double_release_detected: bool,
    pub how: &'static str,
}

/// Checks the two things the release oracle rests on, on this build: one drop of the `Bytes`
/// runs the owner's Drop exactly once and parks a block whose count word reads 0; a second drop
/// of a stale bitwise copy is noticed. Leaves the quarantine on if and only if both hold.
pub fn selftest() -> SelfTest {
    flush_quarantine();
    QUARANTINE_ON.store(true, Ordering::Relaxed);
    let t = Table::new(&[2]);
    drop(tracked_bytes(&t, 0, 0, b"x"));
    let q = peek_quarantine();
    let single = t.release_count(0, 0) == 1 && q.len() == 1 && q[0].1 == 0 && t.with(|t| t.blocks.first().map(|b| b.0)) == Some(q[0].0);
    let mut double = false;
    let mut how = "not tried";
    if single {
        let b = tracked_bytes(&t, 0, 1, b"y");
        // Safety: none in general - this is the defect being rehearsed. The quarantine (just
        // shown to work) keeps the block alive, so the second drop touches valid memory.
        let stale = unsafe { std::ptr::read(&b) };
        drop(b);
        let hook = std::panic::take_hook();
        std::panic::set_hook(Box::new(|_| {}));
        let r = std::panic::catch_unwind(std::panic::AssertUnwindSafe(move || drop(stale)));
        std::panic::set_hook(hook);
        let q = peek_quarantine();
        let marked = q.len() == 2 && q[1].1 != 0;
        double = marked && t.release_count(0, 1) == 1;
        how = match (r.is_err(), marked) {
            (true, true) => "bytes' debug assertion panics on the second drop and the parked block's count word is non-zero",
            (false, true) => "the parked block's count word is non-zero after the second drop",
            _ => "second drop went unnoticed",
        };
    }
    flush_quarantine();
    let ok = single && double;
    QUARANTINE_ON.store(ok, Ordering::Relaxed);
    SelfTest { quarantine: ok, single_release_counted_once: single, double_release_detected: double, how }
}

/// text of bytes' debug assertion that fires when a `Bytes` backed by an owner is dropped after
/// its reference count already reached zero
pub const BYTES_DOUBLE_DROP_PANIC: &str = "expected non-zero refcount and no underflow";
