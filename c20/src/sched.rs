//! A pass-through wrapper around any shuttle scheduler that mirrors the decisions shuttle
//! records itself (one step per `next_task` result / `next_u64` call). It gives the driver
//! (a) a hash of each execution's decision sequence, to count distinct schedules, and
//! (b) the schedule of a failing execution in shuttle's own text format, to cross-check the file
//!     shuttle persisted (FailurePersistence::File) and to fall back on should that file be missing.
use crate::exec::LAST_NONTRIVIAL;
use shuttle::scheduler::{Schedule, Scheduler, Task, TaskId};
use std::cell::RefCell;
use std::collections::HashSet;
use std::hash::Hasher;
use std::sync::atomic::{AtomicU64, Ordering};
use std::sync::Mutex;

/// bumped at every scheduling decision and at the start and end of every execution body; the
/// watchdog thread reads it to tell a hung execution (an endless loop that contains no
/// scheduling point, which shuttle's step bound cannot see) from a busy one
pub static PROGRESS: AtomicU64 = AtomicU64::new(0);
/// schedule of the execution in progress, readable from the watchdog thread
pub static CUR_SCHED: Mutex<Option<Schedule>> = Mutex::new(None);

pub fn current_schedule() -> Schedule {
    CUR_SCHED.lock().map(|g| g.clone()).unwrap_or(None).unwrap_or_default()
}

#[derive(Default)]
pub struct RecState {
    cur_hash: Option<std::collections::hash_map::DefaultHasher>,
    pub executions_started: u64,
    pub steps: u64,
    pub distinct: HashSet<u64>,
    pub distinct_nontrivial: HashSet<u64>,
}

thread_local! {
    pub static REC: RefCell<RecState> = RefCell::new(RecState::default());
}

impl RecState {
    /// close the books on the execution that just ended (completed = its body ran to the end)
    pub fn finish_execution(&mut self, completed: bool) {
        if let Some(h) = self.cur_hash.take() {
            let v = h.finish();
            self.distinct.insert(v);
            if completed && LAST_NONTRIVIAL.with(|c| c.get()) {
                self.distinct_nontrivial.insert(v);
            }
        }
    }
    pub fn reset_scenario(&mut self) {
        *self = RecState::default();
    }
}

pub struct Recording<S>(pub S);

impl<S: Scheduler> Scheduler for Recording<S> {
    fn new_execution(&mut self) -> Option<Schedule> {
        REC.with(|r| r.borrow_mut().finish_execution(true));
        let s = self.0.new_execution()?;
        REC.with(|r| {
            let mut r = r.borrow_mut();
            *CUR_SCHED.lock().unwrap_or_else(|e| e.into_inner()) = Some(Schedule::new(s.seed));
            r.cur_hash = Some(std::collections::hash_map::DefaultHasher::new());
            r.executions_started += 1;
        });
        Some(s)
    }

    fn next_task(&mut self, runnable: &[&Task], current: Option<TaskId>, is_yielding: bool) -> Option<TaskId> {
        let t = self.0.next_task(runnable, current, is_yielding)?;
        PROGRESS.fetch_add(1, Ordering::Relaxed);
        if let Some(s) = CUR_SCHED.lock().unwrap_or_else(|e| e.into_inner()).as_mut() {
            s.push_task(t);
        }
        REC.with(|r| {
            let mut r = r.borrow_mut();
            r.steps += 1;
            if let Some(h) = r.cur_hash.as_mut() {
                h.write_usize(usize::from(t));
            }
        });
        Some(t)
    }

    fn next_u64(&mut self) -> u64 {
        if let Some(s) = CUR_SCHED.lock().unwrap_or_else(|e| e.into_inner()).as_mut() {
            s.push_random();
        }
        REC.with(|r| {
            let mut r = r.borrow_mut();
            if let Some(h) = r.cur_hash.as_mut() {
                h.write_u8(0xff);
            }
        });
        self.0.next_u64()
    }
}
