//! <root>/known_findings.json — committed, read-only for this binary (it is never written here).
//! Same file and entry layout as rtcsim uses (id, property, oracle, status, what, pattern); for
//! property C20 the `pattern` object is interpreted as follows (every field optional, all given
//! fields must hold; an entry with an empty pattern matches nothing):
//!
//!   "scenario_class": "multi_producer_shared_ring" | "single_producer"
//!        structural class of the *workload* that failed: two or more threads push samples into
//!        the one ring (through a shared Arc<SampleStreamSource> or through clones — both feed
//!        the same SpscRing), or at most one does.
//!   "kind": one string or a list of strings — what the oracle saw:
//!        recv_deadlock_after_close   shuttle deadlock: every producer finished and dropped its
//!                                    handle, the consumer is parked in recv() for ever
//!        undrained_at_eos            EndOfStream although an accepted sample was never delivered
//!                                    and the ring was never full
//!        lost_beyond_overflow        more samples missing than full-ring drops can explain
//!        duplicate / more_received_than_pushed / corrupt_sample / never_accepted / reordered /
//!        wrong_end / closed_while_sender_alive / drop_count / step_limit / panic
//!   "source_mode": "shared_arc" | "cloned"
//!   "max_producers": n      the workload has at most n producer threads
//!   "uses_stop": bool       the workload calls stop()
//!   "consumer": "drain" | "abandon" | "stop_then_abandon" | "stall"   what the consumer thread does
//!        (kinds of oracle C20.release: leaked / released_twice / released_while_queued)
//!
//! Entry field `oracle` is the exact oracle id ("C20.eos") or "C20.*".
//! Only entries with status exactly "open" can match; "fixed: ..." entries suppress nothing.
use crate::workload::{SourceMode, Workload};
use serde_json::Value;

#[derive(Clone, Debug)]
pub struct Finding {
    pub id: String,
    pub oracle: String,
    pub what: String,
    pub pattern: Value,
}

pub fn load(root: &str) -> Result<Vec<Finding>, String> {
    let p = format!("{root}/known_findings.json");
    let s = match std::fs::read_to_string(&p) {
        Ok(s) => s,
        Err(_) => return Ok(vec![]),
    };
    let v: Value = serde_json::from_str(&s).map_err(|e| format!("{p} does not parse: {e}"))?;
    let arr = v.as_array().ok_or_else(|| format!("{p}: top level is not an array"))?;
    let mut out = vec![];
    for e in arr {
        if e.get("property").and_then(|x| x.as_str()) != Some("C20") {
            continue;
        }
        if e.get("status").and_then(|x| x.as_str()) != Some("open") {
            continue;
        }
        out.push(Finding {
            id: e.get("id").and_then(|x| x.as_str()).unwrap_or("?").to_string(),
            oracle: e.get("oracle").and_then(|x| x.as_str()).unwrap_or("").to_string(),
            what: e.get("what").and_then(|x| x.as_str()).unwrap_or("").to_string(),
            pattern: e.get("pattern").cloned().unwrap_or(Value::Null),
        });
    }
    Ok(out)
}

impl Finding {
    pub fn matches(&self, oracle: &str, kind: &str, w: &Workload) -> bool {
        if !(self.oracle == oracle || self.oracle == "C20.*") {
            return false;
        }
        let Some(p) = self.pattern.as_object() else { return false };
        if p.is_empty() {
            return false;
        }
        for (k, v) in p {
            let ok = match k.as_str() {
                "scenario_class" => v.as_str() == Some(w.scenario_class()),
                "kind" => match v {
                    Value::String(s) => s == kind,
                    Value::Array(a) => a.iter().any(|x| x.as_str() == Some(kind)),
                    _ => false,
                },
                "source_mode" => v.as_str() == Some(match w.mode { SourceMode::SharedArc => "shared_arc", SourceMode::Cloned => "cloned" }),
                "max_producers" => v.as_u64().map(|n| w.producers.len() as u64 <= n).unwrap_or(false),
                "uses_stop" => v.as_bool() == Some(w.has_stop()),
                "consumer" => v.as_str() == Some(w.consumer.label()),
                _ => false, // unknown constraint: refuse rather than waive
            };
            if !ok {
                return false;
            }
        }
        true
    }
}
