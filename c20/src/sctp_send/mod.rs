//! Second scenario family of this crate: the thread-interleaving part of property C12 ("data
//! channel messages keep their boundaries, channel and delivery mode ... for any number of
//! channels and concurrent senders"). 2..8 OS-thread senders call the real
//! `SctpTransport::send_data` of ONE association concurrently under shuttle's controlled
//! scheduler; the association's outbound queue lock (`SctpInner.outbound_queue`, a
//! `verif_hooks::sync::Mutex` under `--cfg rustrtc_verif`) is the scheduling point. The
//! single-threaded tokio simulation cannot reach these interleavings: a code region without
//! `.await` is atomic there, whatever it does with locks.
//!
//!   c20 c12 check <quick|thorough>   explore, judge, triage against known findings, write evidence
//!   c20 c12 --replay <replay.json>   re-run one persisted failing schedule (exit 1 = reproduced)
//!   c20 c12 --list <quick|thorough>  print the workloads of a tier
//!   c20 c12 --worker ...             internal
//!
//! Evidence: <root>/evidence/C12-threads.json (property_id "C12"); replays:
//! <root>/replays/C12-threads-*.json (+ .schedule.txt). Exit codes as for C20: 0 / 1 / 2.
pub mod exec;
pub mod workload;

use crate::sched::{self, Recording, REC};
use crate::workload::mix;
use crate::{newest_schedule_file, panic_text, process_cpu_time, root, seed_from_env, shuttle_config, slug, Kind, DEFAULT_SEED, MAX_FAILURES_PER_SCENARIO, MAX_STEPS};
use exec::{Prepared, ORACLE_TAG};
use serde_json::{json, Value};
use shuttle::scheduler::{PctScheduler, RandomScheduler, ReplayScheduler};
use shuttle::Runner;
use shuttle_engine::scheduler::serialization::serialize_schedule;
use std::collections::{BTreeMap, BTreeSet};
use std::io::{BufRead, Write};
use std::panic::{catch_unwind, AssertUnwindSafe};
use std::path::{Path, PathBuf};
use std::process::{Command, Stdio};
use std::sync::Arc;
use workload::{generate, Workload};

const PROP: &str = "C12";
/// file stem of everything this family writes (evidence, replays)
const STEM: &str = "C12-threads";
/// CPU time one execution may burn without a single scheduling decision before it is reported
/// as hung (a fragment loop that never ends also eats memory, so this is tighter than C20's)
const HANG_AFTER_CPU: std::time::Duration = std::time::Duration::from_millis(1000);
const STALL_AFTER_WALL: std::time::Duration = std::time::Duration::from_secs(180);
const EXIT_HANG: i32 = 3;
const EXIT_STALL: i32 = 4;
/// replay-inner: the recorded schedule cannot be followed by this build
const EXIT_DIVERGED: i32 = 5;

struct Tier {
    name: &'static str,
    scenarios: u32,
    random_per_scenario: usize,
    pct_per_scenario: usize,
}
fn tier(name: &str) -> Option<Tier> {
    // C12T_SCALE=n multiplies the schedules per scenario (validation at n x budget)
    let scale = std::env::var("C12T_SCALE").ok().and_then(|v| v.parse::<usize>().ok()).unwrap_or(1).max(1);
    match name {
        "quick" => Some(Tier { name: "quick", scenarios: 256, random_per_scenario: 14000 * scale, pct_per_scenario: 6000 * scale }),
        "thorough" => Some(Tier { name: "thorough", scenarios: 2048, random_per_scenario: 28000 * scale, pct_per_scenario: 12000 * scale }),
        _ => None,
    }
}

/// scenario ids of a tier whose workloads are pairwise different
fn scenarios_of(seed: u64, t: &Tier) -> Vec<Workload> {
    let mut seen = BTreeSet::new();
    let mut out = vec![];
    for id in 0..t.scenarios {
        let w = generate(seed, id);
        let mut key = w.to_json();
        key.as_object_mut().unwrap().remove("id");
        if seen.insert(key.to_string()) {
            out.push(w);
        }
    }
    out
}

fn usage() -> i32 {
    eprintln!("usage: c20 c12 check <quick|thorough> | c20 c12 --replay <file.json> [--log] | c20 c12 --list <quick|thorough>");
    2
}

pub fn main(args: &[String]) -> i32 {
    match args.first().map(|s| s.as_str()) {
        Some("check") => match args.get(1).and_then(|t| tier(t)) {
            Some(t) => check(t),
            None => usage(),
        },
        Some("--replay") => match args.get(1) {
            Some(p) => replay_outer(p, args.iter().any(|a| a == "--log")),
            None => usage(),
        },
        Some("--replay-inner") => match args.get(1) {
            Some(p) => replay(p, args.iter().any(|a| a == "--log")),
            None => usage(),
        },
        Some("--list") => match args.get(1).and_then(|t| tier(t)) {
            Some(t) => {
                for w in scenarios_of(seed_from_env().unwrap_or(DEFAULT_SEED), &t) {
                    println!("{}", w.to_json());
                }
                0
            }
            None => usage(),
        },
        Some("--worker") => worker(&args[1..]),
        Some("--explore-file") => match args.get(1) {
            Some(p) => explore_file(p),
            None => usage(),
        },
        _ => usage(),
    }
}

/// true if the replay file at `path` belongs to this family (lets `c20 --replay` route by content)
pub fn owns_replay(path: &str) -> bool {
    std::fs::read_to_string(path).ok().and_then(|t| serde_json::from_str::<Value>(&t).ok()).map(|d| d["property"] == json!(PROP) || d["workload"]["scenario_family"] == json!("sctp_send")).unwrap_or(false)
}

// =============================================================================================
// process-wide set-up
// =============================================================================================
fn install_process_hooks() {
    std::panic::set_hook(Box::new(|_| {}));
    rustrtc::verif_hooks::sync::set_sched_point(exec::sched_point);
    // the SCTP cookie key and anything else that asks rustrtc's random helper: pinned
    rustrtc::verif_hooks::set_random_source(Some(Box::new(|b: &mut [u8]| b.fill(0x20))));
}

fn make_certificate() -> Result<rustrtc::transports::dtls::Certificate, String> {
    // before the random source is pinned: key generation wants real entropy, and nothing the
    // senders do depends on the certificate (the DTLS handshake is never run)
    rustrtc::transports::dtls::generate_certificate().map_err(|e| format!("generate_certificate: {e}"))
}

#[derive(Clone, Default)]
struct HangCtx {
    active: bool,
    scenario: u32,
    scheduler: String,
    scheduler_seed: u64,
    yield_every: u32,
}
static HANG_CTX: std::sync::Mutex<HangCtx> = std::sync::Mutex::new(HangCtx { active: false, scenario: 0, scheduler: String::new(), scheduler_seed: 0, yield_every: 0 });
static EXECUTIONS_IN_SCENARIO: std::sync::atomic::AtomicU64 = std::sync::atomic::AtomicU64::new(0);
fn set_hang_ctx(c: HangCtx) {
    *HANG_CTX.lock().unwrap_or_else(|e| e.into_inner()) = c;
}

/// an execution that burns CPU without reaching a scheduling decision loops inside rustrtc
/// (e.g. a fragment loop whose offset never advances); shuttle's step bound cannot see that
fn spawn_watchdog(on_hang: impl Fn(HangCtx, Value) + Send + 'static) {
    std::thread::spawn(move || {
        let mut last = (sched::PROGRESS.load(std::sync::atomic::Ordering::Relaxed), std::time::Instant::now(), process_cpu_time());
        loop {
            std::thread::sleep(std::time::Duration::from_millis(50));
            let now = sched::PROGRESS.load(std::sync::atomic::Ordering::Relaxed);
            let ctx = HANG_CTX.lock().unwrap_or_else(|e| e.into_inner()).clone();
            if now != last.0 || !ctx.active {
                last = (now, std::time::Instant::now(), process_cpu_time());
                continue;
            }
            let burnt = match (last.2, process_cpu_time()) {
                (Some(a), Some(b)) => b.saturating_sub(a),
                _ => last.1.elapsed() / 5,
            };
            if burnt < HANG_AFTER_CPU && last.1.elapsed() >= STALL_AFTER_WALL {
                eprintln!("worker made no progress and used no CPU for {} s", STALL_AFTER_WALL.as_secs());
                std::process::exit(EXIT_STALL);
            }
            if burnt >= HANG_AFTER_CPU {
                let s = sched::current_schedule();
                let f = json!({
                    "oracle": "C12.progress", "kind": "hang",
                    "detail": format!("an execution burnt {} ms of CPU time without one scheduling decision: a sender loops inside send_data without reaching the queue lock or returning", HANG_AFTER_CPU.as_millis()),
                    "scheduler": ctx.scheduler, "scheduler_seed": ctx.scheduler_seed, "yield_every": ctx.yield_every,
                    "schedule": serialize_schedule(&s), "schedule_steps": s.len(), "schedule_file": Value::Null,
                    "persisted_matches_recorder": Value::Null, "log": Value::Null, "log_hash": "0000000000000000",
                });
                on_hang(ctx, f);
                std::process::exit(EXIT_HANG);
            }
        }
    });
}

/// (oracle, kind, detail) of a failed execution
fn classify(msg: &str) -> (String, String, String) {
    if let Some(rest) = msg.strip_prefix(ORACLE_TAG) {
        let mut it = rest.splitn(3, '|');
        let (o, k, d) = (it.next().unwrap_or("?"), it.next().unwrap_or("?"), it.next().unwrap_or(""));
        return (o.into(), k.into(), d.into());
    }
    let first = msg.lines().next().unwrap_or("");
    if msg.contains("deadlock!") {
        return ("C12.progress".into(), "deadlock".into(), format!("senders parked for ever (on a channel's send lock or on the flow-control wait) with nobody left to wake them; shuttle: {first}"));
    }
    if msg.contains("exceeded max_steps") {
        return ("C12.progress".into(), "step_limit".into(), format!("no end within {MAX_STEPS} scheduling steps: {first}"));
    }
    ("C12.progress".into(), "panic".into(), format!("panic inside the run: {first}"))
}

struct Failure {
    oracle: String,
    kind: String,
    detail: String,
    scheduler: String,
    scheduler_seed: u64,
    yield_every: u32,
    schedule: String,
    schedule_steps: usize,
    schedule_file: Option<String>,
    persisted_matches_recorder: Option<bool>,
    log: Value,
    log_hash: u64,
}

// =============================================================================================
// one scenario, explored in this process
// =============================================================================================
fn explore_scenario(p: Arc<Prepared>, seed: u64, t: &Tier, workdir: &Path) -> Value {
    let t0 = std::time::Instant::now();
    let w = &p.w;
    REC.with(|r| r.borrow_mut().reset_scenario());
    exec::STATS.with(|s| *s.borrow_mut() = exec::Stats::default());
    let mut failures: Vec<Failure> = vec![];
    let mut failure_counts: BTreeMap<String, u64> = BTreeMap::new();
    let mut skipped = 0usize;
    let mut per_sched: BTreeMap<String, u64> = BTreeMap::new();
    let mut chunk = 0u64;
    for (is_pct, budget) in [(false, t.random_per_scenario), (true, t.pct_per_scenario)] {
        let mut remaining = budget;
        while remaining > 0 {
            if failure_counts.values().sum::<u64>() as usize >= MAX_FAILURES_PER_SCENARIO {
                skipped += remaining;
                break;
            }
            let kind = if is_pct { Kind::Pct(2 + (chunk % 4) as usize) } else { Kind::Random };
            let sseed = mix(seed, 0xC125_C4ED ^ ((w.id as u64) << 20), chunk);
            chunk += 1;
            exec::set_yield_every(kind.yield_every());
            set_hang_ctx(HangCtx { active: true, scenario: w.id, scheduler: kind.label(), scheduler_seed: sseed, yield_every: kind.yield_every() });
            let before = REC.with(|r| r.borrow().executions_started);
            let cfg = shuttle_config(Some(workdir.to_path_buf()));
            let p2 = p.clone();
            let res = catch_unwind(AssertUnwindSafe(|| match kind {
                Kind::Random => Runner::new(Recording(RandomScheduler::new_from_seed(sseed, remaining)), cfg).run(move || exec::body(&p2)),
                Kind::Pct(d) => Runner::new(Recording(PctScheduler::new_from_seed(sseed, d, remaining)), cfg).run(move || exec::body(&p2)),
            }));
            exec::leave_exec();
            set_hang_ctx(HangCtx::default());
            let ran = (REC.with(|r| r.borrow().executions_started) - before) as usize;
            EXECUTIONS_IN_SCENARIO.fetch_add(ran as u64, std::sync::atomic::Ordering::Relaxed);
            *per_sched.entry(if is_pct { "pct".into() } else { "random".into() }).or_insert(0) += ran as u64;
            remaining = remaining.saturating_sub(ran.max(1));
            match res {
                Ok(_) => REC.with(|r| r.borrow_mut().finish_execution(true)),
                Err(pl) => {
                    REC.with(|r| r.borrow_mut().finish_execution(false));
                    let msg = panic_text(&*pl);
                    let log = exec::current_log_summary();
                    let (oracle, k, detail) = classify(&msg);
                    let key = format!("{oracle}|{k}");
                    let first_of_its_kind = !failure_counts.contains_key(&key);
                    *failure_counts.entry(key).or_insert(0) += 1;
                    let s = sched::current_schedule();
                    let recorded = serialize_schedule(&s);
                    let file = newest_schedule_file(workdir);
                    let persisted = file.as_ref().and_then(|f| std::fs::read_to_string(f).ok());
                    let mut kept = None;
                    if let Some(f) = &file {
                        if first_of_its_kind {
                            let dest = workdir.join(format!("s{}-{}.schedule.txt", w.id, failures.len()));
                            if std::fs::rename(f, &dest).is_ok() {
                                kept = Some(dest.to_string_lossy().into_owned());
                            }
                        } else {
                            let _ = std::fs::remove_file(f);
                        }
                    }
                    if first_of_its_kind {
                        failures.push(Failure {
                            oracle,
                            kind: k,
                            detail,
                            scheduler: kind.label(),
                            scheduler_seed: sseed,
                            yield_every: kind.yield_every(),
                            schedule: persisted.clone().unwrap_or(recorded.clone()),
                            schedule_steps: s.len(),
                            schedule_file: kept,
                            persisted_matches_recorder: persisted.as_ref().map(|p| p.trim() == recorded.trim()),
                            log: log.as_ref().map(|l| l.0.clone()).unwrap_or(Value::Null),
                            log_hash: log.as_ref().map(|l| l.1).unwrap_or(0),
                        });
                    }
                }
            }
        }
    }
    let (executions, steps, distinct, distinct_nt, hashes) = REC.with(|r| {
        let r = r.borrow();
        // order-independent digest of the set of schedules seen (determinism check across runs)
        let digest = r.distinct.iter().fold(0u64, |a, h| a ^ h.wrapping_mul(0x9E37_79B9_7F4A_7C15).rotate_left((h & 31) as u32));
        (r.executions_started, r.steps, r.distinct.len(), r.distinct_nontrivial.len(), digest)
    });
    let stats = exec::STATS.with(|s| s.borrow().clone());
    json!({
        "scenario": w.id,
        "executions": executions,
        "executions_completed": stats.executions_completed,
        "executions_nontrivial": stats.nontrivial,
        "steps": steps,
        "distinct_schedules": distinct,
        "distinct_nontrivial_schedules": distinct_nt,
        "schedule_set_digest": format!("{hashes:016x}"),
        "by_scheduler": per_sched,
        "budget_skipped": skipped,
        "messages_submitted": stats.messages_submitted,
        "chunks_queued": stats.chunks_queued,
        "probes": stats.probes,
        "failure_counts": failure_counts,
        "failures": failures.iter().map(|f| json!({
            "oracle": f.oracle, "kind": f.kind, "detail": f.detail, "scheduler": f.scheduler,
            "scheduler_seed": f.scheduler_seed, "yield_every": f.yield_every, "schedule": f.schedule,
            "schedule_steps": f.schedule_steps, "schedule_file": f.schedule_file,
            "persisted_matches_recorder": f.persisted_matches_recorder,
            "log": f.log, "log_hash": format!("{:016x}", f.log_hash),
        })).collect::<Vec<_>>(),
        "wall_ms": t0.elapsed().as_millis() as u64,
    })
}

// =============================================================================================
// worker process: c12 --worker <tier> <seed> <workdir> <id,id,...>
// =============================================================================================
fn worker(a: &[String]) -> i32 {
    let (Some(t), Some(seed), Some(dir), Some(ids)) = (a.first().and_then(|t| tier(t)), a.get(1).and_then(|s| s.parse::<u64>().ok()), a.get(2), a.get(3)) else {
        return usage();
    };
    let dir = PathBuf::from(dir);
    if std::fs::create_dir_all(&dir).is_err() {
        eprintln!("cannot create {dir:?}");
        return 2;
    }
    let cert = match make_certificate() {
        Ok(c) => c,
        Err(e) => {
            eprintln!("{e}");
            return 2;
        }
    };
    install_process_hooks();
    spawn_watchdog(|ctx, failure| {
        let line = json!({ "hang": ctx.scenario, "executions": EXECUTIONS_IN_SCENARIO.load(std::sync::atomic::Ordering::Relaxed) + 1, "failure": failure });
        let mut o = std::io::stdout().lock();
        let _ = writeln!(o, "{line}");
        let _ = o.flush();
    });
    let out = std::io::stdout();
    for id in ids.split(',').filter(|s| !s.is_empty()) {
        let Ok(id) = id.parse::<u32>() else { return 2 };
        let w = generate(seed, id);
        if let Err(e) = w.validate() {
            eprintln!("scenario {id}: {e}");
            return 2;
        }
        EXECUTIONS_IN_SCENARIO.store(0, std::sync::atomic::Ordering::Relaxed);
        {
            let mut o = out.lock();
            let _ = writeln!(o, "{}", json!({ "begin": id }));
            let _ = o.flush();
        }
        let r = explore_scenario(Arc::new(Prepared::new(w, cert.clone())), seed, &t, &dir);
        let mut o = out.lock();
        let _ = writeln!(o, "{r}");
        let _ = o.flush();
    }
    0
}

struct WorkerOutcome {
    results: Vec<Value>,
    crashed: Option<(u32, String)>,
    unfinished: Vec<u32>,
}

fn run_worker(exe: &Path, t: &Tier, seed: u64, dir: &Path, ids: &[u32]) -> Result<WorkerOutcome, String> {
    std::fs::create_dir_all(dir).map_err(|e| format!("{dir:?}: {e}"))?;
    let errlog = std::fs::OpenOptions::new().create(true).append(true).open(dir.join("stderr.log")).map_err(|e| e.to_string())?;
    let mut child = Command::new(exe)
        .arg("c12")
        .arg("--worker")
        .arg(t.name)
        .arg(seed.to_string())
        .arg(dir)
        .arg(ids.iter().map(|i| i.to_string()).collect::<Vec<_>>().join(","))
        .stdout(Stdio::piped())
        .stderr(Stdio::from(errlog))
        .spawn()
        .map_err(|e| format!("spawn worker: {e}"))?;
    let mut results = vec![];
    let mut begun: Option<u32> = None;
    let mut done: BTreeSet<u32> = BTreeSet::new();
    let mut hung = false;
    for line in std::io::BufReader::new(child.stdout.take().unwrap()).lines() {
        let line = line.map_err(|e| e.to_string())?;
        let v: Value = serde_json::from_str(&line).map_err(|e| format!("worker output does not parse: {e}: {line}"))?;
        if let Some(b) = v.get("begin").and_then(|b| b.as_u64()) {
            begun = Some(b as u32);
        } else if let Some(h) = v.get("hang").and_then(|b| b.as_u64()) {
            done.insert(h as u32);
            begun = None;
            hung = true;
            results.push(json!({
                "scenario": h, "executions": v["executions"], "executions_completed": v["executions"].as_u64().unwrap_or(1) - 1,
                "distinct_schedules": 0, "distinct_nontrivial_schedules": 0, "steps": 0, "budget_skipped": 0, "partial": true,
                "failure_counts": { "C12.progress|hang": 1 }, "failures": [v["failure"].clone()],
            }));
        } else {
            if let Some(s) = v.get("scenario").and_then(|s| s.as_u64()) {
                done.insert(s as u32);
            }
            begun = None;
            results.push(v);
        }
    }
    let st = child.wait().map_err(|e| e.to_string())?;
    let mut crashed = None;
    if hung && st.code() == Some(EXIT_HANG) {
        // reported in full by the worker's watchdog
    } else if !st.success() {
        let how = {
            #[cfg(unix)]
            {
                use std::os::unix::process::ExitStatusExt;
                match st.signal() {
                    Some(s) => format!("signal {s}"),
                    None => format!("exit code {:?}", st.code()),
                }
            }
            #[cfg(not(unix))]
            {
                format!("{st:?}")
            }
        };
        match begun {
            Some(b) if how.starts_with("signal") => crashed = Some((b, how)),
            Some(b) => return Err(format!("worker failed in scenario {b} ({how}); see {dir:?}/stderr.log")),
            None => return Err(format!("worker failed outside any scenario ({how}); see {dir:?}/stderr.log")),
        }
    }
    let unfinished = ids.iter().copied().filter(|i| !done.contains(i) && crashed.as_ref().map(|c| c.0 != *i).unwrap_or(true)).collect();
    Ok(WorkerOutcome { results, crashed, unfinished })
}

// =============================================================================================
// known findings: <root>/known_findings.json entries with property "C12" and, in `pattern`,
// "engine": "threads" (so that patterns written for the network simulation never match here).
// Other pattern fields, all optional: "kind" (string or list), "scenario_class" (string).
// Entry field `oracle` is the exact oracle id ("C12.boundary") or "C12.*". Only status "open".
// =============================================================================================
struct Known {
    id: String,
    oracle: String,
    what: String,
    pattern: Value,
}
fn load_known(root: &str) -> Result<Vec<Known>, String> {
    let p = format!("{root}/known_findings.json");
    let Ok(s) = std::fs::read_to_string(&p) else { return Ok(vec![]) };
    let v: Value = serde_json::from_str(&s).map_err(|e| format!("{p} does not parse: {e}"))?;
    let arr = v.as_array().ok_or_else(|| format!("{p}: top level is not an array"))?;
    Ok(arr
        .iter()
        .filter(|e| e["property"] == json!(PROP) && e["status"] == json!("open") && e["pattern"]["engine"] == json!("threads"))
        .map(|e| Known { id: e["id"].as_str().unwrap_or("?").into(), oracle: e["oracle"].as_str().unwrap_or("").into(), what: e["what"].as_str().unwrap_or("").into(), pattern: e["pattern"].clone() })
        .collect())
}
impl Known {
    fn matches(&self, oracle: &str, kind: &str, w: &Workload) -> bool {
        if !(self.oracle == oracle || self.oracle == "C12.*") {
            return false;
        }
        let Some(p) = self.pattern.as_object() else { return false };
        p.iter().all(|(k, v)| match k.as_str() {
            "engine" => v == &json!("threads"),
            "kind" => match v {
                Value::String(s) => s == kind,
                Value::Array(a) => a.iter().any(|x| x.as_str() == Some(kind)),
                _ => false,
            },
            "scenario_class" => v.as_str() == Some(w.scenario_class()),
            _ => false, // unknown constraint: refuse rather than waive
        })
    }
}

// =============================================================================================
// parent: fan out, merge, triage, evidence
// =============================================================================================
fn check(t: Tier) -> i32 {
    let t0 = std::time::Instant::now();
    let seed = match seed_from_env() {
        Ok(s) => s,
        Err(e) => {
            println!("HARNESS ERROR: {e}");
            return 2;
        }
    };
    let root = root();
    let known = match load_known(&root) {
        Ok(k) => k,
        Err(e) => {
            println!("HARNESS ERROR: {e}");
            return 2;
        }
    };
    let replays_dir = PathBuf::from(format!("{root}/replays"));
    let work = replays_dir.join(format!(".c12t-work-{}", std::process::id()));
    if let Err(e) = std::fs::create_dir_all(&work) {
        println!("HARNESS ERROR: cannot create {work:?}: {e}");
        return 2;
    }
    let exe = match std::env::current_exe() {
        Ok(e) => e,
        Err(e) => {
            println!("HARNESS ERROR: current_exe: {e}");
            return 2;
        }
    };
    let workloads = scenarios_of(seed, &t);
    for w in &workloads {
        if let Err(e) = w.validate() {
            println!("HARNESS ERROR: scenario {}: {e}", w.id);
            return 2;
        }
    }
    let by_id: BTreeMap<u32, Workload> = workloads.iter().map(|w| (w.id, w.clone())).collect();
    let nworkers = std::env::var("C20_WORKERS").ok().and_then(|v| v.parse::<usize>().ok()).unwrap_or_else(|| std::thread::available_parallelism().map(|n| n.get()).unwrap_or(4).min(12)).max(1);
    let mut order: Vec<&Workload> = workloads.iter().collect();
    order.sort_by_key(|w| std::cmp::Reverse((w.weight(), w.id)));
    // greedy deal onto the least loaded worker (execution cost differs a lot between workloads)
    let mut deals: Vec<(usize, Vec<u32>)> = vec![(0, vec![]); nworkers];
    for w in &order {
        let k = (0..nworkers).min_by_key(|k| (deals[*k].0, *k)).unwrap();
        deals[k].0 += w.weight();
        deals[k].1.push(w.id);
    }
    let tref = &t;
    let outcomes: Vec<Result<(Vec<Value>, Vec<(u32, String)>), String>> = std::thread::scope(|s| {
        let hs: Vec<_> = deals
            .iter()
            .enumerate()
            .map(|(k, (_, ids))| {
                let (exe, work) = (exe.clone(), work.clone());
                s.spawn(move || {
                    let mut todo = ids.clone();
                    let mut results = vec![];
                    let mut crashes = vec![];
                    let mut round = 0;
                    while !todo.is_empty() {
                        let o = run_worker(&exe, tref, seed, &work.join(format!("w{k}-{round}")), &todo)?;
                        results.extend(o.results);
                        if let Some(c) = o.crashed {
                            crashes.push(c);
                        }
                        todo = o.unfinished;
                        round += 1;
                    }
                    Ok((results, crashes))
                })
            })
            .collect();
        hs.into_iter().map(|h| h.join().unwrap_or_else(|_| Err("worker supervisor thread panicked".into()))).collect()
    });
    let mut results: Vec<Value> = vec![];
    let mut crashes: Vec<(u32, String)> = vec![];
    for o in outcomes {
        match o {
            Ok((r, c)) => {
                results.extend(r);
                crashes.extend(c);
            }
            Err(e) => {
                println!("HARNESS ERROR: {e}");
                return 2;
            }
        }
    }
    results.sort_by_key(|r| r["scenario"].as_u64().unwrap_or(0));

    // ---- totals -------------------------------------------------------------------------
    let sum = |k: &str| results.iter().map(|r| r[k].as_u64().unwrap_or(0)).sum::<u64>();
    let mut probes: BTreeMap<String, u64> = BTreeMap::new();
    let mut by_sched: BTreeMap<String, u64> = BTreeMap::new();
    let mut by_family: BTreeMap<String, u64> = BTreeMap::new();
    let mut per_scenario = vec![];
    let mut digest_all = 0u64;
    for r in &results {
        for (k, v) in r["probes"].as_object().into_iter().flatten() {
            *probes.entry(format!("probe.{k}")).or_insert(0) += v.as_u64().unwrap_or(0);
        }
        for (k, v) in r["by_scheduler"].as_object().into_iter().flatten() {
            *by_sched.entry(k.clone()).or_insert(0) += v.as_u64().unwrap_or(0);
        }
        let id = r["scenario"].as_u64().unwrap_or(0) as u32;
        digest_all ^= mix(id as u64, 0xD16E, u64::from_str_radix(r["schedule_set_digest"].as_str().unwrap_or("0"), 16).unwrap_or(0));
        if let Some(w) = by_id.get(&id) {
            *by_family.entry(w.family.to_string()).or_insert(0) += r["executions"].as_u64().unwrap_or(0);
            per_scenario.push(json!({
                "scenario": id, "family": w.family, "class": w.scenario_class(), "threads": w.senders.len(), "channels": w.channels.len(),
                "messages": w.total_messages(), "multi_fragment_messages": w.multi_fragment_messages(), "bytes": w.total_bytes(),
                "executions": r["executions"], "distinct_schedules": r["distinct_schedules"],
                "distinct_nontrivial_schedules": r["distinct_nontrivial_schedules"], "schedule_set_digest": r["schedule_set_digest"],
                "interleaved_inside_multi_fragment_send": r["probes"]["queue_lock_acquisitions_interleaved_while_inside_multi_fragment_send"],
                "failure_counts": r["failure_counts"], "budget_skipped": r["budget_skipped"], "wall_ms": r["wall_ms"],
            }));
        }
    }

    // ---- failures -> candidate findings ---------------------------------------------------
    struct Cand {
        w: Workload,
        f: Value,
    }
    let mut cands: Vec<Cand> = vec![];
    for r in &results {
        let id = r["scenario"].as_u64().unwrap_or(0) as u32;
        for f in r["failures"].as_array().into_iter().flatten() {
            cands.push(Cand { w: by_id[&id].clone(), f: f.clone() });
        }
    }
    for (id, how) in &crashes {
        cands.push(Cand {
            w: by_id[id].clone(),
            f: json!({ "oracle": "C12.progress", "kind": "process_crash", "detail": format!("the exploring process died ({how}) while running this scenario"),
                        "scheduler": "exploration", "scheduler_seed": 0, "yield_every": 0, "schedule": "", "schedule_steps": 0, "schedule_file": Value::Null, "log": Value::Null, "log_hash": "0" }),
        });
    }
    let mut groups: BTreeMap<(String, String, String), Vec<Cand>> = BTreeMap::new();
    for c in cands {
        let key = (c.w.scenario_class().to_string(), c.f["oracle"].as_str().unwrap_or("?").to_string(), c.f["kind"].as_str().unwrap_or("?").to_string());
        groups.entry(key).or_default().push(c);
    }
    let mut lines_known: Vec<String> = vec![];
    let mut lines_viol: Vec<String> = vec![];
    let mut replay_files: Vec<String> = vec![];
    let mut viol_samples: Vec<Value> = vec![];
    let mut known_reported: BTreeSet<String> = BTreeSet::new();
    let mut new_violations = 0i64;
    let mut replay_unconfirmed = 0;
    let failing_scenarios_total: BTreeSet<u32> = groups.values().flatten().map(|c| c.w.id).collect();
    for ((class, oracle, kind), mut cs) in groups {
        // smallest case first: fewest threads, fewest messages, shortest schedule
        cs.sort_by_key(|c| (c.w.senders.len(), c.w.total_messages(), c.f["schedule_steps"].as_u64().unwrap_or(0), c.w.id));
        let n_scen = cs.iter().map(|c| c.w.id).collect::<BTreeSet<_>>().len();
        let matched = known.iter().find(|k| cs.iter().all(|c| k.matches(&oracle, &kind, &c.w)));
        let keep = if matched.is_some() { 1 } else { 2 };
        let mut paths = vec![];
        for c in cs.iter().take(keep) {
            let base = format!("{STEM}-{}-{}-{}-s{}", slug(oracle.trim_start_matches("C12.")), slug(&kind), seed, c.w.id);
            let sched_name = format!("{base}.schedule.txt");
            let json_path = replays_dir.join(format!("{base}.json"));
            let sched_text = c.f["schedule"].as_str().unwrap_or("").to_string();
            let adopted = match c.f["schedule_file"].as_str() {
                Some(f) => std::fs::rename(f, replays_dir.join(&sched_name)).is_ok(),
                None => false,
            };
            if !adopted && !sched_text.is_empty() {
                let _ = std::fs::write(replays_dir.join(&sched_name), &sched_text);
            }
            let desc = json!({
                "property": PROP, "family": "sctp_send", "oracle": oracle, "kind": kind, "scenario_class": class, "detail": c.f["detail"],
                "seed": seed, "workload": c.w.to_json(),
                "scheduler": c.f["scheduler"], "scheduler_seed": c.f["scheduler_seed"], "yield_every": c.f["yield_every"],
                "schedule_file": if sched_text.is_empty() { Value::Null } else { json!(sched_name) },
                "schedule_file_written_by": if adopted { "shuttle FailurePersistence::File" } else { "harness recorder (same text format)" },
                "schedule": sched_text, "schedule_steps": c.f["schedule_steps"],
                "log_hash": c.f["log_hash"], "log": c.f["log"], "tier": t.name, "engine": "shuttle",
                "how_to_replay": "c20/check.sh c12 --replay <this file>   (c20/check.sh --replay <this file> works too)",
            });
            if let Err(e) = std::fs::write(&json_path, serde_json::to_string_pretty(&desc).unwrap()) {
                println!("HARNESS ERROR: cannot write {json_path:?}: {e}");
                return 2;
            }
            let p = json_path.to_string_lossy().into_owned();
            // the replay must reproduce in a fresh process before it is reported
            let confirmed = Command::new(&exe)
                .arg("c12")
                .arg("--replay")
                .arg(&p)
                .stdout(Stdio::piped())
                .stderr(Stdio::null())
                .output()
                .map(|o| {
                    let t = String::from_utf8_lossy(&o.stdout).into_owned();
                    t.contains("REPRODUCED oracle=") || t.contains("REPRODUCED-AS-CRASH") || (kind == "process_crash" && t.contains("REPRODUCED-WITH-DIFFERENT-TRACE"))
                })
                .unwrap_or(false);
            if !confirmed {
                replay_unconfirmed += 1;
            }
            viol_samples.push(json!({ "replay": p, "oracle": oracle, "kind": kind, "scenario_class": class, "workload": c.w.to_json(), "detail": c.f["detail"], "replay_confirmed_in_fresh_process": confirmed, "failing_scenarios_in_group": n_scen }));
            paths.push((p, confirmed));
        }
        match matched {
            Some(k) => {
                if known_reported.insert(k.id.clone()) {
                    lines_known.push(format!("KNOWN-FINDING: property={PROP} {} [{}; oracle {oracle}, {kind}, class {class}; {} scenario(s); replay {}]", k.what, k.id, n_scen, paths.first().map(|p| p.0.as_str()).unwrap_or("-")));
                } else {
                    lines_known.push(format!("  (also under {}: oracle {oracle}, {kind}, class {class}; {} scenario(s); replay {})", k.id, n_scen, paths.first().map(|p| p.0.as_str()).unwrap_or("-")));
                }
            }
            None => {
                new_violations += 1;
                for (p, confirmed) in &paths {
                    println!("violation: oracle={oracle} kind={kind} class={class} scenarios={n_scen} replay_confirmed={confirmed} detail={}", cs[0].f["detail"].as_str().unwrap_or(""));
                    lines_viol.push(format!("VIOLATION property={PROP} replay={p}"));
                }
            }
        }
        replay_files.extend(paths.into_iter().map(|p| p.0));
    }
    let _ = std::fs::remove_dir_all(&work);
    for k in &known {
        if !known_reported.contains(&k.id) {
            lines_known.push(format!("note: known finding {} is listed as open but nothing in this run matched it (fixed in the tree? then mark it `fixed: ...` in known_findings.json)", k.id));
        }
    }

    // ---- report ---------------------------------------------------------------------------
    let evaluations = sum("executions");
    let distinct = sum("distinct_schedules");
    let distinct_nt = sum("distinct_nontrivial_schedules");
    let wall = t0.elapsed().as_secs_f64();
    for l in &lines_viol {
        println!("{l}");
    }
    for l in &lines_known {
        println!("{l}");
    }
    let mut exit = if new_violations > 0 { 1 } else { 0 };
    if replay_unconfirmed > 0 {
        println!("HARNESS ERROR: {replay_unconfirmed} replay file(s) did not reproduce in a fresh process");
        exit = 2;
    }
    let window = probes.get("probe.queue_lock_acquisitions_interleaved_while_inside_multi_fragment_send").copied().unwrap_or(0);
    if window == 0 && exit == 0 {
        println!("HARNESS ERROR: no execution interleaved two threads' queue-lock acquisitions inside a multi-fragment send: the scenario does not reach the window it exists for");
        exit = 2;
    }
    let mut samples: Vec<Value> = workloads.iter().filter(|w| [0u32, 1, 5, 6, 8, 10, 15].contains(&w.id)).map(|w| w.to_json()).collect();
    samples.extend(viol_samples);
    let ev = json!({
        "property_id": PROP,
        "part": "thread interleavings of concurrent send_data calls (scenario family sctp_send); the network-history part of C12 is decided by the simulation and reported in evidence/C12.json",
        "tier": t.name,
        "seed": seed,
        "level": "exploration",
        "coverage": {
            "evaluations": evaluations,
            "distinct_nontrivial": distinct_nt,
            "rule": "one evaluation = one shuttle execution (one complete interleaving of 2..8 OS-thread senders, decided at every acquisition of the association-wide outbound-queue lock in SctpInner::send_data_raw, at thread start / end, and wherever a sender parks on its channel's send lock) of one workload, followed by the oracles on SctpTransport::verif_outbound_snapshot(). A workload = (1..8 negotiated data channels of one association — ordered / unordered, reliable / max-retransmits / max-lifetime, default or small max_payload_size —, 2..8 sender threads each with a list of 1..4 (channel, length) messages submitted with SctpTransport::send_data under shuttle::future::block_on; lengths from {0, 1, 1172, 1173, 2344, 2345, 5000, 20000}, the same corners relative to the channel's fragment size, and seeded random values, unique per channel so every fragment run in the queue is attributable; sctp_max_buffered_amount 0 or the default with the total below it); it is a pure function of (VERIF_SEED, scenario id), 16 structural families (see executions_by_family); ids that expand to an already-seen workload are left out. The association's run loop is never polled, so the queue keeps everything. Schedules come from shuttle's RandomScheduler and PctScheduler (depth 2..5), seeded from (VERIF_SEED, scenario id, chunk). distinct = the sequence of task ids the scheduler chose (hashed, per scenario) was not seen before in that scenario; non-trivial = the execution ran to its end and at least once another thread took the queue lock while a sender stood at its own queue-lock point, or a sender parked on a send lock. Executions ending in a violation are counted in evaluations and distinct_schedules but never in distinct_nontrivial.",
            "oracles": {
                "C12.boundary": "the queue is a concatenation of whole messages: every run starts with a B chunk, ends with an E chunk, all its chunks carry one stream id, SSN and U flag, no chunk of another message sits between B and E, and its payload lengths add up to one submitted message of that channel; every submitted message is exactly one run (kinds: interleaved_fragments, begin_inside_message, fragment_without_begin, fragment_of_other_message, message_without_end, no_such_message, duplicate_message, message_missing)",
                "C12.mode": "the U flag of every message equals the channel's ordered / unordered setting",
                "C12.order": "ordered channels: SSNs are exactly 0..n (ssn_gap_or_repeat); per sender thread SSNs and queue positions increase in submission order (ssn_against_submission_order, queued_against_submission_order); queue order equals SSN order (ssn_against_queue_order — the invariant the channel's send_lock exists for; FORWARD-TSN handling at the receiver relies on it)",
                "C12.progress": "every send_data returns Ok; no sender parks for ever (shuttle deadlock), no execution exceeds the step bound, burns CPU without a scheduling decision (hang) or panics",
            },
            "samples": samples,
            "distinct_schedules": distinct,
            "schedule_set_digest": format!("{digest_all:016x}"),
            "scenarios": results.len(),
            "scenarios_by_class": per_scenario.iter().fold(BTreeMap::<String, u64>::new(), |mut m, s| { *m.entry(s["class"].as_str().unwrap_or("?").to_string()).or_insert(0) += 1; m }),
            "scenarios_with_a_violation": failing_scenarios_total.len(),
            "executions_completed": sum("executions_completed"),
            "executions_nontrivial": sum("executions_nontrivial"),
            "scheduling_decisions": sum("steps"),
            "executions_by_scheduler": by_sched,
            "executions_by_family": by_family,
            "budget_skipped_after_repeated_failures": sum("budget_skipped"),
            "messages_submitted": sum("messages_submitted"),
            "chunks_queued": sum("chunks_queued"),
            "probes": probes,
            "per_scenario": if per_scenario.len() <= 300 { json!(per_scenario) } else { json!(format!("{} scenarios; listed per scenario only when there are at most 300 (see executions_by_family)", per_scenario.len())) },
            "known_findings_reported": lines_known,
            "replays": replay_files,
            "worker_processes": nworkers,
            "worker_crashes": crashes.iter().map(|c| json!({"scenario": c.0, "how": c.1})).collect::<Vec<_>>(),
            "executions_per_second": if wall > 0.0 { (evaluations as f64 / wall) as u64 } else { 0 },
            "engines": { "shuttle": "0.9.3 (RandomScheduler, PctScheduler; replay by ReplayScheduler)" },
        },
        "assumptions": [
            "interleavings are explored at the granularity of the outbound-queue lock: the hook mutex calls the scheduling point before every attempt to take it; everything between two such points (SSN fetch_add, flag computation, chunk construction, pushes under the lock) runs atomically. The other locks of sctp.rs (state, data_channels, parking_lot mutexes) and its std atomics are not scheduling points; tokio's async Mutex (send_lock) is: a sender that finds it taken returns Pending and shuttle parks the thread until the holder's unlock wakes it",
            "the association is marked established through a hook (no handshake took place) and its run loop is never polled: nothing is transmitted, acknowledged or removed from the queue, flight_size stays 0; interleavings of senders with transmit() popping from the queue are therefore not covered here (transmit pops whole chunks from the front under the same lock)",
            "messages are attributed to runs by (channel, length) — the snapshot accessor exposes no payload bytes; byte equality of what the peer receives is the simulation's part of C12",
            "under PCT every 8th scheduling point is a yield (as in the C20 family)",
            "a clean batch is evidence over the sampled schedules and workloads, not a proof",
        ],
        "wall_s": wall,
        "violations": new_violations,
    });
    let evdir = format!("{root}/evidence");
    let _ = std::fs::create_dir_all(&evdir);
    let evpath = format!("{evdir}/{STEM}.json");
    if let Err(e) = std::fs::write(&evpath, serde_json::to_string_pretty(&ev).unwrap()) {
        println!("HARNESS ERROR: cannot write {evpath}: {e}");
        return 2;
    }
    println!(
        "{PROP} (threads/sctp_send): {} scenarios, {evaluations} schedules ({distinct} distinct, {distinct_nt} distinct non-trivial; set digest {digest_all:016x}), {window} with interleaved queue-lock acquisitions inside a multi-fragment send, {} scenario(s) with a violation, {:.1} s wall, {new_violations} new violation group(s), exit {exit}",
        results.len(),
        failing_scenarios_total.len(),
        wall
    );
    exit
}

// =============================================================================================
// replay
// =============================================================================================
/// re-run in a child process so that a replay that kills the process is still reported
fn replay_outer(path: &str, log: bool) -> i32 {
    let exe = match std::env::current_exe() {
        Ok(e) => e,
        Err(e) => {
            eprintln!("current_exe: {e}");
            return 2;
        }
    };
    let mut c = Command::new(exe);
    c.arg("c12").arg("--replay-inner").arg(path);
    if log {
        c.arg("--log");
    }
    let st = match c.status() {
        Ok(s) => s,
        Err(e) => {
            eprintln!("cannot start the replay process: {e}");
            return 2;
        }
    };
    #[cfg(unix)]
    {
        use std::os::unix::process::ExitStatusExt;
        if let Some(sig) = st.signal() {
            println!("REPRODUCED-AS-CRASH oracle=C12.progress kind=process_crash detail=replaying the recorded schedule kills the process with signal {sig}");
            println!("VIOLATION property={PROP} replay={path}");
            return 1;
        }
    }
    if st.code() == Some(EXIT_DIVERGED) {
        return reexplore_after_divergence(path);
    }
    st.code().unwrap_or(2)
}

/// The schedule of a replay file only fits the build that wrote it (same scheduling points).
/// When it cannot be followed, the question the file stands for — does this workload still
/// violate its oracle under some schedule — is answered by exploring the recorded workload
/// afresh with the quick tier's budget (deterministic: seeded from the file's seed).
fn reexplore_after_divergence(path: &str) -> i32 {
    let d: Value = std::fs::read_to_string(path).ok().and_then(|t| serde_json::from_str(&t).ok()).unwrap_or(Value::Null);
    let (want_oracle, want_kind) = (d["oracle"].as_str().unwrap_or("").to_string(), d["kind"].as_str().unwrap_or("").to_string());
    let out = match std::env::current_exe().map_err(|e| e.to_string()).and_then(|exe| Command::new(exe).arg("c12").arg("--explore-file").arg(path).stderr(Stdio::null()).output().map_err(|e| e.to_string())) {
        Ok(o) => o,
        Err(e) => {
            eprintln!("cannot re-explore: {e}");
            return 2;
        }
    };
    let text = String::from_utf8_lossy(&out.stdout).into_owned();
    let Some(r) = text.lines().filter_map(|l| serde_json::from_str::<Value>(l).ok()).find(|v| v.get("scenario").is_some() || v.get("hang").is_some()) else {
        eprintln!("re-exploration produced no result (exit {:?})", out.status.code());
        return 2;
    };
    let fails: Vec<(String, String, String)> = match r.get("hang") {
        Some(_) => vec![("C12.progress".into(), "hang".into(), r["failure"]["detail"].as_str().unwrap_or("").to_string())],
        None => r["failures"].as_array().into_iter().flatten().map(|f| (f["oracle"].as_str().unwrap_or("?").to_string(), f["kind"].as_str().unwrap_or("?").to_string(), f["detail"].as_str().unwrap_or("").to_string())).collect(),
    };
    let n = r["executions"].as_u64().unwrap_or(0);
    if let Some((o, k, detail)) = fails.iter().find(|f| f.0 == want_oracle).or(fails.first()) {
        if *o == want_oracle {
            println!("REPRODUCED-WITH-DIFFERENT-TRACE oracle={o} kind={k} detail=the recorded schedule does not fit this build, but re-exploring the recorded workload fails again: {detail}");
        } else {
            println!("DIFFERENT FAILURE: oracle={o} kind={k} detail={detail} (recorded: {want_oracle} {want_kind}; the recorded schedule does not fit this build, the recorded workload was explored afresh)");
        }
        println!("VIOLATION property={PROP} replay={path}");
        return 1;
    }
    println!("NOT REPRODUCED: the recorded schedule does not fit this build (other scheduling points), and {n} fresh schedules of the recorded workload held every C12 oracle of this family (recorded: {want_oracle} {want_kind})");
    0
}

/// internal: explore the workload recorded in a replay file with the quick budget, one JSON line on stdout
fn explore_file(path: &str) -> i32 {
    let d: Value = match std::fs::read_to_string(path).ok().and_then(|t| serde_json::from_str(&t).ok()) {
        Some(v) => v,
        None => return 2,
    };
    let Some(w) = Workload::from_json(&d["workload"]) else { return 2 };
    if w.validate().is_err() {
        return 2;
    }
    let Some(t) = tier("quick") else { return 2 };
    let cert = match make_certificate() {
        Ok(c) => c,
        Err(_) => return 2,
    };
    let dir = std::env::temp_dir().join(format!("c12t-reexplore-{}", std::process::id()));
    if std::fs::create_dir_all(&dir).is_err() {
        return 2;
    }
    install_process_hooks();
    let dir2 = dir.clone();
    spawn_watchdog(move |ctx, failure| {
        println!("{}", json!({ "hang": ctx.scenario, "executions": EXECUTIONS_IN_SCENARIO.load(std::sync::atomic::Ordering::Relaxed) + 1, "failure": failure }));
        let _ = std::fs::remove_dir_all(&dir2);
    });
    let r = explore_scenario(Arc::new(Prepared::new(w, cert)), d["seed"].as_u64().unwrap_or(DEFAULT_SEED), &t, &dir);
    let _ = std::fs::remove_dir_all(&dir);
    println!("{r}");
    0
}

fn replay(path: &str, show_log: bool) -> i32 {
    let txt = match std::fs::read_to_string(path) {
        Ok(t) => t,
        Err(e) => {
            eprintln!("cannot read {path}: {e}");
            return 2;
        }
    };
    let d: Value = match serde_json::from_str(&txt) {
        Ok(v) => v,
        Err(e) => {
            eprintln!("cannot parse {path}: {e}");
            return 2;
        }
    };
    let Some(w) = Workload::from_json(&d["workload"]) else {
        eprintln!("{path}: no usable workload");
        return 2;
    };
    if let Err(e) = w.validate() {
        eprintln!("{path}: {e}");
        return 2;
    }
    let want_oracle = d["oracle"].as_str().unwrap_or("").to_string();
    let want_kind = d["kind"].as_str().unwrap_or("").to_string();
    if want_kind == "process_crash" {
        return replay_crash(&d, &w);
    }
    let dir = Path::new(path).parent().map(|p| p.to_path_buf()).unwrap_or_default();
    let sched_text = d["schedule_file"].as_str().and_then(|f| std::fs::read_to_string(dir.join(f)).ok()).or_else(|| d["schedule"].as_str().map(|s| s.to_string())).unwrap_or_default();
    if sched_text.trim().is_empty() {
        eprintln!("{path}: no schedule");
        return 2;
    }
    let cert = match make_certificate() {
        Ok(c) => c,
        Err(e) => {
            eprintln!("{e}");
            return 2;
        }
    };
    install_process_hooks();
    exec::set_yield_every(d["yield_every"].as_u64().unwrap_or(0) as u32);
    {
        let (path, want_oracle, want_kind) = (path.to_string(), want_oracle.clone(), want_kind.clone());
        spawn_watchdog(move |_, f| {
            if want_kind == "hang" {
                println!("REPRODUCED oracle=C12.progress kind=hang detail={}", f["detail"].as_str().unwrap_or(""));
            } else {
                println!("DIFFERENT FAILURE: oracle=C12.progress kind=hang (recorded: {want_oracle} {want_kind})");
            }
            println!("VIOLATION property={PROP} replay={path}");
            std::process::exit(1);
        });
    }
    set_hang_ctx(HangCtx { active: true, scenario: w.id, ..Default::default() });
    let p = Arc::new(Prepared::new(w, cert));
    let res = catch_unwind(AssertUnwindSafe(|| {
        let s = Recording(ReplayScheduler::new_from_encoded(sched_text.trim()));
        Runner::new(s, shuttle_config(None)).run(move || exec::body(&p))
    }));
    set_hang_ctx(HangCtx::default());
    exec::leave_exec();
    let log = exec::current_log_summary();
    let hash = log.as_ref().map(|l| format!("{:016x}", l.1)).unwrap_or_default();
    println!("replay {path}: log_hash={hash} (recorded {})", d["log_hash"].as_str().unwrap_or("?"));
    if show_log {
        if let Some((l, _)) = &log {
            println!("{}", serde_json::to_string_pretty(l).unwrap());
        }
    }
    match res {
        Ok(_) => {
            println!("NOT REPRODUCED: the recorded schedule ran to its end and every C12 oracle of this family held (recorded: {want_oracle} {want_kind})");
            0
        }
        Err(pl) => {
            let msg = panic_text(&*pl);
            if ["scheduled task is not runnable", "schedule ended early", "expected context switch but", "expected random choice but"].iter().any(|m| msg.contains(m)) {
                // shuttle's ReplayScheduler could not follow the file: this build reaches other
                // scheduling points than the one that wrote it (e.g. the defect was fixed)
                println!("SCHEDULE-DOES-NOT-APPLY: {}", msg.lines().next().unwrap_or("").chars().take(160).collect::<String>());
                return EXIT_DIVERGED;
            }
            let (o, k, detail) = classify(&msg);
            if o == want_oracle && k == want_kind && Some(hash.as_str()) == d["log_hash"].as_str() {
                println!("REPRODUCED oracle={o} kind={k} detail={detail}");
            } else if o == want_oracle {
                println!("REPRODUCED-WITH-DIFFERENT-TRACE oracle={o} kind={k} detail={detail}");
            } else {
                println!("DIFFERENT FAILURE: oracle={o} kind={k} detail={detail} (recorded: {want_oracle} {want_kind}); raw: {}", msg.lines().next().unwrap_or(""));
            }
            println!("VIOLATION property={PROP} replay={path}");
            1
        }
    }
}

/// a crash has no schedule to replay: re-explore the scenario in a child process with the same
/// seeds (deterministic) and see whether the process dies again
fn replay_crash(d: &Value, w: &Workload) -> i32 {
    let seed = d["seed"].as_u64().unwrap_or(DEFAULT_SEED);
    let Some(t) = tier(d["tier"].as_str().unwrap_or("quick")) else { return 2 };
    let g = generate(seed, w.id);
    if g.channels != w.channels || g.senders != w.senders || g.max_buffered != w.max_buffered {
        eprintln!("workload generator changed since this file was written; cannot re-create scenario {}", w.id);
        return 2;
    }
    let dir = std::env::temp_dir().join(format!("c12t-crash-replay-{}", std::process::id()));
    let exe = std::env::current_exe().unwrap();
    let r = run_worker(&exe, &t, seed, &dir, &[w.id]);
    let _ = std::fs::remove_dir_all(&dir);
    match r {
        Ok(o) if o.crashed.is_some() => {
            println!("REPRODUCED oracle=C12.progress kind=process_crash detail=exploring process died again ({})", o.crashed.unwrap().1);
            println!("VIOLATION property={PROP} replay=(crash of scenario {})", w.id);
            1
        }
        Ok(o) if o.results.iter().any(|r| r["failures"].as_array().map(|a| !a.is_empty()).unwrap_or(false)) => {
            let kinds: BTreeSet<String> = o.results.iter().flat_map(|r| r["failure_counts"].as_object().into_iter().flatten().map(|(k, _)| k.clone())).collect();
            println!("REPRODUCED-WITH-DIFFERENT-TRACE oracle=C12.progress kind=process_crash detail=no crash this time, the same exploration fails with {kinds:?}");
            println!("VIOLATION property={PROP} replay=(scenario {})", w.id);
            1
        }
        Ok(_) => {
            println!("NOT REPRODUCED: scenario {} explored without a crash", w.id);
            0
        }
        Err(e) => {
            eprintln!("{e}");
            2
        }
    }
}
