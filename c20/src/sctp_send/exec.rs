//! One shuttle execution of a `sctp_send` workload against the real `SctpTransport::send_data`
//! (the association's run loop is never polled: nothing leaves the outbound queue), the
//! per-execution log, and the C12 oracles evaluated on the queue left behind.
use super::workload::{Msg, Workload};
use rustrtc::transports::datachannel::{DataChannel, DataChannelConfig};
use rustrtc::transports::dtls::{Certificate, DtlsTransport};
use rustrtc::transports::ice::conn::IceConn;
use rustrtc::transports::sctp::SctpTransport;
use rustrtc::RtcConfiguration;
use std::cell::{Cell, RefCell};
use std::collections::{BTreeMap, BTreeSet};
use std::future::Future;
use std::pin::Pin;
use std::sync::{Arc, Mutex, Weak};
use std::task::{Context, Poll};

pub const ORACLE_TAG: &str = "C12-ORACLE|";
const FLAG_E: u8 = 0x01;
const FLAG_B: u8 = 0x02;
const FLAG_U: u8 = 0x04;

thread_local! {
    /// true while a shuttle execution body is running on this OS thread
    static IN_EXEC: Cell<bool> = const { Cell::new(false) };
    /// every YIELD_EVERY-th scheduling point is a yield (0 = never); see exec.rs of the C20 family
    static YIELD_EVERY: Cell<u32> = const { Cell::new(0) };
    static SP_COUNT: Cell<u32> = const { Cell::new(0) };
    pub static STATS: RefCell<Stats> = RefCell::new(Stats::default());
}

/// log of the execution in progress (global so the watchdog thread can read it)
static CUR: Mutex<Option<Arc<Mutex<Log>>>> = Mutex::new(None);

/// everything that is built once per process / scenario and only read inside executions
pub struct Prepared {
    pub w: Workload,
    /// certificate generation is expensive and draws on the OS random source: once per process
    pub cert: Certificate,
    /// payload of message k of sender t
    pub payloads: Vec<Vec<Arc<Vec<u8>>>>,
}

impl Prepared {
    pub fn new(w: Workload, cert: Certificate) -> Prepared {
        let payloads = w
            .senders
            .iter()
            .enumerate()
            .map(|(t, ms)| ms.iter().enumerate().map(|(k, m)| Arc::new((0..m.len).map(|i| (i as u8) ^ ((t as u8) << 5) ^ (k as u8)).collect::<Vec<u8>>())).collect())
            .collect();
        Prepared { w, cert, payloads }
    }
}

#[derive(Debug, Default)]
pub struct Log {
    /// shuttle task id -> sender index
    tasks: Vec<(usize, usize)>,
    /// message a sender is inside `send_data` with: (index in its list, fragments expected)
    in_send: Vec<Option<(usize, usize)>>,
    /// queue-lock acquisitions the sender made inside its current `send_data`
    acq_in_msg: Vec<u32>,
    /// queue-lock acquisitions by sender threads so far / of those, inside a multi-fragment send
    acq_total: u64,
    acq_multi_total: u64,
    /// sender index per acquisition, in order (capped)
    pub acq_order: Vec<u8>,
    /// error text per failed send
    pub send_errors: Vec<String>,
    pub sent_ok: Vec<usize>,
    // probes of this execution
    pub p_interleaved_any: u32,
    pub p_interleaved_multi: u32,
    pub p_between_fragments: u32,
    pub p_send_lock_wait: u32,
    pub p_lock_points_in_multi: u32,
    /// the outbound queue after every sender finished
    pub snapshot: Vec<(u16, u16, u8, usize)>,
    pub judged: bool,
}

impl Log {
    fn new(w: &Workload) -> Log {
        Log { in_send: vec![None; w.senders.len()], acq_in_msg: vec![0; w.senders.len()], sent_ok: vec![0; w.senders.len()], ..Default::default() }
    }
    fn sender_of(&self, task: usize) -> Option<usize> {
        self.tasks.iter().find(|(t, _)| *t == task).map(|(_, s)| *s)
    }
    fn queue_text(&self) -> Vec<String> {
        // run-length form: "ch2 ssn0 B-- 1172" ... one entry per chunk, identical neighbours folded
        let mut out: Vec<(String, usize)> = vec![];
        for (sid, ssn, fl, len) in &self.snapshot {
            let s = format!("ch{sid} ssn{ssn} {}{}{} {len}", if fl & FLAG_B != 0 { "B" } else { "-" }, if fl & FLAG_E != 0 { "E" } else { "-" }, if fl & FLAG_U != 0 { "U" } else { "-" });
            match out.last_mut() {
                Some((p, n)) if *p == s => *n += 1,
                _ => out.push((s, 1)),
            }
        }
        out.into_iter().map(|(s, n)| if n > 1 { format!("{s} x{n}") } else { s }).collect()
    }
    pub fn summary(&self) -> serde_json::Value {
        serde_json::json!({
            "queue": self.queue_text(),
            "queue_chunks": self.snapshot.len(),
            "queue_lock_acquisitions_by_sender": self.acq_order.iter().map(|s| format!("t{s}")).collect::<Vec<_>>().join(" "),
            "sent_ok": self.sent_ok,
            "send_errors": self.send_errors,
            "blocked_on_send_lock": self.p_send_lock_wait,
            "judged": self.judged,
        })
    }
    /// hash of everything observable about the run (exactness check for replays)
    pub fn hash(&self) -> u64 {
        use std::hash::{Hash, Hasher};
        let mut h = std::collections::hash_map::DefaultHasher::new();
        self.snapshot.hash(&mut h);
        self.acq_order.hash(&mut h);
        self.sent_ok.hash(&mut h);
        self.send_errors.hash(&mut h);
        self.p_send_lock_wait.hash(&mut h);
        h.finish()
    }
}

#[derive(Default, Debug, Clone)]
pub struct Stats {
    pub executions_completed: u64,
    pub nontrivial: u64,
    pub messages_submitted: u64,
    pub chunks_queued: u64,
    pub probes: BTreeMap<&'static str, u64>,
}
impl Stats {
    fn hit(&mut self, k: &'static str, n: u32) {
        if n > 0 {
            *self.probes.entry(k).or_insert(0) += 1;
        }
    }
}

type SharedLog = Arc<Mutex<Log>>;
fn with<R>(l: &SharedLog, f: impl FnOnce(&mut Log) -> R) -> R {
    // never contended: shuttle runs one thread at a time and no scheduling point is taken
    // while the guard is held
    f(&mut l.lock().unwrap_or_else(|e| e.into_inner()))
}

pub fn current_log_summary() -> Option<(serde_json::Value, u64)> {
    let cur = CUR.lock().ok()?.clone();
    cur.map(|l| match l.try_lock() {
        Ok(l) => (l.summary(), l.hash()),
        Err(_) => (serde_json::json!("log busy"), 0),
    })
}

pub fn leave_exec() {
    IN_EXEC.with(|c| c.set(false));
}
pub fn set_yield_every(n: u32) {
    YIELD_EVERY.with(|c| c.set(n));
}

// ---------------------------------------------------------------------------------------------
// scheduling point handed to rustrtc::verif_hooks::sync — in this family it is reached from
// exactly one place: every attempt to take SctpInner.outbound_queue's lock
// ---------------------------------------------------------------------------------------------
pub fn sched_point() {
    if !IN_EXEC.with(|c| c.get()) || std::thread::panicking() {
        return;
    }
    let Some(log) = CUR.lock().ok().and_then(|g| g.clone()) else { return };
    let me = shuttle::current::get_current_task().and_then(|t| with(&log, |l| l.sender_of(usize::from(t))));
    let before = with(&log, |l| (l.acq_total, l.acq_multi_total));
    let n = SP_COUNT.with(|c| {
        let v = c.get().wrapping_add(1);
        c.set(v);
        v
    });
    let every = YIELD_EVERY.with(|c| c.get());
    if every != 0 && n % every == 0 {
        shuttle::thread::yield_now();
    } else {
        // shuttle's sleep is a plain context-switch point (no priority change under PCT)
        shuttle::thread::sleep(std::time::Duration::ZERO);
    }
    // back on this thread: whoever ran in between and took the queue lock shows in the counters.
    // The lock holder never reaches a scheduling point while holding the lock (the only one is
    // this function, called before the lock is taken), so the try_lock that follows succeeds.
    let Some(me) = me else { return };
    with(&log, |l| {
        let others = l.acq_total - before.0;
        let others_multi = l.acq_multi_total - before.1;
        let me_multi = matches!(l.in_send[me], Some((_, f)) if f > 1);
        if me_multi {
            l.p_lock_points_in_multi += 1;
        }
        if others > 0 {
            l.p_interleaved_any += 1;
            if me_multi || others_multi > 0 {
                l.p_interleaved_multi += 1;
            }
            if l.acq_in_msg[me] > 0 {
                // another thread put chunks into the queue between two fragments of my message
                l.p_between_fragments += 1;
            }
        }
        l.acq_total += 1;
        if me_multi {
            l.acq_multi_total += 1;
        }
        l.acq_in_msg[me] += 1;
        if l.acq_order.len() < 4096 {
            l.acq_order.push(me as u8);
        }
    });
}

// ---------------------------------------------------------------------------------------------
// threads
// ---------------------------------------------------------------------------------------------
/// Wraps the `send_data` future to see whether the sender had to park (only `send_lock` can make
/// it: the flow-control wait is excluded by the workload).
struct Watch<'a, F> {
    inner: Pin<Box<F>>,
    log: &'a SharedLog,
}
impl<F: Future> Future for Watch<'_, F> {
    type Output = F::Output;
    fn poll(mut self: Pin<&mut Self>, cx: &mut Context<'_>) -> Poll<Self::Output> {
        let r = self.inner.as_mut().poll(cx);
        if r.is_pending() {
            with(self.log, |l| l.p_send_lock_wait += 1);
        }
        r
    }
}

fn sender(t: usize, msgs: Vec<(Msg, usize, Arc<Vec<u8>>)>, sctp: Arc<SctpTransport>, log: SharedLog) {
    if let Some(id) = shuttle::current::get_current_task() {
        with(&log, |l| l.tasks.push((usize::from(id), t)));
    }
    for (k, (m, frags, payload)) in msgs.into_iter().enumerate() {
        with(&log, |l| {
            l.in_send[t] = Some((k, frags));
            l.acq_in_msg[t] = 0;
        });
        let r = shuttle::future::block_on(Watch { inner: Box::pin(sctp.send_data(m.chan, &payload)), log: &log });
        with(&log, |l| {
            l.in_send[t] = None;
            match r {
                Ok(()) => l.sent_ok[t] += 1,
                Err(e) => l.send_errors.push(format!("t{t} message #{k} (channel {}, {} bytes): {e}", m.chan, m.len)),
            }
        });
    }
}

// ---------------------------------------------------------------------------------------------
// the shuttle test body
// ---------------------------------------------------------------------------------------------
pub fn body(p: &Prepared) {
    let w = &p.w;
    IN_EXEC.with(|c| c.set(true));
    SP_COUNT.with(|c| c.set(0));
    crate::exec::LAST_NONTRIVIAL.with(|c| c.set(false));
    let log: SharedLog = Arc::new(Mutex::new(Log::new(w)));
    *CUR.lock().unwrap_or_else(|e| e.into_inner()) = Some(log.clone());
    crate::sched::PROGRESS.fetch_add(1, std::sync::atomic::Ordering::Relaxed);

    // an association whose loops are never polled: senders only enqueue
    let (_socket_tx, socket_rx) = tokio::sync::watch::channel(None);
    let conn = IceConn::new(socket_rx, "10.0.0.2:5000".parse().unwrap(), None);
    let (dtls, incoming_rx, _dtls_runner) = shuttle::future::block_on(DtlsTransport::new(conn, p.cert.clone(), true, 2048, None)).expect("DtlsTransport::new");
    let mut cfg = RtcConfiguration::default();
    cfg.sctp_max_buffered_amount = w.max_buffered;
    let data_channels: Arc<parking_lot::Mutex<Vec<Weak<DataChannel>>>> = Arc::new(parking_lot::Mutex::new(Vec::new()));
    let mut keep: Vec<Arc<DataChannel>> = vec![];
    for c in &w.channels {
        let dc = Arc::new(DataChannel::new(
            c.id,
            DataChannelConfig {
                label: format!("c{}", c.id),
                protocol: String::new(),
                ordered: c.ordered,
                max_retransmits: c.max_retransmits,
                max_packet_life_time: c.max_life_ms,
                max_payload_size: c.max_payload,
                negotiated: Some(c.id),
            },
        ));
        data_channels.lock().push(Arc::downgrade(&dc));
        keep.push(dc);
    }
    let (sctp, _sctp_runner) = SctpTransport::new(dtls, incoming_rx, data_channels, 5000, 5000, None, true, &cfg);
    // the association's loop is never run here; user data is only accepted on an established association
    sctp.verif_mark_established();

    let mut joins = Vec::new();
    for (t, msgs) in w.senders.iter().enumerate() {
        let list: Vec<(Msg, usize, Arc<Vec<u8>>)> = msgs.iter().enumerate().map(|(k, m)| (*m, w.fragments_of(m), p.payloads[t][k].clone())).collect();
        let (sctp, log) = (sctp.clone(), log.clone());
        joins.push(shuttle::thread::spawn(move || sender(t, list, sctp, log)));
    }
    for j in joins {
        j.join().expect("sender thread panicked");
    }
    // every sender is done: reading the queue is not part of the explored schedule
    IN_EXEC.with(|c| c.set(false));
    let snap = sctp.verif_outbound_snapshot();
    with(&log, |l| l.snapshot = snap);

    let verdict = with(&log, |l| judge(w, l));
    with(&log, |l| {
        l.judged = true;
        account(w, l)
    });
    drop(sctp);
    drop(keep);
    crate::sched::PROGRESS.fetch_add(1, std::sync::atomic::Ordering::Relaxed);
    if let Err(v) = verdict {
        panic!("{ORACLE_TAG}{}|{}|{}", v.oracle, v.kind, v.detail);
    }
}

// ---------------------------------------------------------------------------------------------
// oracles: the outbound queue against the reference model "what was submitted"
// ---------------------------------------------------------------------------------------------
pub struct Violation {
    pub oracle: &'static str,
    pub kind: &'static str,
    pub detail: String,
}

/// one maximal B..E run of the queue
#[derive(Debug, Clone)]
struct Run {
    at: usize,
    stream: u16,
    ssn: u16,
    unordered: bool,
    chunks: usize,
    bytes: usize,
}

fn judge(w: &Workload, l: &Log) -> Result<(), Violation> {
    let v = |oracle, kind, detail: String| Err(Violation { oracle, kind, detail });
    // C12.progress: with the flow-control wait excluded and the association never closed, every
    // send_data call must return Ok (a sender that never returns is a shuttle deadlock, judged
    // in the driver)
    if !l.send_errors.is_empty() {
        return v("C12.progress", "send_error", format!("send_data failed on an association that was never closed: {:?}", l.send_errors));
    }
    // ---- C12.boundary: the queue is a concatenation of whole messages ----------------------
    // TSNs are assigned in queue order and the receiver only joins fragments with consecutive
    // TSNs on one channel, so a foreign chunk between B and E loses (or glues) a message.
    let mut runs: Vec<Run> = vec![];
    let mut cur: Option<Run> = None;
    for (i, (sid, ssn, fl, len)) in l.snapshot.iter().enumerate() {
        let (b, e, u) = (fl & FLAG_B != 0, fl & FLAG_E != 0, fl & FLAG_U != 0);
        match cur.as_mut() {
            None => {
                if !b {
                    return v("C12.boundary", "fragment_without_begin", format!("queue[{i}] (channel {sid}, ssn {ssn}, {len} bytes, flags {fl:#04x}) does not carry B but follows a chunk that ended a message: the receiver drops it or glues it to nothing"));
                }
                cur = Some(Run { at: i, stream: *sid, ssn: *ssn, unordered: u, chunks: 1, bytes: *len });
            }
            Some(r) => {
                if *sid != r.stream {
                    return v("C12.boundary", "interleaved_fragments", format!("queue[{i}] belongs to channel {sid} but sits between the B fragment (queue[{}]) and the E fragment of a message on channel {}: the fragments of that message do not get consecutive TSNs and the receiver drops it", r.at, r.stream));
                }
                if b {
                    return v("C12.boundary", "begin_inside_message", format!("queue[{i}] (channel {sid}, ssn {ssn}) carries B while the message begun at queue[{}] (ssn {}) has not ended: two messages of one channel are cut into each other", r.at, r.ssn));
                }
                if *ssn != r.ssn || u != r.unordered {
                    return v("C12.boundary", "fragment_of_other_message", format!("queue[{i}] (channel {sid}, ssn {ssn}, unordered {u}) continues a message that began at queue[{}] with ssn {} unordered {}", r.at, r.ssn, r.unordered));
                }
                r.chunks += 1;
                r.bytes += *len;
            }
        }
        if e {
            runs.push(cur.take().unwrap());
        }
    }
    if let Some(r) = cur {
        return v("C12.boundary", "message_without_end", format!("the message begun at queue[{}] (channel {}, ssn {}) has no E fragment after {} chunk(s) / {} bytes although every sender returned", r.at, r.stream, r.ssn, r.chunks, r.bytes));
    }
    // every run is exactly one submitted message of that channel, every submitted message is one run
    let mut submitted: BTreeMap<(u16, usize), (usize, usize)> = BTreeMap::new(); // (chan, len) -> (sender, index)
    for (t, ms) in w.senders.iter().enumerate() {
        for (k, m) in ms.iter().enumerate() {
            submitted.insert((m.chan, m.len), (t, k));
        }
    }
    let mut seen: BTreeSet<(u16, usize)> = BTreeSet::new();
    // (sender, index, queue position of the run, ssn) per channel, for the order oracles
    let mut per_chan: BTreeMap<u16, Vec<(usize, usize, usize, u16)>> = BTreeMap::new();
    for r in &runs {
        let key = (r.stream, r.bytes);
        let Some((t, k)) = submitted.get(&key) else {
            return v("C12.boundary", "no_such_message", format!("queue[{}..{}] forms a message of {} bytes on channel {} which nobody submitted (submitted there: {:?}): messages were merged, split or fabricated", r.at, r.at + r.chunks, r.bytes, r.stream, submitted.keys().filter(|x| x.0 == r.stream).map(|x| x.1).collect::<Vec<_>>()));
        };
        if !seen.insert(key) {
            return v("C12.boundary", "duplicate_message", format!("the {}-byte message of channel {} (sender t{t} #{k}) is queued twice", r.bytes, r.stream));
        }
        per_chan.entry(r.stream).or_default().push((*t, *k, r.at, r.ssn));
        // C12.mode: the U flag says how the peer delivers; it must be the channel's mode
        let ch = w.chan(r.stream).expect("validated workload");
        if r.unordered == ch.ordered {
            return v("C12.mode", "wrong_delivery_mode", format!("message at queue[{}] on {} channel {} is flagged {}", r.at, if ch.ordered { "ordered" } else { "unordered" }, r.stream, if r.unordered { "unordered (U=1)" } else { "ordered (U=0)" }));
        }
    }
    if let Some(((c, len), (t, k))) = submitted.iter().find(|(key, _)| !seen.contains(key)) {
        return v("C12.boundary", "message_missing", format!("send_data returned Ok for the {len}-byte message of sender t{t} (#{k}) on channel {c}, but no run of the queue carries it"));
    }
    // ---- C12.order (ordered channels) -------------------------------------------------------
    for (c, ms) in &per_chan {
        if !w.chan(*c).map(|x| x.ordered).unwrap_or(false) {
            continue;
        }
        // SSNs are exactly 0..n: a repeat makes the receiver overwrite one message with another,
        // a gap makes it hold every later message for ever
        let mut ssns: Vec<u16> = ms.iter().map(|m| m.3).collect();
        ssns.sort();
        if ssns.iter().enumerate().any(|(i, s)| *s as usize != i) {
            return v("C12.order", "ssn_gap_or_repeat", format!("ordered channel {c}: the {} queued messages carry SSNs {:?}, not 0..{}", ms.len(), ssns, ms.len()));
        }
        // per sender thread: SSN (what the peer delivers by) and queue position follow its submission order
        let mut by_sender: BTreeMap<usize, Vec<(usize, usize, u16)>> = BTreeMap::new();
        for (t, k, at, ssn) in ms {
            by_sender.entry(*t).or_default().push((*k, *at, *ssn));
        }
        for (t, mut xs) in by_sender {
            xs.sort();
            for p in xs.windows(2) {
                if p[1].2 <= p[0].2 {
                    return v("C12.order", "ssn_against_submission_order", format!("ordered channel {c}: sender t{t} submitted message #{} before #{} but they carry SSN {} and {}: the peer delivers them the other way round", p[0].0, p[1].0, p[0].2, p[1].2));
                }
                if p[1].1 <= p[0].1 {
                    return v("C12.order", "queued_against_submission_order", format!("ordered channel {c}: sender t{t} submitted message #{} before #{} but they are queued at {} and {}", p[0].0, p[1].0, p[0].1, p[1].1));
                }
            }
        }
        // on an ordered stream the queue (= TSN) order is the SSN order: that is what `send_lock`
        // is held across "take SSN .. enqueue" for. A FORWARD-TSN reports the highest SSN it
        // skips per stream and the receiver then discards every lower SSN still to come
        // (InboundStream::advance_ssn_to), and a peer delivers by SSN while acknowledging by TSN,
        // so a lower SSN queued behind a higher one is held back behind data that was sent later.
        let mut by_pos: Vec<(usize, u16)> = ms.iter().map(|m| (m.2, m.3)).collect();
        by_pos.sort();
        if let Some(p) = by_pos.windows(2).find(|p| p[1].1 <= p[0].1) {
            return v("C12.order", "ssn_against_queue_order", format!("ordered channel {c}: the message at queue[{}] carries SSN {} but the later one at queue[{}] carries SSN {}: SSNs were handed out in another order than the messages were queued (SSN taken outside the channel's send lock)", p[0].0, p[0].1, p[1].0, p[1].1));
        }
    }
    Ok(())
}

fn account(w: &Workload, l: &Log) {
    // non-trivial: the scheduler let another thread put chunks into the queue while this one
    // stood at a queue-lock point, or parked a sender on a channel's send lock
    let nontrivial = l.p_interleaved_any > 0 || l.p_send_lock_wait > 0;
    crate::exec::LAST_NONTRIVIAL.with(|c| c.set(nontrivial));
    STATS.with(|s| {
        let mut s = s.borrow_mut();
        s.executions_completed += 1;
        if nontrivial {
            s.nontrivial += 1;
        }
        s.messages_submitted += w.total_messages() as u64;
        s.chunks_queued += l.snapshot.len() as u64;
        s.hit("queue_lock_acquisitions_interleaved", l.p_interleaved_any);
        s.hit("queue_lock_acquisitions_interleaved_while_inside_multi_fragment_send", l.p_interleaved_multi);
        s.hit("foreign_acquisition_between_two_fragments_of_one_message", l.p_between_fragments);
        s.hit("sender_parked_on_send_lock", l.p_send_lock_wait);
        s.hit("queue_lock_point_inside_multi_fragment_send", l.p_lock_points_in_multi);
    });
}
