//! Workloads of the `sctp_send` family (thread-interleaving part of property C12): which data
//! channels exist on the one association and what every sender thread submits.
//! A workload is a pure function of (VERIF_SEED, scenario id); it is written out in full in
//! every replay file so a replay does not depend on this generator staying unchanged.
use crate::workload::{mix, Rng};
use serde_json::{json, Value};
use std::collections::{BTreeMap, BTreeSet};

/// what rustrtc uses when the channel config names no `max_payload_size`: min(1200, 1172)
pub const DEFAULT_FRAGMENT: usize = 1172;
/// association-wide buffered-amount cap of `RtcConfiguration::default()`
pub const DEFAULT_CAP: usize = 256 * 1024;

#[derive(Clone, Debug, PartialEq, Eq)]
pub struct Chan {
    pub id: u16,
    pub ordered: bool,
    /// `DataChannelConfig::max_payload_size` (None = library default)
    pub max_payload: Option<usize>,
    pub max_retransmits: Option<u16>,
    pub max_life_ms: Option<u16>,
}

impl Chan {
    /// payload bytes per DATA fragment the library is expected to use on this channel; only
    /// used to pick message sizes around the fragment boundary and to tell the probes which
    /// sends are multi-fragment — no oracle depends on it
    pub fn fragment(&self) -> usize {
        self.max_payload.unwrap_or(1200).min(DEFAULT_FRAGMENT).max(1)
    }
    pub fn kind(&self) -> String {
        let rel = match (self.max_retransmits, self.max_life_ms) {
            (Some(_), _) => "rexmit",
            (None, Some(_)) => "timed",
            _ => "reliable",
        };
        format!("{rel}/{}", if self.ordered { "ordered" } else { "unordered" })
    }
}

#[derive(Clone, Copy, Debug, PartialEq, Eq)]
pub struct Msg {
    pub chan: u16,
    pub len: usize,
}

#[derive(Clone, Debug)]
pub struct Workload {
    pub id: u32,
    pub family: &'static str,
    pub channels: Vec<Chan>,
    /// one message list per sender thread, submitted in this order with `send_data`
    pub senders: Vec<Vec<Msg>>,
    /// `RtcConfiguration::sctp_max_buffered_amount` (0 = no flow-control wait at all; otherwise
    /// the submitted total stays below it, so the wait — which needs the run loop — never starts)
    pub max_buffered: usize,
}

impl Workload {
    pub fn chan(&self, id: u16) -> Option<&Chan> {
        self.channels.iter().find(|c| c.id == id)
    }
    pub fn total_messages(&self) -> usize {
        self.senders.iter().map(|s| s.len()).sum()
    }
    pub fn total_bytes(&self) -> usize {
        self.senders.iter().flatten().map(|m| m.len).sum()
    }
    pub fn fragments_of(&self, m: &Msg) -> usize {
        let f = self.chan(m.chan).map(|c| c.fragment()).unwrap_or(DEFAULT_FRAGMENT);
        if m.len == 0 {
            1
        } else {
            m.len.div_ceil(f)
        }
    }
    pub fn multi_fragment_messages(&self) -> usize {
        self.senders.iter().flatten().filter(|m| self.fragments_of(m) > 1).count()
    }
    /// sender threads per channel id
    pub fn senders_per_channel(&self) -> BTreeMap<u16, usize> {
        let mut m: BTreeMap<u16, BTreeSet<usize>> = BTreeMap::new();
        for (t, msgs) in self.senders.iter().enumerate() {
            for x in msgs {
                m.entry(x.chan).or_default().insert(t);
            }
        }
        m.into_iter().map(|(k, v)| (k, v.len())).collect()
    }
    /// Structural class used to group findings and by known-findings patterns.
    pub fn scenario_class(&self) -> &'static str {
        let shared = self.senders_per_channel().values().any(|n| *n >= 2);
        let used = self.senders_per_channel().len();
        match (shared, used >= 2) {
            (true, true) => "shared_and_distinct_channels",
            (true, false) => "one_shared_channel",
            (false, true) => "distinct_channels",
            (false, false) => "single_sender",
        }
    }
    /// rough cost of one execution (for dealing scenarios to workers)
    pub fn weight(&self) -> usize {
        (self.total_messages() + 2) * (self.senders.len() + 2) + self.total_bytes() / 4096
    }
    pub fn to_json(&self) -> Value {
        json!({
            "id": self.id,
            "family": self.family,
            "scenario_family": "sctp_send",
            "channels": self.channels.iter().map(|c| json!({
                "id": c.id, "ordered": c.ordered, "max_payload_size": c.max_payload,
                "max_retransmits": c.max_retransmits, "max_packet_life_time": c.max_life_ms, "type": c.kind(),
            })).collect::<Vec<_>>(),
            "senders": self.senders.iter().map(|s| s.iter().map(|m| json!([m.chan, m.len])).collect::<Vec<_>>()).collect::<Vec<_>>(),
            "sctp_max_buffered_amount": self.max_buffered,
            "scenario_class": self.scenario_class(),
            "total_messages": self.total_messages(),
            "multi_fragment_messages": self.multi_fragment_messages(),
        })
    }
    pub fn from_json(v: &Value) -> Option<Workload> {
        let channels = v
            .get("channels")?
            .as_array()?
            .iter()
            .map(|c| {
                Some(Chan {
                    id: c.get("id")?.as_u64()? as u16,
                    ordered: c.get("ordered")?.as_bool()?,
                    max_payload: c.get("max_payload_size").and_then(|x| x.as_u64()).map(|x| x as usize),
                    max_retransmits: c.get("max_retransmits").and_then(|x| x.as_u64()).map(|x| x as u16),
                    max_life_ms: c.get("max_packet_life_time").and_then(|x| x.as_u64()).map(|x| x as u16),
                })
            })
            .collect::<Option<Vec<_>>>()?;
        let senders = v
            .get("senders")?
            .as_array()?
            .iter()
            .map(|s| s.as_array()?.iter().map(|m| Some(Msg { chan: m.get(0)?.as_u64()? as u16, len: m.get(1)?.as_u64()? as usize })).collect::<Option<Vec<_>>>())
            .collect::<Option<Vec<_>>>()?;
        Some(Workload { id: v.get("id")?.as_u64()? as u32, family: "replayed", channels, senders, max_buffered: v.get("sctp_max_buffered_amount")?.as_u64()? as usize })
    }
    /// the oracles attribute a fragment run to a submitted message by (channel, length): the
    /// generator keeps lengths unique per channel, a hand-written workload must do the same
    pub fn validate(&self) -> Result<(), String> {
        let mut seen = BTreeSet::new();
        for m in self.senders.iter().flatten() {
            if self.chan(m.chan).is_none() {
                return Err(format!("message on channel {} which the workload does not declare", m.chan));
            }
            if !seen.insert((m.chan, m.len)) {
                return Err(format!("two messages of {} bytes on channel {}: runs could not be attributed", m.len, m.chan));
            }
        }
        let mut ids = BTreeSet::new();
        if self.channels.iter().any(|c| !ids.insert(c.id)) {
            return Err("duplicate channel id".into());
        }
        if self.max_buffered != 0 && self.total_bytes() > self.max_buffered {
            return Err("submitted total exceeds sctp_max_buffered_amount: a sender would wait for the run loop, which this scenario never runs".into());
        }
        Ok(())
    }
}

const FAMILIES: usize = 16;
/// the sizes named in the property brief, for the default fragment size of 1172 bytes
const NAMED_SIZES: [usize; 8] = [0, 1, 1172, 1173, 2344, 2345, 5000, 20000];

/// a message length for channel `c`, around the fragment boundaries of that channel
fn pick_len(r: &mut Rng, c: &Chan, multi_only: bool) -> usize {
    let f = c.fragment();
    loop {
        let len = match r.below(if multi_only { 6 } else { 10 }) {
            0 => f + 1,
            1 => 2 * f,
            2 => 2 * f + 1,
            3 => {
                if f == DEFAULT_FRAGMENT {
                    r.pick(&[5000usize, 20000])
                } else {
                    f * 4 + f / 3
                }
            }
            4 => f + 1 + r.below(6 * f as u64) as usize,
            5 => 3 * f - 1 + r.below(3) as usize,
            6 => r.pick(&NAMED_SIZES),
            7 => r.pick(&[0usize, 1, f.saturating_sub(1), f]),
            8 => r.below(f as u64 + 1) as usize,
            _ => r.below(20 * f as u64 + 1) as usize,
        };
        if !multi_only || len > f {
            return len;
        }
    }
}

fn chan(r: &mut Rng, id: u16, ordered: bool, small_fragments: bool, partial: bool) -> Chan {
    let max_payload = if small_fragments { Some(r.pick(&[48usize, 64, 100, 256, 300, 600])) } else { r.pick(&[None, None, None, Some(1200), Some(1172), Some(2000)]) };
    let (max_retransmits, max_life_ms) = if partial {
        if r.below(2) == 0 {
            (Some(r.below(4) as u16), None)
        } else {
            (None, Some(1000 + r.below(5000) as u16))
        }
    } else {
        (None, None)
    };
    Chan { id, ordered, max_payload, max_retransmits, max_life_ms }
}

/// (seed, id) -> workload. The 16 families guarantee, whatever the seed: two threads on two
/// channels each inside a multi-fragment message (the minimal dangerous window), 2..4 threads
/// sharing one ordered channel, shared unordered channels, 1..8 channels with 2..8 threads,
/// ordered / unordered and reliable / rexmit / timed mixes, small fragment sizes (many
/// fragments per message), the named sizes {0, 1, 1172, 1173, 2344, 2345, 5000, 20000}, and
/// both `sctp_max_buffered_amount = 0` and the default cap with the total kept below it.
pub fn generate(seed: u64, id: u32) -> Workload {
    let mut r = Rng(mix(seed, 0xC12_5E4D, id as u64));
    let fam = id as usize % FAMILIES;
    // (name, threads, channels, assignment, messages per thread lo..=hi, multi-fragment only)
    // assignment: 0 = thread t -> channel t % nch, 1 = all threads share channel 0,
    //             2 = random channel per message, 3 = threads 0 and 1 share channel 0, the rest own one each
    let (family, nt, nch, assign, per_lo, per_hi, multi_only): (&'static str, usize, usize, u8, usize, usize, bool) = match fam {
        0 => ("2t_2ch_one_long_message_each", 2, 2, 0, 1, 1, true),
        1 => ("2t_one_ordered_channel", 2, 1, 1, 2, 3, false),
        2 => ("2t_2ch_named_sizes", 2, 2, 0, 2, 3, false),
        3 => ("3t_two_share_one_apart", 3, 2, 3, 1, 3, false),
        4 => ("4t_4ch", 4, 4, 0, 1, 2, false),
        5 => ("8t_8ch_one_message_each", 8, 8, 0, 1, 1, false),
        6 => ("small_fragments", 2 + r.below(2) as usize, 2, 0, 1, 2, true),
        7 => ("empty_and_tiny_between_long", 3, 2 + r.below(2) as usize, 2, 2, 3, false),
        8 => ("4t_one_ordered_channel", 4, 1, 1, 1, 2, false),
        9 => ("3t_one_unordered_channel", 3, 1, 1, 1, 3, false),
        10 => ("partial_reliability", 2 + r.below(3) as usize, 2 + r.below(2) as usize, 2, 1, 2, false),
        11 => ("random", 2 + r.below(7) as usize, 1 + r.below(8) as usize, 2, 1, 2, false),
        12 => ("2t_2ch_several_long_messages", 2, 2, 0, 3, 4, true),
        13 => ("5to6t_2to3ch", 5 + r.below(2) as usize, 2 + r.below(2) as usize, 0, 1, 2, false),
        14 => ("thread_alternates_between_channels", 2 + r.below(2) as usize, 2, 2, 2, 4, false),
        _ => ("random_wide", 3 + r.below(6) as usize, 2 + r.below(7) as usize, 2, 1, 3, false),
    };
    let mut channels = vec![];
    for k in 0..nch {
        // channel ids need not be dense or small; keep them distinct
        let idn = (k as u16) * 2 + if r.below(4) == 0 { 100 } else { 0 } + (r.below(2) as u16);
        let ordered = match fam {
            1 | 8 => true,
            9 => false,
            0 | 12 => k == 0 || r.below(2) == 0,
            _ => r.below(3) != 0,
        };
        let small = fam == 6 || (matches!(fam, 11 | 15 | 7) && r.below(4) == 0);
        let partial = fam == 10 || (matches!(fam, 11 | 15 | 13) && r.below(3) == 0);
        channels.push(chan(&mut r, idn, ordered, small, partial));
    }
    // 2k, 2k+1, 2k+100, 2k+101 with k < 8 cannot collide; kept as a guard for edits of the line above
    let mut used = BTreeSet::new();
    for c in channels.iter_mut() {
        while !used.insert(c.id) {
            c.id += 1;
        }
    }
    let mut senders: Vec<Vec<Msg>> = vec![];
    let mut lens: BTreeSet<(u16, usize)> = BTreeSet::new();
    for t in 0..nt {
        let n = per_lo + r.below((per_hi - per_lo + 1) as u64) as usize;
        let mut msgs = vec![];
        for k in 0..n {
            let ci = match assign {
                0 => t % nch,
                1 => 0,
                3 => {
                    if t < 2 {
                        0
                    } else {
                        (1 + (t - 2)) % nch
                    }
                }
                _ => {
                    if fam == 14 && t == 0 {
                        k % nch // thread 0 alternates strictly
                    } else {
                        r.below(nch as u64) as usize
                    }
                }
            };
            let c = &channels[ci];
            // keep at least one long message per thread in the mixed families so the window exists
            let want_multi = multi_only || (k == 0 && matches!(fam, 2 | 3 | 4 | 7 | 13) && r.below(4) != 0);
            let mut len = pick_len(&mut r, c, want_multi);
            let mut guard = 0;
            while !lens.insert((c.id, len)) {
                // lengths are unique per channel so that every fragment run is attributable
                guard += 1;
                len = if guard < 8 { pick_len(&mut r, c, want_multi) } else { len + 1 };
            }
            msgs.push(Msg { chan: c.id, len });
        }
        senders.push(msgs);
    }
    let total: usize = senders.iter().flatten().map(|m| m.len).sum();
    let max_buffered = if total + 4096 < DEFAULT_CAP && r.below(3) == 0 { DEFAULT_CAP } else { 0 };
    Workload { id, family, channels, senders, max_buffered }
}
