//! Second engine for the clause "no interleaving causes a data race or memory error": Miri runs
//! the small driver in c20/miri (real threads, UNHOOKED code, heap payloads) under its seeded
//! preemptive scheduler. Deterministic per Miri seed, so a failing seed is a replay.
use serde_json::{json, Value};
use std::process::Command;

pub const PREEMPTION: &str = "0.1";

fn miri_dir() -> String {
    concat!(env!("CARGO_MANIFEST_DIR"), "/miri").to_string()
}

fn run(mode: &str, flags: &str) -> Result<(bool, String), String> {
    let out = Command::new("cargo")
        .args(["+nightly", "miri", "run", "--offline", "-q", "--", mode])
        .current_dir(miri_dir())
        .env("MIRIFLAGS", flags)
        .env("CARGO_NET_OFFLINE", "true")
        // RUSTFLAGS from the environment replaces build.rustflags of every config file, i.e. it
        // drops the `--cfg rustrtc_verif` that c20/.cargo/config.toml would otherwise contribute
        .env("RUSTFLAGS", "--cfg c20_miri")
        .output()
        .map_err(|e| format!("cannot start cargo miri: {e}"))?;
    let text = format!("{}\n{}", String::from_utf8_lossy(&out.stdout), String::from_utf8_lossy(&out.stderr));
    Ok((out.status.success(), text))
}

/// (oracle, kind, detail) of one failing Miri run
pub fn classify(text: &str) -> (String, String, String) {
    let line = |pat: &str| text.lines().find(|l| l.contains(pat)).map(|l| l.trim().chars().take(300).collect::<String>());
    if let Some(l) = line("Data race detected") {
        return ("C20.ub".into(), "data_race".into(), l);
    }
    if let Some(l) = line("Undefined Behavior") {
        return ("C20.ub".into(), "undefined_behavior".into(), l);
    }
    if let Some(l) = line("the evaluated program deadlocked") {
        return ("C20.eos".into(), "recv_deadlock_after_close".into(), format!("{l} (consumer thread parked in recv(); every producer thread had finished)"));
    }
    for (tag, kind) in [("C20.release: released twice", "released_twice"), ("C20.release: leaked", "leaked"), ("C20.eos: ring never full", "undrained_at_eos"), ("C20.once", "duplicate"), ("C20.order", "reordered"), ("C20.identity", "corrupt_sample"), ("C20.balance", "lost_beyond_overflow"), ("C20.eos", "wrong_end")] {
        if let Some(l) = line(tag) {
            return (tag.split(':').next().unwrap_or(tag).to_string(), kind.into(), l);
        }
    }
    // Miri's own leak report at exit (the run's assertions passed, or did not cover the allocation)
    if let Some(l) = line("memory leaked") {
        return ("C20.ub".into(), "leak".into(), l);
    }
    let l = line("error").unwrap_or_else(|| text.lines().rev().find(|l| !l.trim().is_empty()).unwrap_or("").to_string());
    ("C20.ub".into(), "miri_error".into(), l)
}

pub struct ModeResult {
    pub mode: &'static str,
    pub seeds: (u64, u64),
    pub failing: Vec<(u64, String, String, String)>,
    pub failing_seeds_total: usize,
}

pub struct Outcome {
    pub usable: bool,
    pub note: String,
    pub modes: Vec<ModeResult>,
    pub wall_s: f64,
}

impl Outcome {
    pub fn to_json(&self) -> Value {
        json!({
            "usable": self.usable,
            "note": self.note,
            "wall_s": self.wall_s,
            "preemption_rate": PREEMPTION,
            "modes": self.modes.iter().map(|m| json!({
                "mode": m.mode, "seeds": format!("{}..{}", m.seeds.0, m.seeds.1), "runs": m.seeds.1 - m.seeds.0,
                "failing_seeds": m.failing_seeds_total,
                "classified": m.failing.iter().map(|f| json!({"seed": f.0, "oracle": f.1, "kind": f.2, "detail": f.3})).collect::<Vec<_>>(),
            })).collect::<Vec<_>>(),
        })
    }
}

pub fn flags_for_seed(seed: u64) -> String {
    format!("-Zmiri-seed={seed} -Zmiri-preemption-rate={PREEMPTION}")
}

/// run every mode over `n` Miri seeds starting at `first`
pub fn run_all(first: u64, n: u64) -> Outcome {
    let t0 = std::time::Instant::now();
    // smoke: is the toolchain there and does the driver build?
    match run("sp", &flags_for_seed(first)) {
        Err(e) => return Outcome { usable: false, note: e, modes: vec![], wall_s: t0.elapsed().as_secs_f64() },
        Ok((false, text)) if text.contains("error: could not compile") || text.contains("is not installed") || text.contains("no such command") || text.contains("error: failed to") => {
            let l = text.lines().filter(|l| l.contains("error")).take(3).collect::<Vec<_>>().join(" / ");
            return Outcome { usable: false, note: format!("cargo miri could not build or start the driver: {l}"), modes: vec![], wall_s: t0.elapsed().as_secs_f64() };
        }
        Ok(_) => {}
    }
    let mut modes = vec![];
    // "td" = the teardown workloads (consumer abandons / stops / stalls, last handle dropped over
    // a non-empty ring); like the other modes it runs WITHOUT -Zmiri-ignore-leaks, so Miri's leak
    // check at exit and its double-free detection see SpscRing::drop over a full ring
    for mode in ["sp", "mp", "td"] {
        let flags = format!("-Zmiri-many-seeds={first}..{} -Zmiri-many-seeds-keep-going -Zmiri-preemption-rate={PREEMPTION}", first + n);
        let (ok, text) = match run(mode, &flags) {
            Ok(r) => r,
            Err(e) => return Outcome { usable: false, note: e, modes, wall_s: t0.elapsed().as_secs_f64() },
        };
        let mut seeds: Vec<u64> = text.lines().filter_map(|l| l.trim().strip_prefix("FAILING SEED:").and_then(|s| s.trim().parse().ok())).collect();
        seeds.sort();
        seeds.dedup();
        if !ok && seeds.is_empty() {
            return Outcome { usable: false, note: format!("miri run of mode {mode} failed without naming a seed: {}", classify(&text).2), modes, wall_s: t0.elapsed().as_secs_f64() };
        }
        // classify each failing seed on its own (the many-seeds output interleaves); one
        // representative per (oracle, kind) is kept
        let mut failing: Vec<(u64, String, String, String)> = vec![];
        for s in seeds.iter().take(12) {
            if let Ok((false, t)) = run(mode, &flags_for_seed(*s)) {
                let (o, k, d) = classify(&t);
                if !failing.iter().any(|f| f.1 == o && f.2 == k) {
                    failing.push((*s, o, k, d));
                }
            }
        }
        modes.push(ModeResult { mode, seeds: (first, first + n), failing, failing_seeds_total: seeds.len() });
    }
    Outcome { usable: true, note: String::new(), modes, wall_s: t0.elapsed().as_secs_f64() }
}

/// replay of a Miri finding: same mode, same seed
pub fn replay(mode: &str, seed: u64) -> Result<Option<(String, String, String)>, String> {
    let (ok, text) = run(mode, &flags_for_seed(seed))?;
    Ok(if ok { None } else { Some(classify(&text)) })
}
