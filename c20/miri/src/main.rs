//! C20 under Miri: real OS threads (Miri's seeded, preemptive scheduler), the unhooked
//! `std::sync::atomic` / `parking_lot` code paths, heap-backed payloads. Miri reports data races,
//! reads of uninitialised memory, double frees, and (at exit) leaked allocations; the logical
//! oracles (identity / once / order / end-of-stream) are asserted on top.
//!
//!   c20-miri sp     single-producer scenarios (one pushing thread; stop() / drop from other threads)
//!   c20-miri mp     two producers on one ring (shared Arc and clones)
// cargo merges c20/.cargo/config.toml (which turns the hooks on) into this crate's configuration;
// the runner overrides it through the RUSTFLAGS environment variable. Refuse to build otherwise.
#[cfg(rustrtc_verif)]
compile_error!("the Miri engine must run the unhooked code: run with RUSTFLAGS='--cfg c20_miri' (see c20/src/miri.rs)");

use bytes::Bytes;
use rustrtc::media::frame::{AudioFrame, MediaKind, MediaSample};
use rustrtc::media::track::{sample_track, MediaStreamTrack, SampleStreamSource, SampleStreamTrack};
use rustrtc::media::MediaError;
use std::sync::Arc;

fn payload(p: u32, i: u32) -> Vec<u8> {
    (0..(5 + (p + i) % 9)).map(|k| (p * 31 + i * 7 + k) as u8).collect()
}

fn sample(p: u32, i: u32) -> MediaSample {
    MediaSample::Audio(AudioFrame {
        rtp_timestamp: (p << 16) | i,
        clock_rate: 48000,
        data: Bytes::from(payload(p, i)), // heap allocation: a slot read twice is a double free
        sequence_number: Some(i as u16),
        payload_type: Some(96 + p as u8),
        ..Default::default()
    })
}

fn consume(track: Arc<SampleStreamTrack>, cap: usize) -> (Vec<u32>, bool) {
    let mut got = vec![];
    loop {
        if got.len() > cap {
            return (got, false);
        }
        match futures::executor::block_on(track.recv()) {
            Ok(MediaSample::Audio(f)) => {
                let (p, i) = (f.rtp_timestamp >> 16, f.rtp_timestamp & 0xffff);
                assert_eq!(&f.data[..], &payload(p, i)[..], "C20.identity: payload of p{p}#{i} differs from what was pushed");
                assert_eq!(f.sequence_number, Some(i as u16), "C20.identity");
                got.push(f.rtp_timestamp);
            }
            Ok(_) => panic!("C20.identity: video sample on an audio track"),
            Err(MediaError::EndOfStream) => return (got, true),
            Err(e) => panic!("C20.eos: recv ended with {e:?}"),
        }
    }
}

fn judge(got: &[u32], eos: bool, producers: u32, what: &str) {
    assert!(eos, "C20.once: more receives than pushes in {what}: {got:?}");
    let mut seen = std::collections::BTreeSet::new();
    for g in got {
        assert!(seen.insert(*g), "C20.once: p{}#{} delivered twice in {what}: {got:?}", g >> 16, g & 0xffff);
    }
    for p in 0..producers {
        let mine: Vec<u32> = got.iter().filter(|g| *g >> 16 == p).map(|g| g & 0xffff).collect();
        assert!(mine.windows(2).all(|w| w[0] < w[1]), "C20.order: producer {p} reordered in {what}: {mine:?}");
    }
}

/// one producer thread pushing `n` samples with the three push calls, consumer on another thread
fn single_producer(cap: usize, n: u32, stop_after: Option<u32>) {
    let (src, track, _fb) = sample_track(MediaKind::Audio, cap);
    let t2 = track.clone();
    let cons = std::thread::spawn(move || consume(t2, n as usize + 2));
    let t3 = track.clone();
    let prod = std::thread::spawn(move || {
        let mut accepted = 0;
        let mut i = 0;
        while i < n {
            match i % 3 {
                0 => {
                    src.send(sample(0, i)).unwrap();
                    accepted += 1;
                    i += 1;
                }
                1 => {
                    if src.try_send(sample(0, i)).is_ok() {
                        accepted += 1;
                    }
                    i += 1;
                }
                _ => {
                    let k = (n - i).min(2);
                    src.send_many((i..i + k).map(|j| sample(0, j))).unwrap();
                    accepted += k;
                    i += k;
                }
            }
            if stop_after == Some(i) {
                t3.stop();
            }
        }
        drop(src); // last handle: closes the source
        accepted
    });
    let accepted = prod.join().unwrap();
    let (got, eos) = cons.join().unwrap();
    judge(&got, eos, 1, "single_producer");
    assert!(got.len() as u32 <= accepted, "C20.balance: received {} of {accepted} accepted", got.len());
    if stop_after.is_none() && n as usize <= cap {
        assert_eq!(got.len() as u32, accepted, "C20.eos: ring never full, yet {} of {accepted} accepted samples were delivered before end-of-stream", got.len());
    }
}

/// close with nothing pushed / with the consumer possibly parked already
fn close_without_push() {
    let (src, track, _fb) = sample_track(MediaKind::Audio, 4);
    let cons = std::thread::spawn(move || consume(track, 2));
    let extra = src.clone();
    let h = std::thread::spawn(move || drop(extra));
    drop(src);
    h.join().unwrap();
    let (got, eos) = cons.join().unwrap();
    assert!(eos && got.is_empty(), "C20.eos");
}

fn two_producers(cap: usize, n: u32, shared: bool) {
    let (src, track, _fb) = sample_track(MediaKind::Audio, cap);
    let cons = std::thread::spawn(move || consume(track, 2 * n as usize + 2));
    let run = move |p: u32, s: &SampleStreamSource| {
        for i in 0..n {
            if i % 2 == 0 {
                s.send(sample(p, i)).unwrap();
            } else {
                let _ = s.try_send(sample(p, i));
            }
        }
    };
    let hs: Vec<_> = if shared {
        let a = Arc::new(src);
        (0..2u32)
            .map(|p| {
                let a = a.clone();
                std::thread::spawn(move || run(p, &a))
            })
            .collect()
    } else {
        let b = src.clone();
        vec![std::thread::spawn(move || run(0, &src)), std::thread::spawn(move || run(1, &b))]
    };
    for h in hs {
        h.join().unwrap();
    }
    let (got, eos) = cons.join().unwrap();
    judge(&got, eos, 2, "two_producers");
}

fn main() {
    match std::env::args().nth(1).as_deref() {
        Some("sp") => {
            close_without_push();
            single_producer(1, 4, None);
            single_producer(2, 5, None);
            single_producer(8, 6, None);
            single_producer(2, 5, Some(3));
            println!("c20-miri sp: ok");
        }
        Some("mp") => {
            two_producers(2, 3, true);
            two_producers(2, 3, false);
            two_producers(16, 3, true);
            println!("c20-miri mp: ok");
        }
        _ => {
            eprintln!("usage: c20-miri <sp|mp>");
            std::process::exit(2);
        }
    }
}
