//! C20 under Miri: real OS threads (Miri's seeded, preemptive scheduler), the unhooked
//! `std::sync::atomic` / `parking_lot` code paths, heap-backed payloads. Miri reports data races,
//! reads of uninitialised memory, double frees, and (at exit) leaked allocations; the logical
//! oracles (identity / once / order / end-of-stream) are asserted on top.
//!
//!   c20-miri sp     single-producer scenarios (one pushing thread; stop() / drop from other threads)
//!   c20-miri mp     two producers on one ring (shared Arc and clones)
//!   c20-miri td     teardown: the consumer abandons the track after k receives (k = 0: never calls
//!                   recv), or stops and abandons it, or stalls until the producers are done; the
//!                   creating thread drops its source and track handles at once, so the last handle
//!                   goes with samples still queued (capacity 1 / 2 / 4 exactly full, partly filled,
//!                   empty; one and two producers) and SpscRing::drop has to release them. Payloads
//!                   are `Bytes::from_owner` over a heap-backed owner that counts its drops: on top
//!                   of Miri's own leak check at exit and its double-free / use-after-free detection
//!                   the run asserts that every payload created was released exactly once
//!                   (C20.release). No -Zmiri-ignore-leaks anywhere.
// cargo merges c20/.cargo/config.toml (which turns the hooks on) into this crate's configuration;
// the runner overrides it through the RUSTFLAGS environment variable. Refuse to build otherwise.
#[cfg(rustrtc_verif)]
compile_error!("the Miri engine must run the unhooked code: run with RUSTFLAGS='--cfg c20_miri' (see c20/src/miri.rs)");

use bytes::Bytes;
use rustrtc::media::frame::{AudioFrame, MediaKind, MediaSample};
use rustrtc::media::track::{sample_track, MediaStreamTrack, SampleStreamSource, SampleStreamTrack};
use rustrtc::media::MediaError;
use std::sync::Arc;

fn payload(p: u32, i: u32) -> Vec<u8> {
    (0..(5 + (p + i) % 9)).map(|k| (p * 31 + i * 7 + k) as u8).collect()
}

fn sample(p: u32, i: u32) -> MediaSample {
    MediaSample::Audio(AudioFrame {
        rtp_timestamp: (p << 16) | i,
        clock_rate: 48000,
        data: Bytes::from(payload(p, i)), // heap allocation: a slot read twice is a double free
        sequence_number: Some(i as u16),
        payload_type: Some(96 + p as u8),
        ..Default::default()
    })
}

fn consume(track: Arc<SampleStreamTrack>, cap: usize) -> (Vec<u32>, bool) {
    let mut got = vec![];
    loop {
        if got.len() > cap {
            return (got, false);
        }
        match futures::executor::block_on(track.recv()) {
            Ok(MediaSample::Audio(f)) => {
                let (p, i) = (f.rtp_timestamp >> 16, f.rtp_timestamp & 0xffff);
                assert_eq!(&f.data[..], &payload(p, i)[..], "C20.identity: payload of p{p}#{i} differs from what was pushed");
                assert_eq!(f.sequence_number, Some(i as u16), "C20.identity");
                got.push(f.rtp_timestamp);
            }
            Ok(_) => panic!("C20.identity: video sample on an audio track"),
            Err(MediaError::EndOfStream) => return (got, true),
            Err(e) => panic!("C20.eos: recv ended with {e:?}"),
        }
    }
}

fn judge(got: &[u32], eos: bool, producers: u32, what: &str) {
    assert!(eos, "C20.once: more receives than pushes in {what}: {got:?}");
    let mut seen = std::collections::BTreeSet::new();
    for g in got {
        assert!(seen.insert(*g), "C20.once: p{}#{} delivered twice in {what}: {got:?}", g >> 16, g & 0xffff);
    }
    for p in 0..producers {
        let mine: Vec<u32> = got.iter().filter(|g| *g >> 16 == p).map(|g| g & 0xffff).collect();
        assert!(mine.windows(2).all(|w| w[0] < w[1]), "C20.order: producer {p} reordered in {what}: {mine:?}");
    }
}

/// one producer thread pushing `n` samples with the three push calls, consumer on another thread
fn single_producer(cap: usize, n: u32, stop_after: Option<u32>) {
    let (src, track, _fb) = sample_track(MediaKind::Audio, cap);
    let t2 = track.clone();
    let cons = std::thread::spawn(move || consume(t2, n as usize + 2));
    let t3 = track.clone();
    let prod = std::thread::spawn(move || {
        let mut accepted = 0;
        let mut i = 0;
        while i < n {
            match i % 3 {
                0 => {
                    src.send(sample(0, i)).unwrap();
                    accepted += 1;
                    i += 1;
                }
                1 => {
                    if src.try_send(sample(0, i)).is_ok() {
                        accepted += 1;
                    }
                    i += 1;
                }
                _ => {
                    let k = (n - i).min(2);
                    src.send_many((i..i + k).map(|j| sample(0, j))).unwrap();
                    accepted += k;
                    i += k;
                }
            }
            if stop_after == Some(i) {
                t3.stop();
            }
        }
        drop(src); // last handle: closes the source
        accepted
    });
    let accepted = prod.join().unwrap();
    let (got, eos) = cons.join().unwrap();
    judge(&got, eos, 1, "single_producer");
    assert!(got.len() as u32 <= accepted, "C20.balance: received {} of {accepted} accepted", got.len());
    if stop_after.is_none() && n as usize <= cap {
        assert_eq!(got.len() as u32, accepted, "C20.eos: ring never full, yet {} of {accepted} accepted samples were delivered before end-of-stream", got.len());
    }
}

/// close with nothing pushed / with the consumer possibly parked already
fn close_without_push() {
    let (src, track, _fb) = sample_track(MediaKind::Audio, 4);
    let cons = std::thread::spawn(move || consume(track, 2));
    let extra = src.clone();
    let h = std::thread::spawn(move || drop(extra));
    drop(src);
    h.join().unwrap();
    let (got, eos) = cons.join().unwrap();
    assert!(eos && got.is_empty(), "C20.eos");
}

fn two_producers(cap: usize, n: u32, shared: bool) {
    let (src, track, _fb) = sample_track(MediaKind::Audio, cap);
    let cons = std::thread::spawn(move || consume(track, 2 * n as usize + 2));
    let run = move |p: u32, s: &SampleStreamSource| {
        for i in 0..n {
            if i % 2 == 0 {
                s.send(sample(p, i)).unwrap();
            } else {
                let _ = s.try_send(sample(p, i));
            }
        }
    };
    let hs: Vec<_> = if shared {
        let a = Arc::new(src);
        (0..2u32)
            .map(|p| {
                let a = a.clone();
                std::thread::spawn(move || run(p, &a))
            })
            .collect()
    } else {
        let b = src.clone();
        vec![std::thread::spawn(move || run(0, &src)), std::thread::spawn(move || run(1, &b))]
    };
    for h in hs {
        h.join().unwrap();
    }
    let (got, eos) = cons.join().unwrap();
    judge(&got, eos, 2, "two_producers");
}

// ---------------------------------------------------------------------------------------------
// teardown with samples still queued
// ---------------------------------------------------------------------------------------------
mod tracked {
    use std::sync::atomic::{AtomicU32, Ordering};
    const P: usize = 4;
    const N: usize = 32;
    #[allow(clippy::declare_interior_mutable_const)]
    const Z: AtomicU32 = AtomicU32::new(0);
    #[allow(clippy::declare_interior_mutable_const)]
    const ROW: [AtomicU32; N] = [Z; N];
    static CREATED: [[AtomicU32; N]; P] = [ROW; P];
    static RELEASED: [[AtomicU32; N]; P] = [ROW; P];

    /// owner of one payload; the bytes live on the heap, so a read through a stale `Bytes` is a
    /// use after free Miri sees
    pub struct Owner {
        p: u32,
        i: u32,
        data: Vec<u8>,
    }
    impl AsRef<[u8]> for Owner {
        fn as_ref(&self) -> &[u8] {
            &self.data
        }
    }
    impl Drop for Owner {
        fn drop(&mut self) {
            RELEASED[self.p as usize][self.i as usize].fetch_add(1, Ordering::SeqCst);
        }
    }
    pub fn payload(p: u32, i: u32) -> bytes::Bytes {
        CREATED[p as usize][i as usize].fetch_add(1, Ordering::SeqCst);
        bytes::Bytes::from_owner(Owner { p, i, data: super::payload(p, i) })
    }
    pub fn reset() {
        for p in 0..P {
            for i in 0..N {
                CREATED[p][i].store(0, Ordering::SeqCst);
                RELEASED[p][i].store(0, Ordering::SeqCst);
            }
        }
    }
    /// every thread has ended and every handle is gone: each payload created was released once
    pub fn check(what: &str) -> (u32, u32) {
        let (mut created, mut released) = (0, 0);
        for p in 0..P {
            for i in 0..N {
                let (c, r) = (CREATED[p][i].load(Ordering::SeqCst), RELEASED[p][i].load(Ordering::SeqCst));
                assert!(c <= 1, "harness: p{p}#{i} created {c} times in {what}");
                assert!(r <= c, "C20.release: released twice: p{p}#{i} created {c} time(s), released {r} time(s) in {what}");
                assert!(r == c, "C20.release: leaked: p{p}#{i} was never released after every handle was dropped in {what}");
                created += c;
                released += r;
            }
        }
        (created, released)
    }
}

fn tracked_sample(p: u32, i: u32) -> MediaSample {
    MediaSample::Audio(AudioFrame {
        rtp_timestamp: (p << 16) | i,
        clock_rate: 48000,
        data: tracked::payload(p, i),
        sequence_number: Some(i as u16),
        payload_type: Some(96 + p as u8),
        ..Default::default()
    })
}

#[derive(Clone, Copy)]
enum Push {
    Send,
    Try,
    Many(u32),
}

#[derive(Clone, Copy, PartialEq)]
enum Cons {
    /// receive at most k samples, then drop the track handle
    Abandon(u32),
    /// the same, with stop() before the handle goes
    StopThenAbandon(u32),
    /// receive k, wait until every producer thread is done, drain to end-of-stream
    StallThenDrain(u32),
}

/// The creating thread lets go of its source and its track handle right after spawning; the
/// last handle (whichever thread Miri's scheduler makes last) tears the ring down.
fn teardown(what: &str, cap: usize, producers: &[&[Push]], cons: Cons) {
    use std::sync::atomic::{AtomicUsize, Ordering};
    tracked::reset();
    let np = producers.len();
    let (src, track, _fb) = sample_track(MediaKind::Audio, cap);
    let done = Arc::new(AtomicUsize::new(0));
    let consumer = {
        let (t, done) = (track.clone(), done.clone());
        std::thread::spawn(move || {
            let mut got: Vec<u32> = vec![];
            let eos;
            let take = |t: &SampleStreamTrack, limit: Option<u32>, got: &mut Vec<u32>| -> bool {
                let mut n = 0;
                while limit.map(|k| n < k).unwrap_or(true) {
                    assert!(got.len() <= 64, "C20.once: more receives than pushes: {got:?}");
                    match futures::executor::block_on(t.recv()) {
                        Ok(MediaSample::Audio(f)) => {
                            let (p, i) = (f.rtp_timestamp >> 16, f.rtp_timestamp & 0xffff);
                            assert_eq!(&f.data[..], &payload(p, i)[..], "C20.identity: payload of p{p}#{i} differs from what was pushed");
                            got.push(f.rtp_timestamp);
                            n += 1;
                        }
                        Ok(_) => panic!("C20.identity: video sample on an audio track"),
                        Err(MediaError::EndOfStream) => return true,
                        Err(e) => panic!("C20.eos: recv ended with {e:?}"),
                    }
                }
                false
            };
            match cons {
                Cons::Abandon(k) => eos = take(&t, Some(k), &mut got),
                Cons::StopThenAbandon(k) => {
                    eos = take(&t, Some(k), &mut got);
                    t.stop();
                }
                Cons::StallThenDrain(k) => {
                    if !take(&t, Some(k), &mut got) {
                        while done.load(Ordering::SeqCst) < np {
                            std::thread::yield_now();
                        }
                        eos = take(&t, None, &mut got);
                        assert!(eos, "C20.eos");
                    } else {
                        eos = true;
                    }
                }
            }
            drop(t);
            (got, eos)
        })
    };
    let hs: Vec<_> = producers
        .iter()
        .enumerate()
        .map(|(p, ops)| {
            let (s, ops, done) = (src.clone(), ops.to_vec(), done.clone());
            std::thread::spawn(move || {
                let p = p as u32;
                let mut i = 0u32;
                for op in ops {
                    match op {
                        Push::Send => {
                            s.send(tracked_sample(p, i)).unwrap();
                            i += 1;
                        }
                        Push::Try => {
                            let _ = s.try_send(tracked_sample(p, i));
                            i += 1;
                        }
                        Push::Many(n) => {
                            s.send_many((i..i + n).map(|j| tracked_sample(p, j))).unwrap();
                            i += n;
                        }
                    }
                }
                drop(s);
                done.fetch_add(1, Ordering::SeqCst);
            })
        })
        .collect();
    drop(src);
    drop(track);
    for h in hs {
        h.join().unwrap();
    }
    let (got, _eos) = consumer.join().unwrap();
    let mut seen = std::collections::BTreeSet::new();
    for g in &got {
        assert!(seen.insert(*g), "C20.once: p{}#{} delivered twice in {what}: {got:?}", g >> 16, g & 0xffff);
    }
    for p in 0..np as u32 {
        let mine: Vec<u32> = got.iter().filter(|g| *g >> 16 == p).map(|g| g & 0xffff).collect();
        assert!(mine.windows(2).all(|w| w[0] < w[1]), "C20.order: producer {p} reordered in {what}: {mine:?}");
    }
    let (created, released) = tracked::check(what);
    assert_eq!(created, released);
}

fn main() {
    match std::env::args().nth(1).as_deref() {
        Some("sp") => {
            close_without_push();
            single_producer(1, 4, None);
            single_producer(2, 5, None);
            single_producer(8, 6, None);
            single_producer(2, 5, Some(3));
            println!("c20-miri sp: ok");
        }
        Some("mp") => {
            two_producers(2, 3, true);
            two_producers(2, 3, false);
            two_producers(16, 3, true);
            println!("c20-miri mp: ok");
        }
        Some("td") => {
            use Push::*;
            // nobody receives: the fill level at teardown is fixed by the pushes
            teardown("cap1 exactly full", 1, &[&[Send, Send]], Cons::Abandon(0));
            teardown("cap2 exactly full", 2, &[&[Send, Send, Send]], Cons::Abandon(0));
            teardown("cap4 exactly full", 4, &[&[Many(3), Send, Send]], Cons::Abandon(0));
            teardown("cap2 full, try_send refused", 2, &[&[Try, Try, Try]], Cons::Abandon(0));
            teardown("cap4 partly filled", 4, &[&[Send, Try]], Cons::Abandon(0));
            teardown("cap2 empty", 2, &[&[]], Cons::Abandon(0));
            teardown("cap2 two producers full", 2, &[&[Send, Send], &[Send, Try]], Cons::Abandon(0));
            // the consumer takes one sample while the producer overflows: any fill level, wrapped ring
            teardown("cap2 abandon after 1", 2, &[&[Send, Send, Send, Try]], Cons::Abandon(1));
            teardown("cap2 stop then abandon", 2, &[&[Send, Send, Send]], Cons::StopThenAbandon(1));
            teardown("cap1 stall then drain", 1, &[&[Send, Send, Send]], Cons::StallThenDrain(0));
            println!("c20-miri td: ok");
        }
        _ => {
            eprintln!("usage: c20-miri <sp|mp|td>");
            std::process::exit(2);
        }
    }
}
