#!/bin/bash
# tools/mutant_check.sh <patch.diff> <prop> [<prop>...]
# Runs the quick checks of the given properties against a candidate change WITHOUT touching /repo:
# a scratch worktree of /repo's main ($M/repo) gets the patch, and copies of the harness crates
# (/tmp/mutcheck/rtcsim, /tmp/mutcheck/c20) are built against it with their own target directory.
# Prints one line per property: CAUGHT / MISSED / ERROR. Use for development; the registered checks always use /repo.
set -u
patch="$(readlink -f "$1")"; shift
M=${MUTCHECK_DIR:-/tmp/mutcheck}
mkdir -p $M
if [ ! -d $M/repo ]; then git -C /repo worktree add -q --detach $M/repo main || exit 2; fi
git -C $M/repo checkout -q -- . ; git -C $M/repo clean -qfd src tests >/dev/null 2>&1
git -C $M/repo checkout -q --detach main || exit 2
rsync -a --delete --exclude target /verif/rtcsim/ $M/rtcsim/
rsync -a --delete --exclude target /verif/c20/ $M/c20/
rsync -a --delete /verif/regressions/ $M/regressions/
cp /verif/known_findings.json $M/
sed -i "s#path = \"/repo\"#path = \"$M/repo\"#" $M/rtcsim/Cargo.toml $M/c20/Cargo.toml $M/c20/miri/Cargo.toml 2>/dev/null
sed -i "s#/verif/target#$M/target#" $M/rtcsim/.cargo/config.toml
# panics of the scratch worktree must still count as rustrtc's
sed -i "s#p.starts_with(\"/repo/\")#(p.starts_with(\"/repo/\") || p.starts_with(\"$M/repo/\"))#" $M/rtcsim/src/sim.rs
if ! git -C $M/repo apply --check "$patch" 2>/dev/null; then echo "PATCH-DOES-NOT-APPLY $patch"; exit 2; fi
git -C $M/repo apply "$patch"
trap 'git -C $M/repo checkout -q -- . ; git -C $M/repo clean -qfd src tests >/dev/null 2>&1' EXIT
mkdir -p $M/evidence $M/replays
need_sim=0; for p in "$@"; do [ "$p" != C20 ] && need_sim=1; done
if [ $need_sim = 1 ]; then
  if ! (cd $M/rtcsim && CARGO_NET_OFFLINE=true cargo build --profile sim --offline -q 2> $M/build.log); then
    echo "ERROR build failed: $(grep -m3 '^error' $M/build.log)"; exit 2
  fi
fi
for p in "$@"; do
  if [ "$p" = C20 ]; then out=$(cd $M/c20 && ./check.sh quick 2>&1); rc=$?
  else out=$(cd $M && VERIF_MAX_SHRINKS=2 $M/target/sim/rtcsim check "$p" quick 2>&1); rc=$?
    if [ "$p" = C12 ] && [ $rc = 0 ]; then out=$(cd $M/c20 && ./check.sh c12 quick 2>&1); rc=$?; fi   # second engine of C12
  fi
  nviol=$(echo "$out" | grep -c "^VIOLATION property=$p ")
  first=$(echo "$out" | grep "^  $p\.\|^  regression\|^VIOLATION" | head -1 | cut -c1-240)
  case $rc in
    1) echo "CAUGHT $p ($nviol violation lines) $first";;
    0) echo "MISSED $p";;
    *) echo "ERROR  $p rc=$rc $(echo "$out" | grep -i "HARNESS ERROR\|error" | head -2 | cut -c1-200)";;
  esac
done
