#!/usr/bin/env python3
"""Regenerates /verif/MANIFEST.json from the table below (kept in one place so it stays valid)."""
import json, subprocess
hooks = subprocess.run(["git","-C","/repo","log","--format=%h","--grep=^verif hooks"],capture_output=True,text=True).stdout.split()[::-1]
base_note = ("Trusted: tokio current_thread runtime + paused clock as scheduler/clock model; the harness' own decoders "
             "(DTLS record layer, AES-GCM open, SCTP chunk walk, CRC32c) and reference models; interleavings explored at await points only "
             "(seeded select! order + seeded task deferral); sampling, not proof.")
T = "deterministic simulation with fault injection"
CHECKS = {
 "C01": ("exploration", "Seeded search over fault plans (drop/dup/delay/hold/flip addressed by sender, SCTP chunk class and ordinal; background rates; partitions), knob settings (RTO, windows, burst, cwnd, heartbeat, initial TSN at the 2^32 wrap) and task schedules against the real IceConn->DTLS->SCTP->DataChannel stack; prefix oracle at every delivery, completeness oracle a generous bound after heal.", T+" (seeded plans, wire-monitor-addressed faults, shrinking, replay)", "§4 C01"),
 "C02": ("exploration", "Real DtlsTransport pair; victim in client or server role with expected fingerprint absent/matching/mismatching/claimed-by-another-key; on-path rewriter replaces/empties Certificate, truncates/bit-flips/randomises/drops/re-fragments handshake messages on every retransmission. Systematic core of 360 cases exhaustively each run, then random combinations. Oracles: Connected only with the fingerprint's key holder and a shared master secret; otherwise Failed, no application data, no exported keys.", T+" (on-path handshake rewriting, systematic core + seeded combinations)", "§4 C02"),
 "C03": ("exploration", "Fault-free handshake and payloads from 1..8 concurrent senders per side while a third host injects cleartext/wrong-key/spoofed records of every content type before, during and after the handshake, and an on-path party adds every stride-th single-bit flip and truncation of genuine records. Oracles: upper layer sees exactly what the keyed peer sent; state unchanged; every emitted application record is epoch>=1, opens under the negotiated key, <=1200 B plaintext, unique (epoch, seq).", T+" (third-party injection, bit-flip fans, concurrent senders, wire monitor)", "§4 C03"),
 "C10": ("exploration", "Two full PeerConnections on a fault-free simulated network for every compatible point of the configuration lattice (mode x media mix x bundle x rtcp-mux x ICE-lite x UDP mux x latching x SDP compatibility x offerer = 588 compatible points, all enumerated in thorough, sampled in quick, each with seeded latencies and task schedule). Oracle: offer/answer succeeds, both Connected within the configured timeouts, one data-channel message and RTP packets per direction arrive intact, DTLS keys/SRTP exporter identical at both ends. ICE-TCP, TURN, UPnP are excluded (no seam).", T+" (configuration-lattice enumeration under a seeded scheduler)", "§4 C10"),
 "C11": ("fault_enumeration", "Every single fault {drop, dup, late dup, swap, delay 0.7/6 s, split in 2/3 fragments} on every handshake datagram class of both directions (first transmission and first retransmission) is enumerated; pairs are sampled (quick) or fully enumerated (thorough); then random multi-fault histories. Oracles: both Connected => identical secrets/keys/profile/exporter; data intact or absent; after heal both Connected before the 30 s deadline.", T+" (enumerated single/double faults + seeded histories)", "§4 C11"),
 "C12": ("exploration", "1..16 channels of all six types (negotiated and in-band DCEP), 1..8 sender tasks per channel, sizes 0..256 KiB, channel close, under the C01 fault space. Oracles: each delivered message equals exactly one submitted message of that channel and sender, order per mode, Open exactly once before first message, Close at most once, in-band parameters preserved.", T+" (reference message model per channel/sender)", "§4 C12"),
 "C13": ("exploration", "C01/C12 runs with the wire monitor's SCTP invariants on every emitted packet (size, CRC32c by an own implementation, verification tag, consecutive first-transmission TSNs) and temporal invariants (no retransmission after a delivered covering SACK, window rule with RFC-sound exclusions, 125 s post-ack quiet).", T+" (wire monitor over decrypted SCTP)", "§4 C13"),
 "C14": ("exploration", "SRTP-mandatory RtpTransport legs plus bridge targets; all programs of length <=3 (quick) / <=4 (thorough) over a 16-op alphabet in both modes, then random programs run sequentially or from 2-4 racing tasks; every emitted datagram must open under an independent SRTP implementation (webrtc-srtp) and equal an application packet; nothing before keys; listeners/observers/bridge only see authenticated input.", T+" (program enumeration + racing tasks, reference SRTP as wire oracle)", "§4 C14"),
 "C18": ("exploration", "IceConn with latching on SimNet; all words of length <=5 (quick) / <=6 (thorough) over {3 sources x RTP-match/other/RTCP x marker x seq step} + {reset, retarget, pair-update} for probation {0,1,2,3,6,8} enumerated in blocks, plus marker-less length-8/10 words for the timeout rule, plus random sequences up to 72 ops through the real socket path. Reference model accepts any source some documented rule selects.", T+" (bounded exhaustive enumeration of packet histories + seeded long histories)", "§4 C18"),
 "C19": ("exploration", "RtpTransport on SimNet: registrations (SSRC/RID/MID/PT lists/provisional; closed or stalled listeners) interleaved with packets of arbitrary SSRC/PT/extensions, checked against a branching model of the documented priority; rewrite bridge with interleaved source streams, jumps and wraps, checked per source stream on the target's wire.", T+" (reference demux model, wire tap on bridge target)", "§4 C19"),
}
NA = {
 "C08": "answer validity is a pure function of (configuration, stored state, offer text): no schedule, clock, fault or interleaving enters it, so simulation would be input fuzzing in costume",
 "C15": "RTP/RTCP encode/decode inverse laws and reference conformance are pure functions of input bytes/values",
 "C16": "STUN/TURN message conformance, candidate-line round trip and pair-priority symmetry are pure algebra over values",
}
PENDING = ["C04","C05","C06","C07","C09","C17","C20"]
import sys, os
claimed = [p for p in CHECKS if os.path.exists(f"/verif/evidence/{p}.json") or True]
def chk(pid):
    cat, text, tech, ref = CHECKS[pid]
    return {"property_id":pid,"quick_cmd":f"./check {pid} quick","thorough_cmd":f"./check {pid} thorough","evidence_file":f"/verif/evidence/{pid}.json",
            "replay_cmd_template":"./check --replay {path}","engine":"rtcsim" if pid!="C20" else "c20-shuttle",
            "level_claimed":{"category":cat,"text":text,"design_ref":"DESIGN.md "+ref},"level_note":base_note,"technique":tech}
m = {"version":1,
 "setup_cmd":"cd /verif/rtcsim && CARGO_NET_OFFLINE=true cargo build --profile sim --offline",
 "hooks":{"guard":"rustrtc_verif (rustc --cfg flag, not a cargo feature)",
          "enable":"rustflags '--cfg rustrtc_verif --cfg tokio_unstable' from /verif/rtcsim/.cargo/config.toml; rustrtc is a path dependency on /repo so every check rebuilds from the working tree",
          "baseline_off_cmd":"cd /repo && cargo test --workspace --no-fail-fast --offline","source_commits":hooks,"add_only":True},
 "engines":[{"name":"rtcsim","path":"/verif/rtcsim","serves_properties":sorted(CHECKS),"kind_free_text":"deterministic discrete-event simulator: single-thread paused tokio runtime, simulated UDP network with addressed fault injection and on-path rewriting, wire monitor, seeded plans, shrinking, replay files, known-findings matching"}],
 "checks":[chk(p) for p in sorted(CHECKS)],
 "not_applicable":[{"property_id":k,"reason":v} for k,v in NA.items()] + [{"property_id":p,"reason":"not claimed yet: scenario under construction (the technique applies; see DESIGN.md)"} for p in PENDING if p not in CHECKS],
 "notes":"See DESIGN.md. known_findings.json lists open findings (reported as KNOWN-FINDING lines) and fixed ones (regressions/*.json re-run on every check)."}
json.dump(m,open("/verif/MANIFEST.json","w"),indent=1)
print("claimed:",sorted(CHECKS))
