#!/usr/bin/env python3
"""For every `fix:` commit in /repo, write the REVERSE diff as a seeded change under /verif/seeded/R-<slug>/.
These are self-made (not independent) sensitivity probes: the original, defective code as a patch.
meta.json records which properties' checks are expected to catch it; tools/run_seeded.sh fills in results."""
import json, subprocess, re, os
kf = json.load(open('/verif/known_findings.json'))
by_subj = {}
for e in kf:
    if 'fix_subject' in e:
        by_subj.setdefault(e['fix_subject'], []).append(e)
log = subprocess.run(["git","-C","/repo","log","--reverse","--format=%h\t%s","--grep=^fix:"],capture_output=True,text=True).stdout.strip().split('\n')
for line in log:
    h, subj = line.split('\t',1)
    slug = re.sub(r'[^a-z0-9]+','-',subj[5:].lower())[:48].strip('-')
    d = f"/verif/seeded/R-{slug}"
    os.makedirs(d, exist_ok=True)
    diff = subprocess.run(["git","-C","/repo","diff",h,h+"~1"],capture_output=True,text=True).stdout
    open(d+"/patch.diff","w").write(diff)
    ents = by_subj.get(subj, [])
    props = sorted({e['property'] for e in ents} | {a for e in ents for a in e.get('also', [])})
    meta = {"id": f"R-{slug}", "origin": "self-made: reverse of a fix commit (restores the original defect)", "fix_commit": h, "fix_subject": subj,
            "breaks": props, "what": [e['what'] for e in ents], "needs": "see the fix commit message / regression replay", "demonstration": "the regression replay(s) named in known_findings.json (fail with this patch, pass without)"}
    mp = d+"/meta.json"
    if os.path.exists(mp):
        old = json.load(open(mp)); meta["results"] = old.get("results")
        for k in ("note", "notes"):
            if k in old: meta[k] = old[k]
    json.dump(meta, open(mp,"w"), indent=1)
    print(h, slug, props)
