#!/bin/bash
# tools/run_all.sh [seed] [tier]: every claimed check once, one summary line each (for soak runs; not registered anywhere)
seed=${1:-20260925}; tier=${2:-quick}
cd /verif
for p in $(python3 -c "import json;print(' '.join(c['property_id'] for c in json.load(open('MANIFEST.json'))['checks']))"); do
  t0=$(date +%s); out=$(VERIF_SEED=$seed ./check $p $tier 2>&1); rc=$?; t1=$(date +%s)
  echo "seed=$seed $p rc=$rc $((t1-t0))s $(echo "$out" | grep -c '^VIOLATION') violation lines $(echo "$out" | grep -c '^KNOWN-FINDING') known"
  [ $rc != 0 ] && echo "$out" | grep -E "^VIOLATION|^  C|HARNESS" | head -5
done
