#!/bin/bash
# tools/intake_mutant.sh <worktree suffix, e.g. C05b> <id, e.g. M-C05-2> <prop>...
# Stage a sub-agent's deliverables, remove its worktree, run our quick checks against the patch (isolated copy) and
# confirm the demonstration + suite ourselves. Log: /tmp/intake_<id>.log. Uses /tmp/mutcheck3 and /tmp/confirm.
w=$1; id=$2; shift 2
d=/tmp/mstage/$id; mkdir -p $d
cp /tmp/mut_$w/_mutant/patch.diff /tmp/mut_$w/_mutant/demo_test.rs /tmp/mut_$w/_mutant/notes.md $d/ || exit 2
git -C /repo worktree remove --force /tmp/mut_$w
{
  echo "== checks"; MUTCHECK_DIR=/tmp/mutcheck3 /verif/tools/mutant_check.sh $d/patch.diff "$@"
  echo "== confirm"; /verif/tools/confirm_mutant.sh $d main | grep -E "CONFIRM|VERDICT"
} > /tmp/intake_$id.log 2>&1
