#!/bin/bash
# tools/confirm_mutant.sh <mutant_dir> [<base-commit>]
# Confirms a sub-agent's seeded change ourselves, in a scratch worktree (never in /repo):
#  1. the demonstration passes on the unmodified tree, 2. the patch applies and compiles,
#  3. the demonstration fails with the patch, 4. the existing test suite still passes with the patch
#     (only the known always-failing test may fail).
# Prints a CONFIRM line per step and a final verdict; writes <mutant_dir>/confirm.log.
set -u
d="$(readlink -f "$1")"; base="${2:-main}"
W=/tmp/confirm/repo
mkdir -p /tmp/confirm
if [ ! -d $W ]; then git -C /repo worktree add -q --detach $W main || exit 2; fi
git -C $W checkout -q -- . ; git -C $W clean -qfd src tests >/dev/null 2>&1
git -C $W checkout -q --detach "$base" || exit 2
log="$d/confirm.log"; : > "$log"
say(){ echo "$@" | tee -a "$log"; }
say "base commit: $(git -C $W rev-parse --short HEAD)"
demo=$(ls "$d"/demo_test.rs 2>/dev/null | head -1)
[ -z "$demo" ] && { say "CONFIRM no demo_test.rs"; exit 2; }
cp "$demo" $W/tests/demo_test.rs
cd $W
export CARGO_NET_OFFLINE=true
r1=$(timeout 1800 cargo test --offline --test demo_test 2>&1 | grep -E "^test result|^error" | head -3)
say "CONFIRM demo on unmodified tree: $r1"
if ! git apply --check "$d/patch.diff" 2>/dev/null; then say "CONFIRM patch does not apply on $base"; exit 1; fi
git apply "$d/patch.diff"
r2=$(timeout 1800 cargo test --offline --test demo_test 2>&1 | grep -E "^test result|^error" | head -3)
say "CONFIRM demo with patch: $r2"
rm -f $W/tests/demo_test.rs
r3=$(timeout 3600 cargo test --offline --workspace --no-fail-fast 2>&1 | grep -E "\.\.\. FAILED|^error\[" | sort | uniq | head -10)
say "CONFIRM suite with patch, failing tests: ${r3:-none}"
# tests other than the known always-failing one: re-run each alone (the machine is shared; ICE tests on real sockets flake under load)
for t in $(echo "$r3" | grep "FAILED" | grep -v reinvite_answer_audio_codecs_follow_remote_offer_subset | awk '{print $2}'); do
  pass=0; for k in 1 2 3; do timeout 600 cargo test --offline --lib "$t" 2>&1 | grep -q "test result: ok" && pass=$((pass+1)); done
  say "CONFIRM re-run of $t alone with patch: $pass/3 passed"
  [ $pass = 3 ] && r3=$(echo "$r3" | grep -v "$t")
done
git -C $W checkout -q -- . ; git -C $W clean -qfd src tests >/dev/null 2>&1
ok=1
echo "$r1" | grep -q "test result: ok" || ok=0
echo "$r2" | grep -q "FAILED" || ok=0
other=$(echo "$r3" | grep -v "reinvite_answer_audio_codecs_follow_remote_offer_subset" | grep -c .)
[ "$other" != 0 ] && ok=0
say "VERDICT $([ $ok = 1 ] && echo CONFIRMED || echo NOT-CONFIRMED)"
