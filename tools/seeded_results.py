#!/usr/bin/env python3
"""Generate /verif/seeded/RESULTS.md from the meta.json of every seeded change."""
import json, os, glob
rows = []
for mp in sorted(glob.glob('/verif/seeded/*/meta.json')):
    m = json.load(open(mp)); d = os.path.basename(os.path.dirname(mp))
    res = (m.get('results') or {}).get('lines') or []
    verdicts = []
    for l in res:
        w = l.split()
        if w and w[0] in ('CAUGHT', 'MISSED', 'ERROR', 'PATCH-DOES-NOT-APPLY'):
            verdicts.append(f"{w[0]} {w[1] if len(w) > 1 else ''}".strip())
    what = m.get('summary') or '; '.join(m.get('what', []) or []) or m.get('fix_subject', '')
    rows.append((d, ','.join(m.get('breaks', [])), ', '.join(verdicts) or 'not run', what.replace('|', '/')[:220], (m.get('note') or '').replace('|', '/')))
out = ["# Seeded changes and what the checks say", "",
       "`R-*` = reverse of a fix commit (self-made); `M-*` = written by a fresh sub-agent from the property text alone.",
       "Verdicts are from `tools/run_seeded.sh` (quick tier, isolated copy of the harness, /repo untouched). See each meta.json for history.", "",
       "| id | breaks | quick checks | what | note |", "|---|---|---|---|---|"]
out += [f"| {a} | {b} | {c} | {d} | {e} |" for a, b, c, d, e in rows]
caught = sum(1 for r in rows if 'CAUGHT' in r[2]); missed = [r[0] for r in rows if 'CAUGHT' not in r[2]]
out += ["", f"{caught} of {len(rows)} caught by at least one quick check; not caught: {', '.join(missed) or 'none'}."]
open('/verif/seeded/RESULTS.md', 'w').write('\n'.join(out) + '\n')
print(out[-1])
