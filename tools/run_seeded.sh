#!/bin/bash
# tools/run_seeded.sh [dir...]: run every seeded change (default: all of /verif/seeded/*) through
# tools/mutant_check.sh for the properties listed in its meta.json ("breaks") and store the outcome in meta.json.
cd /verif
dirs="$@"; [ -z "$dirs" ] && dirs=$(ls -d seeded/*/)
for d in $dirs; do
  d=${d%/}
  props=$(python3 -c "import json;print(' '.join(json.load(open('$d/meta.json')).get('breaks',[])))")
  [ -z "$props" ] && { echo "$d: no properties listed"; continue; }
  pf=$d/patch.diff; [ -f $d/patch_head.diff ] && pf=$d/patch_head.diff   # patch_head.diff: the same change re-based onto the current tree
  res=$(tools/mutant_check.sh $pf $props 2>&1)
  echo "== $d"; echo "$res"
  python3 - "$d" "$res" <<'PY'
import json,sys,datetime
d,res=sys.argv[1],sys.argv[2]
m=json.load(open(d+'/meta.json')); m['results']={"lines":res.strip().split('\n')}
json.dump(m,open(d+'/meta.json','w'),indent=1)
PY
done
