#!/usr/bin/env python3
"""Fold the thread family's evidence (evidence/C12-threads.json, written by c20 `c12`) into evidence/C12.json
(written by rtcsim) so that one file describes everything the C12 check covered. Called by ./check C12."""
import json, os, sys
root = os.path.join(os.path.dirname(os.path.abspath(__file__)), "..")
a_path = os.path.join(root, "evidence", "C12.json")
t_path = os.path.join(root, "evidence", "C12-threads.json")
a = json.load(open(a_path)); t = json.load(open(t_path))
if a.get("tier") != t.get("tier") or a.get("seed") != t.get("seed"):
    print("merge_c12_evidence: tier/seed of the two engines differ", file=sys.stderr); sys.exit(1)
cov = a["coverage"]
cov["engines"] = {
    "network_simulation": "rtcsim (single-thread paused tokio runtime, SimNet faults, wire monitor) - the counts at the top level of coverage are this engine's",
    "thread_schedules": "c20 crate, family sctp_send (shuttle-scheduled OS-thread senders on one association) - counts under thread_family",
}
cov["thread_family"] = t["coverage"]
a["assumptions"] = list(a.get("assumptions", [])) + ["[thread family] " + x for x in t.get("assumptions", [])]
def _n(v):
    return len(v) if isinstance(v, list) else int(v or 0)
if isinstance(a.get("violations"), list) and isinstance(t.get("violations"), list):
    a["violations"] = a["violations"] + t["violations"]
else:
    a["violations"] = _n(a.get("violations")) + _n(t.get("violations"))
a["wall_s"] = round(float(a.get("wall_s", 0)) + float(t.get("wall_s", 0)), 3)
json.dump(a, open(a_path, "w"), indent=1)
os.remove(t_path)
