//! Layer rig: IceConn -> DtlsTransport -> (SctpTransport | RtpTransport) assembled from the
//! public constructors exactly as peer_connection.rs::start_dtls does, on the simulated network.
use crate::monitor::KeySrc;
use crate::net::addr;
use crate::sim::Ctx;
use bytes::Bytes;
use rustrtc::transports::dtls::DtlsTransport;
use rustrtc::transports::ice::conn::IceConn;
use rustrtc::transports::ice::IceSocketWrapper;
use rustrtc::transports::PacketReceiver;
use rustrtc::verif_hooks::{self as vh, UdpSocket};
use std::net::SocketAddr;
use std::sync::Arc;
use tokio::sync::{mpsc, watch};
use tokio::task::JoinHandle;

pub struct LayerEp {
    pub host: String,
    pub addr: SocketAddr,
    pub conn: Arc<IceConn>,
    pub dtls: Arc<DtlsTransport>,
    pub incoming: Option<mpsc::UnboundedReceiver<Bytes>>,
    pub sock_tx: watch::Sender<Option<IceSocketWrapper>>,
    pub tasks: Vec<JoinHandle<()>>,
    pub is_client: bool,
}

impl LayerEp {
    pub fn abort_all(&mut self) {
        for t in self.tasks.drain(..) {
            t.abort();
        }
    }
}

/// Socket + IceConn + receive pump only (no DTLS); used by C18 and as the base of layer_ep.
pub fn bare_conn(ctx: &Ctx, host: &str, port: u16, peer: SocketAddr) -> (Arc<IceConn>, watch::Sender<Option<IceSocketWrapper>>, JoinHandle<()>, SocketAddr) {
    let me = addr(host, port);
    let sock = Arc::new(UdpSocket::from_sim(ctx.net.bind(me).expect("bind")));
    let (tx, rx) = watch::channel(Some(IceSocketWrapper::Udp(sock.clone())));
    let conn = IceConn::new(rx, peer, Some(host.to_string()));
    let c2 = conn.clone();
    let pump = tokio::spawn(vh::wrap_task(async move {
        let mut buf = vec![0u8; 2048];
        let mut mb = Vec::new();
        loop {
            match sock.recv_from(&mut buf).await {
                Ok((n, from)) => {
                    c2.receive(Bytes::copy_from_slice(&buf[..n]), from, &mut mb).await;
                }
                Err(_) => break,
            }
        }
    }));
    (conn, tx, pump, me)
}

pub async fn layer_ep(ctx: &Ctx, host: &str, peer_host: &str, is_client: bool, cert_idx: usize, expected_fp: Option<String>) -> LayerEp {
    layer_ep_chain(ctx, host, peer_host, is_client, cert_idx, None, expected_fp).await
}

/// As `layer_ep`; `extra = Some((idx, prepend))` makes the endpoint present a certificate list of two entries: its own
/// certificate plus pool certificate `idx` (whose private key it does NOT use) after or before it.
pub async fn layer_ep_chain(ctx: &Ctx, host: &str, peer_host: &str, is_client: bool, cert_idx: usize, extra: Option<(usize, bool)>, expected_fp: Option<String>) -> LayerEp {
    let peer = addr(peer_host, 5000);
    let (conn, sock_tx, pump, me) = bare_conn(ctx, host, 5000, peer);
    let mut cert = crate::sim::cert(cert_idx);
    if let Some((idx, prepend)) = extra {
        let other = crate::sim::cert(idx).certificate.remove(0);
        if prepend {
            cert.certificate.insert(0, other);
        } else {
            cert.certificate.push(other);
        }
    }
    let (dtls, incoming, runner) = DtlsTransport::new(conn.clone(), cert, is_client, 2048, expected_fp).await.expect("DtlsTransport::new");
    let run = tokio::spawn(vh::wrap_task(runner));
    ctx.keys.lock().unwrap().push(KeySrc { host: me.ip(), dtls: dtls.clone(), is_client, role_unknown: false });
    LayerEp { host: host.into(), addr: me, conn, dtls, incoming: Some(incoming), sock_tx, tasks: vec![pump, run], is_client }
}

pub fn dtls_state_name(t: &DtlsTransport) -> &'static str {
    use rustrtc::transports::dtls::DtlsState::*;
    match t.get_state() {
        New => "New",
        Handshaking => "Handshaking",
        Connected(..) => "Connected",
        Failed => "Failed",
        Closed => "Closed",
    }
}
