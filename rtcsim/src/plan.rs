//! A run is a pure function of (Plan, code). The seed is expanded into an explicit
//! plan before the run starts; nothing is drawn lazily from a PRNG during a run
//! except through sub-seeds recorded in the plan.
use serde::{Deserialize, Serialize};
use std::collections::BTreeMap;

#[derive(Serialize, Deserialize, Clone, Debug, PartialEq)]
#[serde(tag = "t")]
pub enum Action {
    Drop,
    /// deliver the original and `copies` extra copies, the k-th after k*delay_ms
    Dup { delay_ms: u64, copies: u8 },
    Delay { ms: u64 },
    /// hold until `n` later datagrams of the same sender have been sent (swap-with-next), 500 ms fallback
    Hold { n: u32 },
    FlipBit { bit: u32 },
    Truncate { len: u32 },
    /// the send call itself fails with this io::ErrorKind name
    SendErr { kind: String },
    /// an on-path party replaces the datagram by whatever the scenario's rewriter returns for (name, args)
    Rewrite { name: String, a: Vec<i64> },
}

#[derive(Serialize, Deserialize, Clone, Debug, PartialEq)]
pub struct Rule {
    /// sender host: "A", "B", "M" or "*"
    pub from: String,
    /// class token produced by the wire monitor, e.g. "SCTP:INIT", "DTLS:hs:finished", "any"
    pub class: String,
    /// n-th datagram (0-based) of that sender carrying that token
    pub ordinal: u32,
    pub action: Action,
}

#[derive(Serialize, Deserialize, Clone, Debug, PartialEq)]
pub struct Window {
    pub from: String,
    pub start_ms: u64,
    pub end_ms: u64,
}

#[derive(Serialize, Deserialize, Clone, Debug, PartialEq, Default)]
pub struct Background {
    pub drop_pm: u32,
    pub dup_pm: u32,
    pub delay_pm: u32,
    pub delay_max_ms: u64,
    pub flip_pm: u32,
    pub subseed: u64,
    /// only datagrams carrying this class token are eligible ("" = all)
    #[serde(default)]
    pub class: String,
}

impl Background {
    pub fn is_off(&self) -> bool {
        self.drop_pm == 0 && self.dup_pm == 0 && self.delay_pm == 0 && self.flip_pm == 0
    }
}

#[derive(Serialize, Deserialize, Clone, Debug, PartialEq, Default)]
pub struct Sched {
    pub rng_seed: u64,
    pub defer_pct: u8,
}

/// One workload / API / attacker operation. Generic on purpose so that shrinking
/// and (de)serialisation are uniform across scenarios.
#[derive(Serialize, Deserialize, Clone, Debug, PartialEq, Default)]
pub struct Op {
    pub at_ms: u64,
    pub kind: String,
    #[serde(default)]
    pub a: Vec<i64>,
    #[serde(default)]
    pub s: String,
}

impl Op {
    pub fn new(at_ms: u64, kind: &str, a: &[i64]) -> Self {
        Op { at_ms, kind: kind.into(), a: a.to_vec(), s: String::new() }
    }
    pub fn arg(&self, i: usize) -> i64 {
        self.a.get(i).copied().unwrap_or(0)
    }
}

#[derive(Serialize, Deserialize, Clone, Debug, PartialEq, Default)]
pub struct Plan {
    pub prop: String,
    pub scenario: String,
    pub seed: u64,
    /// one-way latency in microseconds: [from A, from anybody else]
    pub latency_us: [u64; 2],
    #[serde(default)]
    pub faults: Vec<Rule>,
    #[serde(default)]
    pub windows: Vec<Window>,
    #[serde(default)]
    pub bg: Background,
    /// after this virtual instant no fault of any kind is applied
    pub heal_at_ms: u64,
    #[serde(default)]
    pub sched: Sched,
    #[serde(default)]
    pub ops: Vec<Op>,
    #[serde(default)]
    pub knobs: BTreeMap<String, i64>,
}

impl Plan {
    pub fn knob(&self, k: &str, default: i64) -> i64 {
        self.knobs.get(k).copied().unwrap_or(default)
    }
    pub fn has_faults(&self) -> bool {
        !self.faults.is_empty() || !self.windows.is_empty() || !self.bg.is_off()
    }
}

#[derive(Serialize, Deserialize, Clone, Debug, PartialEq)]
pub struct Violation {
    pub oracle: String,
    pub detail: String,
}

#[derive(Serialize, Deserialize, Clone, Debug, Default)]
pub struct Outcome {
    pub violations: Vec<Violation>,
    pub log_hash: u64,
    pub trace_hash: u64,
    pub events: u64,
    pub virt_ms: u64,
    pub stats: BTreeMap<String, u64>,
    /// faults that fired, as explicit rules (used by the concretise step of shrinking)
    pub fired: Vec<Rule>,
    pub nontrivial: bool,
    #[serde(default)]
    pub log: Vec<String>,
}

#[derive(Serialize, Deserialize, Clone, Debug)]
pub struct Replay {
    pub property: String,
    pub oracle: String,
    pub detail: String,
    pub log_hash: u64,
    pub plan: Plan,
    #[serde(default)]
    pub original_seed: u64,
    #[serde(default)]
    pub shrink_runs: u32,
}

/// SplitMix64: the only PRNG; every stream is derived from VERIF_SEED.
#[derive(Clone, Debug)]
pub struct Rng(pub u64);
impl Rng {
    pub fn new(seed: u64) -> Self {
        Rng(seed)
    }
    pub fn next(&mut self) -> u64 {
        self.0 = self.0.wrapping_add(0x9E3779B97F4A7C15);
        let mut z = self.0;
        z = (z ^ (z >> 30)).wrapping_mul(0xBF58476D1CE4E5B9);
        z = (z ^ (z >> 27)).wrapping_mul(0x94D049BB133111EB);
        z ^ (z >> 31)
    }
    pub fn below(&mut self, n: u64) -> u64 {
        if n == 0 { 0 } else { self.next() % n }
    }
    pub fn range(&mut self, lo: u64, hi_incl: u64) -> u64 {
        lo + self.below(hi_incl - lo + 1)
    }
    pub fn chance(&mut self, pct: u64) -> bool {
        self.below(100) < pct
    }
    pub fn pick<'a, T>(&mut self, xs: &'a [T]) -> &'a T {
        &xs[self.below(xs.len() as u64) as usize]
    }
    pub fn fork(&mut self) -> Rng {
        Rng(self.next())
    }
    pub fn fill(&mut self, b: &mut [u8]) {
        for c in b.chunks_mut(8) {
            let v = self.next().to_le_bytes();
            c.copy_from_slice(&v[..c.len()]);
        }
    }
}

pub fn mix(a: u64, b: u64) -> u64 {
    let mut r = Rng(a ^ b.wrapping_mul(0xD6E8FEB86659FD93));
    r.next()
}

pub fn fnv(h: u64, b: &[u8]) -> u64 {
    b.iter().fold(h, |h, x| (h ^ *x as u64).wrapping_mul(0x100000001b3))
}
pub const FNV0: u64 = 0xcbf29ce484222325;
