//! Simulated TCP on top of SimNet (child module of `net`): listeners, three-way handshake, ordered reliable
//! byte streams. Every segment (SYN, SYN-ACK, ACK, data, FIN, RST) travels through the same (virtual time, seq)
//! delivery queue as the datagrams, is classified ("TCP" + "TCP:syn" / "TCP:synack" / "TCP:ack" / "TCP:data" /
//! "TCP:fin" / "TCP:rst"), passes the fault stage and is written to the event log.
//!
//! What an application may legitimately observe on a healthy TCP connection is NOT a fault and is governed by
//! plan knobs (all seeded from plan.seed, all usable in a fault-free run, not switched off by heal_at_ms):
//!   tcp_mss            0 = one segment per write, n = writes are cut into segments of at most n bytes
//!   tcp_recut_pct      that share of the writes is additionally cut at a seeded offset (biased to offsets 1 and 2,
//!                      i.e. inside / right behind an RFC 4571 length prefix)
//!   tcp_gap_us         pieces of one write arrive this far apart (0 = same instant, still separate segments); not applied
//!                      while the direction is already more than 50 ms behind, so that pacing never turns into a slow link
//!   tcp_coalesce       1 = a write is appended to the sender's previous segment while that one is still in flight
//!                      and would not arrive earlier (Nagle / receiver-side coalescing)
//!   tcp_short_read_pct that share of the reads returns only a seeded prefix of what is buffered (a read never
//!                      returns more than the rest of one delivered segment anyway)
//!   tcp_short_write_pct that share of the writes accepts only a seeded prefix (send buffer nearly full)
//! Writes can also report WouldBlock / Pending: that is decided by the io_yield decider inside the seam.
//!
//! Faults (rules / windows / background of the plan, only before heal_at_ms) keep their plan representation and
//! mean for a byte stream:
//!   Delay{ms}                    the segment arrives that much later - and so does everything behind it (in order)
//!   Drop, FlipBit, Hold, window  the segment is lost / fails its checksum: retransmitted after RTO (data 250 ms,
//!                                SYN 1000 ms), i.e. a delay with head-of-line blocking
//!   Dup                          nothing (the receiver discards a duplicate segment); counted
//!   Truncate{len}                re-cut: a data segment is split at byte `len`, second piece 1 ms later
//!   Rewrite{"tcp_recut",[gap_us, cut, cut, ...]}  re-cut at all given offsets, pieces gap_us apart
//!   SendErr{kind} on TCP:syn     the connect fails: "ConnectionRefused" after one round trip (RST), others at once
//!   SendErr{..} on TCP:data      connection reset: the segment is discarded, both ends receive RST
use super::*;
use rustrtc::verif_hooks::{SimTcp, SimTcpListener, SimTcpStream};

#[derive(Clone, Copy, PartialEq, Debug)]
pub enum SegKind {
    Syn,
    SynAck,
    Ack,
    Data,
    Fin,
    Rst,
}
impl SegKind {
    fn token(self) -> &'static str {
        match self {
            SegKind::Syn => "TCP:syn",
            SegKind::SynAck => "TCP:synack",
            SegKind::Ack => "TCP:ack",
            SegKind::Data => "TCP:data",
            SegKind::Fin => "TCP:fin",
            SegKind::Rst => "TCP:rst",
        }
    }
}

pub struct TcpSeg {
    conn: u64,
    /// receiving end: 0 = the connecting end, 1 = the accepting end
    to_end: usize,
    kind: SegKind,
}

#[derive(Default)]
struct EndState {
    local: Option<SocketAddr>,
    rx: VecDeque<Vec<u8>>,
    rx_off: usize,
    rx_fin: bool,
    err: Option<io::ErrorKind>,
    established: bool,
    read_waker: Option<Waker>,
    conn_waker: Option<Waker>,
    wr_shutdown: bool,
    closed: bool,
    /// delivery time of the latest segment this end has sent (segments never overtake one another)
    last_at: Option<Instant>,
    /// queue key of the latest data segment this end has sent (coalescing)
    last_data_key: Option<(Instant, u64)>,
    /// RFC 4571 deframer over the bytes this end has written (probes only)
    defr: Vec<u8>,
    last_writer: Option<String>,
    last_write_at: Option<Instant>,
    blocked_writer: Option<(String, Instant)>,
}

struct Conn {
    ends: [EndState; 2],
    listener: SocketAddr,
    accepted: bool,
}

#[derive(Default)]
struct ListenState {
    backlog: VecDeque<u64>,
    waker: Option<Waker>,
}

pub struct TcpState {
    conns: BTreeMap<u64, Conn>,
    listeners: HashMap<SocketAddr, ListenState>,
    segs: HashMap<(Instant, u64), TcpSeg>,
    /// addresses that have owned a TCP socket in this run (a SYN to a closed port of such a host is answered by RST)
    hosts: std::collections::BTreeSet<IpAddr>,
    next_conn: u64,
    rng: Rng,
    mss: usize,
    recut_pct: u64,
    gap: Duration,
    coalesce: bool,
    short_read_pct: u64,
    short_write_pct: u64,
    /// destination ip -> source ip of an outgoing connection (a connect call names no local address)
    route: Option<Box<dyn Fn(SocketAddr) -> IpAddr + Send>>,
}

impl TcpState {
    pub fn new(plan: &Plan) -> Self {
        TcpState {
            conns: BTreeMap::new(),
            listeners: HashMap::new(),
            segs: HashMap::new(),
            hosts: std::collections::BTreeSet::new(),
            next_conn: 0,
            rng: Rng::new(mix(plan.seed, 0x7463_7073_696d)),
            mss: plan.knob("tcp_mss", 0).max(0) as usize,
            recut_pct: plan.knob("tcp_recut_pct", 0).clamp(0, 100) as u64,
            gap: Duration::from_micros(plan.knob("tcp_gap_us", 0).max(0) as u64),
            coalesce: plan.knob("tcp_coalesce", 0) != 0,
            short_read_pct: plan.knob("tcp_short_read_pct", 0).clamp(0, 100) as u64,
            short_write_pct: plan.knob("tcp_short_write_pct", 0).clamp(0, 100) as u64,
            route: None,
        }
    }
    /// the delivery task asks whether the queue entry it just removed is a TCP segment
    pub fn take_seg(&mut self, k: &(Instant, u64)) -> Option<TcpSeg> {
        self.segs.remove(k)
    }
    /// The total partition is still on when a segment would arrive: this (re)transmission is lost too. Returns the
    /// instant of the next attempt and moves the direction's in-order floor there, so nothing sent later overtakes it.
    pub fn hold_back(&mut self, seg: &TcpSeg, at: Instant) -> Instant {
        let Some(c) = self.conns.get_mut(&seg.conn) else { return at };
        let e = &mut c.ends[1 - seg.to_end];
        let at = e.last_at.map(|l| l.max(at)).unwrap_or(at);
        e.last_at = Some(at);
        e.last_data_key = None;
        at
    }
    pub fn put_seg(&mut self, k: (Instant, u64), seg: TcpSeg) {
        self.segs.insert(k, seg);
    }
    pub fn sockets_of(&self, ip: std::net::IpAddr) -> Vec<String> {
        let mut v: Vec<String> = self.listeners.keys().filter(|a| a.ip() == ip).map(|a| format!("tcp-listen {a}")).collect();
        for (id, c) in self.conns.iter() {
            for (ei, e) in c.ends.iter().enumerate() {
                if let Some(l) = e.local {
                    // the accepting end exists once the listener took the SYN (backlog or accepted)
                    if l.ip() == ip && !e.closed && (ei == 0 || c.ends[1].local.is_some()) {
                        v.push(format!("tcp conn {id} end {ei} {l}"));
                    }
                }
            }
        }
        v
    }
    pub fn open_connections(&self) -> usize {
        self.conns.len()
    }
}

pub struct SimTcpL {
    addr: SocketAddr,
    net: Arc<SimNet>,
}
pub struct SimTcpS {
    conn: u64,
    end: usize,
    local: SocketAddr,
    peer: SocketAddr,
    net: Arc<SimNet>,
}
struct Binder(Arc<SimNet>);

fn task_id() -> String {
    tokio::task::try_id().map(|i| i.to_string()).unwrap_or_default()
}

fn frame_class(body: &[u8]) -> &'static str {
    match body.first() {
        None => "empty",
        Some(0..=3) => "stun",
        Some(20..=63) => "dtls",
        Some(128..=191) => "rtp",
        Some(_) => "other",
    }
}

impl SimNet {
    /// Install this network as the target of `TcpListener::bind` / `TcpStream::connect` inside rustrtc.
    pub fn install_tcp_binder(self: &Arc<Self>) {
        rustrtc::verif_hooks::set_tcp_binder(Some(Arc::new(Binder(self.clone()))));
    }
    /// Which local address an outgoing connection to `dst` uses (default: the two-host world A <-> B).
    pub fn set_tcp_route(&self, f: Box<dyn Fn(SocketAddr) -> IpAddr + Send>) {
        self.inner.lock().unwrap().tcp.route = Some(f);
    }
    pub fn tcp_listen(self: &Arc<Self>, mut a: SocketAddr) -> io::Result<Arc<SimTcpL>> {
        let mut n = self.inner.lock().unwrap();
        if a.port() == 0 {
            loop {
                a.set_port(n.next_port);
                n.next_port = n.next_port.wrapping_add(1).max(1024);
                if !n.tcp.listeners.contains_key(&a) {
                    break;
                }
            }
        } else if n.tcp.listeners.contains_key(&a) {
            return Err(io::ErrorKind::AddrInUse.into());
        }
        n.tcp.listeners.insert(a, ListenState::default());
        n.tcp.hosts.insert(a.ip());
        n.live += 1;
        drop(n);
        self.sh.lock().unwrap().event(&format!("{} tcp listen", host_name(a.ip())), &format!("{a}"));
        Ok(Arc::new(SimTcpL { addr: a, net: self.clone() }))
    }
    pub fn tcp_connect(self: &Arc<Self>, to: SocketAddr) -> io::Result<Arc<SimTcpS>> {
        self.tcp_connect_from(None, to)
    }
    /// `src`: the connecting host when the caller knows it (harness-driven hosts such as an attacker)
    pub fn tcp_connect_from(self: &Arc<Self>, src: Option<IpAddr>, to: SocketAddr) -> io::Result<Arc<SimTcpS>> {
        let (id, local) = {
            let mut n = self.inner.lock().unwrap();
            let src_ip: IpAddr = if let Some(ip) = src {
                ip
            } else if to.ip().is_loopback() || to.ip().is_unspecified() {
                to.ip()
            } else {
                match &n.tcp.route {
                    Some(f) => f(to),
                    None => {
                        if host_name(to.ip()) == "A" {
                            "10.0.0.2".parse().unwrap()
                        } else {
                            "10.0.0.1".parse().unwrap()
                        }
                    }
                }
            };
            let port = n.next_port;
            n.next_port = n.next_port.wrapping_add(1).max(1024);
            let local = SocketAddr::new(src_ip, port);
            let id = n.tcp.next_conn;
            n.tcp.next_conn += 1;
            let mut c = Conn { ends: [EndState::default(), EndState::default()], listener: to, accepted: false };
            c.ends[0].local = Some(local);
            n.tcp.hosts.insert(src_ip);
            n.tcp.conns.insert(id, c);
            n.live += 1;
            (id, local)
        };
        match self.tcp_segment(id, 0, SegKind::Syn, local, to, Vec::new()) {
            Ok(()) => Ok(Arc::new(SimTcpS { conn: id, end: 0, local, peer: to, net: self.clone() })),
            Err(e) => {
                let mut n = self.inner.lock().unwrap();
                n.tcp.conns.remove(&id);
                n.live -= 1;
                Err(e)
            }
        }
    }

    /// Put one segment of connection `conn`, sent by end `from_end`, on the wire: classification, fault stage,
    /// ordering floor, queue. Err = the caller's operation itself fails (SendErr on a SYN).
    fn tcp_segment(&self, conn: u64, from_end: usize, kind: SegKind, from: SocketAddr, to: SocketAddr, data: Vec<u8>) -> io::Result<()> {
        let mut n = self.inner.lock().unwrap();
        let mut sh = self.sh.lock().unwrap();
        let now = Instant::now();
        let el = now.duration_since(sh.t0);
        let host = host_name(from.ip());
        let dst = host_name(to.ip());
        let mut tokens: Vec<String> = vec!["TCP".into(), kind.token().into()];
        let mut mon = n.monitor.take().unwrap_or_else(|| Box::new(NullMonitor));
        tokens.extend(mon.on_tcp(from, to, kind.token(), &data, &mut sh));
        n.monitor = Some(mon);
        tokens.push("any".into());
        n.sent += 1;
        let hc = {
            let c = n.host_count.entry(host.clone()).or_insert(0);
            let v = *c;
            *c += 1;
            v
        };
        let mut ords = Vec::with_capacity(tokens.len());
        for t in &tokens {
            let c = n.counts.entry((host.clone(), t.clone())).or_insert(0);
            ords.push(*c);
            *c += 1;
        }
        // ---- fault stage (same addressing as datagrams)
        let mut action: Option<Action> = None;
        if n.blackhole {
            action = Some(Action::Drop);
            sh.stat("fault.blackhole_drop", 1);
        }
        if el < n.heal_at && action.is_none() {
            let n_ref: &mut NetInner = &mut n;
            let mut hit: Option<usize> = None;
            'outer: for (ri, r) in n_ref.rules.iter().enumerate() {
                if n_ref.rule_used[ri] || !(r.from == "*" || r.from == host) {
                    continue;
                }
                for (t, o) in tokens.iter().zip(ords.iter()) {
                    if *t == r.class && *o == r.ordinal {
                        hit = Some(ri);
                        break 'outer;
                    }
                }
            }
            if let Some(ri) = hit {
                n_ref.rule_used[ri] = true;
                action = Some(n_ref.rules[ri].action.clone());
                sh.fired.push(n_ref.rules[ri].clone());
            }
            if action.is_none() {
                let ms = el.as_millis() as u64;
                if let Some(w) = n.windows.iter().find(|w| (w.from == "*" || w.from == host) && ms >= w.start_ms && ms < w.end_ms) {
                    // lost during the partition, retransmitted once it is over
                    action = Some(Action::Delay { ms: w.end_ms - ms + 250 });
                    sh.stat("fault.partition_drop", 1);
                }
            }
            if action.is_none() && !n.bg.is_off() && (n.bg.class.is_empty() || tokens.iter().any(|t| *t == n.bg.class)) {
                let h = mix(mix(n.bg.subseed, fnv(FNV0, host.as_bytes())), hc);
                let roll = (h % 1000) as u32;
                let aux = h >> 16;
                let b = &n.bg;
                let a = if roll < b.drop_pm {
                    Some(Action::Drop)
                } else if roll < b.drop_pm + b.dup_pm {
                    Some(Action::Dup { delay_ms: 1, copies: 1 })
                } else if roll < b.drop_pm + b.dup_pm + b.delay_pm {
                    Some(Action::Delay { ms: 1 + aux % b.delay_max_ms.max(1) })
                } else if roll < b.drop_pm + b.dup_pm + b.delay_pm + b.flip_pm {
                    Some(Action::FlipBit { bit: 0 })
                } else {
                    None
                };
                if let Some(a) = a {
                    sh.fired.push(Rule { from: host.clone(), class: kind.token().into(), ordinal: ords[1], action: a.clone() });
                    action = Some(a);
                }
            }
        }
        let lat = if host == "A" { n.latency[0] } else { n.latency[1] };
        let rto = Duration::from_millis(if kind == SegKind::Syn { 1000 } else { 250 });
        let mut extra = Duration::ZERO;
        let mut cuts: Vec<usize> = Vec::new();
        let mut gap = n.tcp.gap;
        let mut tag = String::new();
        let mut reset = false;
        if let Some(a) = &action {
            sh.inflight_fault = true;
            let name = match a {
                Action::Drop | Action::FlipBit { .. } | Action::Hold { .. } => {
                    extra = rto;
                    "lost_rto"
                }
                Action::Dup { .. } => "dup_ignored",
                Action::Delay { ms } => {
                    extra = Duration::from_millis(*ms);
                    "delay"
                }
                Action::Truncate { len } => {
                    cuts.push(*len as usize);
                    gap = Duration::from_millis(1);
                    "recut"
                }
                Action::Rewrite { name, a } if name == "tcp_recut" => {
                    gap = Duration::from_micros(a.first().copied().unwrap_or(0).max(0) as u64);
                    cuts.extend(a.iter().skip(1).map(|x| (*x).max(0) as usize));
                    "recut"
                }
                Action::Rewrite { .. } => "rewrite_ignored",
                Action::SendErr { kind: ek } => {
                    sh.stat("fault.senderr", 1);
                    if kind == SegKind::Syn && ek != "ConnectionRefused" {
                        sh.event(&format!("{host}>{dst} TCP+{} FAULT=connect_err", kind.token()), ek);
                        return Err(io_kind(ek).into());
                    }
                    reset = true;
                    if kind == SegKind::Syn { "refused" } else { "reset" }
                }
            };
            sh.stat(&format!("fault.tcp.{name}"), 1);
            tag = format!(" FAULT={name}");
        }
        let toks = tokens.iter().filter(|t| *t != "any").cloned().collect::<Vec<_>>().join("+");
        sh.event(&format!("{host}>{dst} {toks}{tag}"), &format!("len={} conn={conn} {:?}", data.len(), action));
        sh.stat(&format!("tcp.seg.{}", &kind.token()[4..]), 1);
        if reset {
            // the segment is discarded; RST reaches the sender one latency later - and the receiver too when the
            // connection already exists there
            let n_ref: &mut NetInner = &mut n;
            n_ref.seq += 1;
            let k = (now + lat, n_ref.seq);
            n_ref.queue.insert(k, Pending { from: to, to: from, data: Vec::new() });
            n_ref.tcp.segs.insert(k, TcpSeg { conn, to_end: from_end, kind: SegKind::Rst });
            if kind != SegKind::Syn {
                n_ref.seq += 1;
                let k = (now + lat, n_ref.seq);
                n_ref.queue.insert(k, Pending { from, to, data: Vec::new() });
                n_ref.tcp.segs.insert(k, TcpSeg { conn, to_end: 1 - from_end, kind: SegKind::Rst });
            }
            if let Some(w) = n_ref.wake.take() {
                w.wake();
            }
            return Ok(());
        }
        // ---- segmentation of a data write (legitimate TCP behaviour, seeded)
        let mut pieces: Vec<Vec<u8>> = Vec::new();
        if kind == SegKind::Data && !data.is_empty() {
            let t = &mut n.tcp;
            if cuts.is_empty() && data.len() > 1 && t.recut_pct > 0 && t.rng.below(100) < t.recut_pct {
                let c = match t.rng.below(4) {
                    0 => 1,
                    1 => 2,
                    _ => 1 + t.rng.below(data.len() as u64 - 1) as usize,
                };
                cuts.push(c.min(data.len() - 1));
                sh.stat("tcp.recut", 1);
            }
            if t.mss > 0 {
                let mut o = t.mss;
                while o < data.len() {
                    cuts.push(o);
                    o += t.mss;
                }
            }
            cuts.retain(|c| *c > 0 && *c < data.len());
            cuts.sort_unstable();
            cuts.dedup();
            let mut prev = 0;
            for c in cuts.iter().chain(std::iter::once(&data.len())) {
                pieces.push(data[prev..*c].to_vec());
                prev = *c;
            }
        } else {
            pieces.push(data);
        }
        // ---- ordering floor + queue
        let heal_abs = sh.t0 + n.heal_at;
        let n_ref: &mut NetInner = &mut n;
        let Some(c) = n_ref.tcp.conns.get_mut(&conn) else { return Ok(()) };
        let e = &mut c.ends[from_end];
        let mut at = now + lat + extra;
        if action.is_some() && at > heal_abs + lat && heal_abs > now {
            at = heal_abs + lat;
        }
        for (pi, piece) in pieces.into_iter().enumerate() {
            // the gap between pieces models segment pacing, not a slow link: once this direction is more than 50 ms
            // behind (in-order floor), pieces follow one another directly, so that the backlog stays bounded
            if pi > 0 && e.last_at.map(|l| l <= now + lat + extra + Duration::from_millis(50)).unwrap_or(true) {
                at += gap;
            }
            if let Some(l) = e.last_at {
                if at < l {
                    at = l;
                }
            }
            e.last_at = Some(at);
            if kind == SegKind::Data && n_ref.tcp.coalesce && action.is_none() {
                if let Some(k) = e.last_data_key {
                    if k.0 >= at && n_ref.tcp.segs.get(&k).map(|s| s.kind == SegKind::Data).unwrap_or(false) {
                        if let Some(p) = n_ref.queue.get_mut(&k) {
                            p.data.extend_from_slice(&piece);
                            sh.stat("tcp.coalesced", 1);
                            continue;
                        }
                    }
                }
            }
            n_ref.seq += 1;
            let k = (at, n_ref.seq);
            n_ref.queue.insert(k, Pending { from, to, data: piece });
            n_ref.tcp.segs.insert(k, TcpSeg { conn, to_end: 1 - from_end, kind });
            if kind == SegKind::Data {
                e.last_data_key = Some(k);
            }
        }
        if let Some(w) = n_ref.wake.take() {
            w.wake();
        }
        Ok(())
    }

    /// Called by the delivery task for a queue entry that is a TCP segment.
    pub(super) fn tcp_deliver(self: &Arc<Self>, seg: TcpSeg, p: Pending) {
        let mut reply: Option<(usize, SegKind, SocketAddr, SocketAddr)> = None;
        {
            let mut n = self.inner.lock().unwrap();
            let n_ref: &mut NetInner = &mut n;
            let Some(c) = n_ref.tcp.conns.get_mut(&seg.conn) else { return };
            match seg.kind {
                SegKind::Syn => {
                    let ip = p.to.ip();
                    if n_ref.tcp.listeners.contains_key(&p.to) {
                        c.ends[1].local = Some(p.to);
                        reply = Some((1, SegKind::SynAck, p.to, p.from));
                    } else if ip.is_loopback() || ip.is_unspecified() || n_ref.tcp.listeners.keys().any(|a| a.ip() == ip) || n_ref.socks.keys().any(|a| a.ip() == ip) || n_ref.tcp.hosts.contains(&ip) {
                        // the host exists, the port is closed
                        reply = Some((1, SegKind::Rst, p.to, p.from));
                    } else {
                        // nobody has that address: the SYN is lost, the caller's own timeout ends the attempt
                        self.sh.lock().unwrap().stat("tcp.syn_to_nowhere", 1);
                    }
                }
                SegKind::SynAck => {
                    let e = &mut c.ends[0];
                    if e.closed {
                        reply = Some((0, SegKind::Rst, p.to, p.from));
                    } else {
                        e.established = true;
                        if let Some(w) = e.conn_waker.take() {
                            w.wake();
                        }
                        reply = Some((0, SegKind::Ack, p.to, p.from));
                    }
                }
                SegKind::Ack => {
                    if c.ends[1].err.is_none() && !c.accepted {
                        match n_ref.tcp.listeners.get_mut(&c.listener) {
                            Some(l) => {
                                c.accepted = true;
                                c.ends[1].established = true;
                                n_ref.live += 1;
                                l.backlog.push_back(seg.conn);
                                if let Some(w) = l.waker.take() {
                                    w.wake();
                                }
                            }
                            None => reply = Some((1, SegKind::Rst, p.to, p.from)),
                        }
                    }
                }
                SegKind::Data | SegKind::Fin => {
                    let e = &mut c.ends[seg.to_end];
                    if e.closed || (seg.to_end == 1 && !c.accepted) {
                        if e.err.is_none() {
                            e.err = Some(io::ErrorKind::ConnectionReset);
                            reply = Some((seg.to_end, SegKind::Rst, p.to, p.from));
                        }
                    } else if e.err.is_none() {
                        if seg.kind == SegKind::Fin {
                            e.rx_fin = true;
                        } else if !p.data.is_empty() {
                            e.rx.push_back(p.data);
                        }
                        if let Some(w) = e.read_waker.take() {
                            w.wake();
                        }
                    }
                }
                SegKind::Rst => {
                    let e = &mut c.ends[seg.to_end];
                    if e.err.is_none() {
                        e.err = Some(if e.established || seg.to_end == 1 { io::ErrorKind::ConnectionReset } else { io::ErrorKind::ConnectionRefused });
                    }
                    for w in [e.read_waker.take(), e.conn_waker.take()].into_iter().flatten() {
                        w.wake();
                    }
                }
            }
        }
        if let Some((end, kind, from, to)) = reply {
            let _ = self.tcp_segment(seg.conn, end, kind, from, to, Vec::new());
        }
    }

    fn tcp_gc(n: &mut NetInner, conn: u64) {
        if let Some(c) = n.tcp.conns.get(&conn) {
            if c.ends[0].closed && (c.ends[1].closed || !c.accepted) {
                // both applications are done with it; segments still in flight find no connection and are ignored
                n.tcp.conns.remove(&conn);
            }
        }
    }
}

impl SimTcp for Binder {
    fn listen(&self, addr: SocketAddr) -> io::Result<Arc<dyn SimTcpListener>> {
        self.0.tcp_listen(addr).map(|l| l as Arc<dyn SimTcpListener>)
    }
    fn connect(&self, to: SocketAddr) -> io::Result<Arc<dyn SimTcpStream>> {
        self.0.tcp_connect(to).map(|s| s as Arc<dyn SimTcpStream>)
    }
}

impl SimTcpListener for SimTcpL {
    fn local_addr(&self) -> io::Result<SocketAddr> {
        Ok(self.addr)
    }
    fn poll_accept(&self, cx: &mut Context<'_>) -> Poll<io::Result<(Arc<dyn SimTcpStream>, SocketAddr)>> {
        let mut n = self.net.inner.lock().unwrap();
        let n_ref: &mut NetInner = &mut n;
        let Some(l) = n_ref.tcp.listeners.get_mut(&self.addr) else {
            return Poll::Ready(Err(io::ErrorKind::NotConnected.into()));
        };
        match l.backlog.pop_front() {
            Some(id) => {
                let peer = n_ref.tcp.conns.get(&id).and_then(|c| c.ends[0].local).unwrap_or(self.addr);
                Poll::Ready(Ok((Arc::new(SimTcpS { conn: id, end: 1, local: self.addr, peer, net: self.net.clone() }) as Arc<dyn SimTcpStream>, peer)))
            }
            None => {
                l.waker = Some(cx.waker().clone());
                Poll::Pending
            }
        }
    }
}
impl Drop for SimTcpL {
    fn drop(&mut self) {
        let mut n = self.net.inner.lock().unwrap();
        let n_ref: &mut NetInner = &mut n;
        if let Some(l) = n_ref.tcp.listeners.remove(&self.addr) {
            n_ref.live -= 1;
            // connections nobody accepted die with the listener
            for id in l.backlog {
                if let Some(c) = n_ref.tcp.conns.get_mut(&id) {
                    c.ends[1].closed = true;
                    n_ref.live -= 1;
                }
            }
        }
    }
}

impl SimTcpS {
    /// harness-driven hosts: abort the connection (RST to the peer, this end is gone)
    pub fn abort(&self) {
        {
            let mut n = self.net.inner.lock().unwrap();
            let Some(c) = n.tcp.conns.get_mut(&self.conn) else { return };
            let e = &mut c.ends[self.end];
            if e.err.is_some() {
                return;
            }
            e.err = Some(io::ErrorKind::ConnectionAborted);
            e.wr_shutdown = true;
        }
        let _ = self.net.tcp_segment(self.conn, self.end, SegKind::Rst, self.local, self.peer, Vec::new());
    }
}

impl SimTcpStream for SimTcpS {
    fn local_addr(&self) -> io::Result<SocketAddr> {
        Ok(self.local)
    }
    fn peer_addr(&self) -> io::Result<SocketAddr> {
        Ok(self.peer)
    }
    fn poll_connected(&self, cx: &mut Context<'_>) -> Poll<io::Result<()>> {
        let mut n = self.net.inner.lock().unwrap();
        let Some(c) = n.tcp.conns.get_mut(&self.conn) else { return Poll::Ready(Err(io::ErrorKind::NotConnected.into())) };
        let e = &mut c.ends[self.end];
        if let Some(k) = e.err {
            return Poll::Ready(Err(k.into()));
        }
        if e.established {
            return Poll::Ready(Ok(()));
        }
        e.conn_waker = Some(cx.waker().clone());
        Poll::Pending
    }
    fn poll_read(&self, cx: &mut Context<'_>, buf: &mut [u8]) -> Poll<io::Result<usize>> {
        let mut n = self.net.inner.lock().unwrap();
        let n_ref: &mut NetInner = &mut n;
        let Some(c) = n_ref.tcp.conns.get_mut(&self.conn) else { return Poll::Ready(Err(io::ErrorKind::NotConnected.into())) };
        let e = &mut c.ends[self.end];
        if let Some(k) = e.err {
            return Poll::Ready(Err(k.into()));
        }
        if buf.is_empty() {
            return Poll::Ready(Ok(0));
        }
        if let Some(front) = e.rx.front() {
            let avail = front.len() - e.rx_off;
            let mut take = avail.min(buf.len());
            if take > 1 && n_ref.tcp.short_read_pct > 0 && n_ref.tcp.rng.below(100) < n_ref.tcp.short_read_pct {
                take = 1 + n_ref.tcp.rng.below(take as u64 - 1) as usize;
                self.net.sh.lock().unwrap().stat("tcp.short_read", 1);
            }
            buf[..take].copy_from_slice(&front[e.rx_off..e.rx_off + take]);
            e.rx_off += take;
            if e.rx_off == front.len() {
                e.rx.pop_front();
                e.rx_off = 0;
            }
            return Poll::Ready(Ok(take));
        }
        if e.rx_fin {
            return Poll::Ready(Ok(0));
        }
        e.read_waker = Some(cx.waker().clone());
        Poll::Pending
    }
    fn try_write(&self, buf: &[u8]) -> io::Result<usize> {
        let tid = task_id();
        let now = Instant::now();
        let take;
        {
            let mut n = self.net.inner.lock().unwrap();
            let n_ref: &mut NetInner = &mut n;
            let Some(c) = n_ref.tcp.conns.get_mut(&self.conn) else { return Err(io::ErrorKind::NotConnected.into()) };
            let e = &mut c.ends[self.end];
            if e.err.is_some() || e.wr_shutdown || e.closed {
                return Err(io::ErrorKind::BrokenPipe.into());
            }
            if !e.established {
                return Err(io::ErrorKind::NotConnected.into());
            }
            if buf.is_empty() {
                return Ok(0);
            }
            let mut t = buf.len();
            if t > 1 && n_ref.tcp.short_write_pct > 0 && n_ref.tcp.rng.below(100) < n_ref.tcp.short_write_pct {
                t = 1 + n_ref.tcp.rng.below(t as u64 - 1) as usize;
            }
            take = t;
            // ---- probes: writers per stream, frames as written (RFC 4571 deframer over the sender's own bytes)
            let mut sh = self.net.sh.lock().unwrap();
            if take < buf.len() {
                sh.stat("tcp.short_write", 1);
            }
            let midframe = !e.defr.is_empty();
            if let Some(prev) = &e.last_writer {
                if *prev != tid {
                    sh.stat("probe.tcp.writer_switch", 1);
                    if e.last_write_at == Some(now) {
                        // two tasks wrote to this stream at the same virtual instant: concurrent writers
                        sh.stat("probe.tcp.concurrent_writers", 1);
                    }
                    if midframe {
                        // another task continues in the middle of a frame: the framing on this stream is gone
                        sh.stat("probe.tcp.midframe_writer_switch", 1);
                        sh.event(&format!("{} tcp writer switch inside a frame", host_name(self.local.ip())), &format!("conn={} {} -> {} pending={} bytes", self.conn, self.local, self.peer, e.defr.len()));
                    }
                }
            }
            e.last_writer = Some(tid);
            e.last_write_at = Some(now);
            e.defr.extend_from_slice(&buf[..take]);
            loop {
                if e.defr.len() < 2 {
                    break;
                }
                let l = u16::from_be_bytes([e.defr[0], e.defr[1]]) as usize;
                if e.defr.len() < 2 + l {
                    break;
                }
                let cls = frame_class(&e.defr[2..2 + l]);
                sh.stat(&format!("probe.tcp.frame.{cls}"), 1);
                e.defr.drain(..2 + l);
            }
        }
        self.net.tcp_segment(self.conn, self.end, SegKind::Data, self.local, self.peer, buf[..take].to_vec())?;
        Ok(take)
    }
    fn shutdown_write(&self) {
        {
            let mut n = self.net.inner.lock().unwrap();
            let Some(c) = n.tcp.conns.get_mut(&self.conn) else { return };
            let e = &mut c.ends[self.end];
            if e.wr_shutdown || e.err.is_some() || !e.established {
                e.wr_shutdown = true;
                return;
            }
            e.wr_shutdown = true;
        }
        let _ = self.net.tcp_segment(self.conn, self.end, SegKind::Fin, self.local, self.peer, Vec::new());
    }
    fn close(&self) {
        let mut send: Option<SegKind> = None;
        {
            let mut n = self.net.inner.lock().unwrap();
            let n_ref: &mut NetInner = &mut n;
            let Some(c) = n_ref.tcp.conns.get_mut(&self.conn) else { return };
            let e = &mut c.ends[self.end];
            if e.closed {
                return;
            }
            e.closed = true;
            n_ref.live -= 1;
            if e.err.is_none() {
                if !e.established {
                    // a connect that was given up: the half-open connection is torn down
                    e.err = Some(io::ErrorKind::ConnectionAborted);
                    e.wr_shutdown = true;
                } else if !e.rx.is_empty() {
                    // closing with unread data resets the connection
                    e.err = Some(io::ErrorKind::ConnectionReset);
                    send = Some(SegKind::Rst);
                } else if !e.wr_shutdown {
                    e.wr_shutdown = true;
                    send = Some(SegKind::Fin);
                }
            }
            e.rx.clear();
        }
        if let Some(k) = send {
            let _ = self.net.tcp_segment(self.conn, self.end, k, self.local, self.peer, Vec::new());
        }
        let mut n = self.net.inner.lock().unwrap();
        SimNet::tcp_gc(&mut n, self.conn);
    }
}
