//! Minimisation of a failing plan: concretise background faults into explicit rules,
//! then delta-debug faults, windows, ops and knobs while the *same oracle* keeps failing.
use crate::plan::*;
use crate::sim::run_plan;

pub struct Shrunk {
    pub plan: Plan,
    pub outcome: Outcome,
    pub runs: u32,
}

struct S<'a> {
    oracle: &'a str,
    runs: u32,
    max: u32,
    best: Plan,
    out: Outcome,
}

#[derive(Clone, Copy)]
enum Field {
    Faults,
    Windows,
    Ops,
}

impl S<'_> {
    fn attempt(&mut self, cand: Plan) -> bool {
        if self.runs >= self.max || cand == self.best {
            return false;
        }
        self.runs += 1;
        let o = run_plan(&cand, false);
        if o.violations.iter().any(|v| v.oracle == self.oracle) {
            self.best = cand;
            self.out = o;
            true
        } else {
            false
        }
    }
    fn len(&self, f: Field) -> usize {
        match f {
            Field::Faults => self.best.faults.len(),
            Field::Windows => self.best.windows.len(),
            Field::Ops => self.best.ops.len(),
        }
    }
    fn without(&self, f: Field, i: usize, n: usize) -> Plan {
        let mut c = self.best.clone();
        match f {
            Field::Faults => {
                let e = (i + n).min(c.faults.len());
                c.faults.drain(i..e);
            }
            Field::Windows => {
                let e = (i + n).min(c.windows.len());
                c.windows.drain(i..e);
            }
            Field::Ops => {
                let e = (i + n).min(c.ops.len());
                c.ops.drain(i..e);
            }
        }
        c
    }
    /// classic ddmin over one list: try removing chunks of decreasing size
    fn reduce(&mut self, f: Field) -> bool {
        let mut progress = false;
        if self.len(f) == 0 {
            return false;
        }
        let all = self.without(f, 0, self.len(f));
        if self.attempt(all) {
            return true;
        }
        let mut chunk = self.len(f).div_ceil(2);
        loop {
            let mut i = 0;
            while i < self.len(f) && self.runs < self.max {
                let c = self.without(f, i, chunk);
                if self.attempt(c) {
                    progress = true;
                } else {
                    i += chunk;
                }
            }
            if chunk <= 1 || self.runs >= self.max {
                break;
            }
            chunk = chunk.div_ceil(2);
        }
        progress
    }
}

pub fn shrink(plan: &Plan, oracle: &str, max_runs: u32) -> Option<Shrunk> {
    let first = run_plan(plan, false);
    if !first.violations.iter().any(|v| v.oracle == oracle) {
        return None;
    }
    let mut s = S { oracle, runs: 1, max: max_runs, best: plan.clone(), out: first };

    // 1. concretise: background faults that fired become explicit rules; unfired rules go
    if !s.best.bg.is_off() || s.out.fired.len() < s.best.faults.len() {
        let mut c = s.best.clone();
        c.faults = s.out.fired.clone();
        c.bg = Background::default();
        s.attempt(c);
    }
    // 2. list reductions to a fixpoint
    for _ in 0..4 {
        let a = s.reduce(Field::Faults);
        let b = s.reduce(Field::Windows);
        let c = s.reduce(Field::Ops);
        if !(a || b || c) || s.runs >= s.max {
            break;
        }
    }
    // 3. scalars toward defaults
    if s.best.sched.defer_pct != 0 {
        let mut c = s.best.clone();
        c.sched.defer_pct = 0;
        s.attempt(c);
    }
    let keys: Vec<String> = s.best.knobs.keys().cloned().collect();
    for k in keys {
        // configuration-lattice scenarios: the knobs ARE the case, removing one changes the configuration
        if k == "nch" || k.starts_with("ch") || k.starts_with("keep_") || s.best.scenario == "pc_connect" {
            continue;
        }
        let mut c = s.best.clone();
        c.knobs.remove(&k);
        s.attempt(c);
    }
    if s.best.latency_us != [1000, 1000] {
        let mut c = s.best.clone();
        c.latency_us = [1000, 1000];
        s.attempt(c);
    }
    for i in 0..s.best.faults.len() {
        let simpler = match &s.best.faults[i].action {
            Action::Dup { delay_ms, copies } if *copies > 1 => Some(Action::Dup { delay_ms: *delay_ms, copies: 1 }),
            Action::Hold { .. } | Action::FlipBit { .. } | Action::Truncate { .. } | Action::Rewrite { .. } => Some(Action::Drop),
            _ => None,
        };
        if let Some(a) = simpler {
            let mut c = s.best.clone();
            c.faults[i].action = a;
            s.attempt(c);
        }
    }
    for i in 0..s.best.ops.len() {
        if let Some((j, v)) = s.best.ops[i].a.iter().cloned().enumerate().filter(|(_, v)| *v > 64).max_by_key(|(_, v)| *v) {
            let mut c = s.best.clone();
            c.ops[i].a[j] = (v / 8).max(16);
            s.attempt(c);
        }
    }
    Some(Shrunk { plan: s.best, outcome: s.out, runs: s.runs })
}
