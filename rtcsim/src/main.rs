//! rtcsim — deterministic simulation with fault injection for restsend/rustrtc.
mod driver;
mod known;
mod monitor;
mod net;
mod plan;
mod rig;
mod rig_pc;
mod scenarios;
mod shrink;
mod sim;

use scenarios::Tier;
use serde_json::json;

fn tier_of(s: Option<&String>) -> Tier {
    let env = std::env::var("VERIF_TIER").ok();
    match s.map(|x| x.as_str()).or(env.as_deref()) {
        Some("thorough") => Tier::Thorough,
        _ => Tier::Quick,
    }
}

fn components() -> serde_json::Value {
    json!({
        "real": ["IceConn", "DtlsTransport", "SctpTransport", "DataChannel", "RtpTransport", "SrtpSession", "IceTransport", "PeerConnection", "media tracks", "all rustrtc parsers"],
        "stubbed": ["kernel UDP sockets (SimNet)", "clock (tokio paused virtual time; Instant/SystemTime seams)", "OS randomness (seeded byte source)", "certificate generation (fixed pool)", "host interface enumeration"],
        "not_simulated": ["ICE-TCP / TURN-TCP (TcpStream)", "TURN relay", "UPnP", "mDNS/DNS", "T.38/spandsp"]
    })
}

fn check_cfg(prop: &str, tier: Tier) -> Option<driver::CheckCfg> {
    let base_assumptions = vec![
        "tokio current_thread runtime with paused clock is a faithful scheduler/clock model (virtual time advances only when every task is idle)".to_string(),
        "task interleavings are explored at await points only (seeded select! order + seeded task deferral), not preemption inside a task".to_string(),
        "the harness' own decoders (DTLS record layer, AES-GCM open, SCTP chunk walk, CRC32c) are correct".to_string(),
        "a clean batch is evidence over the sampled schedules/fault plans, not a proof".to_string(),
    ];
    let (level, rule) = match prop {
        "C01" => ("exploration", "one evaluation = one simulated run of two layer-rig endpoints (IceConn->DTLS->SCTP->DataChannel) under a plan expanded from (VERIF_SEED, run index): knobs, message workload, addressed fault rules (sender, chunk class, ordinal -> drop/dup/delay/hold/flip), background fault rates, partitions, scheduler seed and deferral. distinct = semantic event trace (actor, packet classes, fault action, API outcome; no timestamps or lengths) hashes to a value not seen before in the batch; non-trivial = at least one fault fired and at least one message was accepted for sending."),
        "C12" => ("exploration", "as C01 but 1..16 channels of all six reliability/ordering types, negotiated or in-band (DCEP), 1..8 sender tasks per channel, sizes 0..256 KiB, optional channel close; distinct/non-trivial as for C01."),
        "C13" => ("exploration", "as C01 with the wire monitor's SCTP invariants switched on, small receive windows with a held-back DATA packet to drive a_rwnd to 0, and a 125 s post-completion quiet observation; distinct/non-trivial as for C01."),
        "C11" => ("fault_enumeration", "one evaluation = one simulated DTLS handshake + data exchange between two real DtlsTransports under a fault plan. The first N runs enumerate EVERY single fault {drop, dup, late dup x2, swap-with-next, delay 0.7 s, delay 6 s, split into 2/3 fragments} on every handshake datagram class of both directions (first transmission and first retransmission); then pairs of such faults (quick: seeded sample; thorough: all ordered pairs); then random multi-fault histories with background loss/dup/delay/corruption. distinct = semantic trace hash unseen in the batch; non-trivial = at least one fault fired."),
        "C02" => ("exploration", "one evaluation = one handshake where the victim (client or server role) holds an expected fingerprint (absent / matching / mismatching / claimed-by-a-key-the-peer-does-not-hold) and an on-path party rewrites one handshake message class on every (re)transmission (replace or empty Certificate, truncate / bit-flip / randomise body, drop, re-fragment). The systematic core (role x fingerprint mode x rewrite x target message = 360 cases) runs exhaustively every time, followed by random combinations. distinct/non-trivial as C11."),
        "C03" => ("exploration", "one evaluation = a fault-free handshake and 1..40 application payloads (0..5000 B) from 1..8 concurrent sender tasks per side, while a third host injects plaintext epoch-0 ApplicationData / Alerts / CCS / Handshake records, wrongly-keyed epoch>=1 records and spoofed-source copies at random instants before, during and after the handshake, and an on-path party delivers, next to a genuine record, every stride-th single-bit flip and truncation of it. distinct = semantic trace hash; non-trivial = at least one forged record was delivered."),
        "C19" => ("exploration", "one evaluation = one simulated run of a plain-RTP RtpTransport on host B fed through its real socket -> pump -> IceConn::receive path, under a plan expanded from (VERIF_SEED, run index): extension-id knobs, listener channel capacity, and an op list of listener registrations (SSRC / RID / MID / payload type / payload-type list / provisional; overlapping), listener close (receiver dropped), listener stall (bounded channel not drained -> full), RTP packets with arbitrary SSRC / PT / MID / RID / extension shape, and rewrite-bridge install / clear ops (rule tables with exact-PT and catch-all rules, fixed or offset SSRC, PT rewrite, MID stamping, extension stripping, optional video target) towards target transports on host C whose wire is recorded; 1-4 interleaved source streams with sequence / timestamp jumps, 16/32-bit wraps, duplicates and reordering, either as plan ops (knob wire=0, every packet fully processed before the next op, demux oracles exact) or through addressed network faults drop/dup/delay/hold on the A->B RTP datagrams (knob wire=1, bridge oracles only). Every delivery is compared with a branching reference model of the documented priority RID -> MID -> SSRC (incl. learnt bindings) -> unique payload type -> single provisional; every bridged output is attributed to its source packet by a payload tag. distinct = semantic event trace (op kinds with their listener / label arguments, per packet the deciding level, number of competing registrations and the receiver, per bridged output the rule and continuity class; no timestamps, lengths or raw SSRC values) hashes to a value not seen before in the batch; non-trivial = at least one packet for which two or more registered listeners competed (matched the packet at any priority level), or at least one bridged source stream that contained a timestamp discontinuity, a 16/32-bit wrap, an irregular source sequence step (duplicate / reorder / jump), or that was interleaved with another source stream in the same bridge installation, or (wire=1) a network fault fired on a bridged stream."),
        "C14" => ("exploration", "one evaluation = one simulated run of scenario srtp_gate: two SRTP-mandatory RtpTransport legs A and B over IceConn on the simulated network, an SRTP-mandatory bridge target C (keys only by op), a plain-RTP bridge target P and an attacker host M, in WebRTC-like mode (rtcp-mux) or SDES-like mode (allow-ssrc-change transport, optionally a separate RTCP port), with one of the three SRTP profiles, executing a program of plan.ops over {keys(A|B|C, key set 0|1), send_rtp (3 streams incl. the RTX-like one; the NACK/RTX responder calls the same method), send (raw RTP bytes / RTCP bytes), send_rtcp (PLI, BYE, RR, compound), send_rtcp_sync(BYE), close (clear_listeners + synchronous BYE as PeerConnection close does), listen, inject cleartext RTP/RTCP, inject RTP/RTCP protected by the reference with the right key (key set 0|1), inject RTP/RTCP protected with a key nobody installed or right-key-then-bit-flipped, bridge A->C / A->P, unbridge}; injected packets come from M or with the peer's spoofed source address. Run indices below the exhaustive count enumerate EVERY program of length <= 3 (quick) / <= 4 (thorough) over a 16-symbol alphabet in each of the two modes, executed sequentially; the remaining indices are swarm-generated programs of 1..14 ops executed either sequentially or partitioned over 2-4 racing tasks whose interleaving (with each other and with the receive pumps) is decided by the seeded scheduler (plan.sched), 25 % of them with flip/truncate/dup/delay faults on the peers' genuine datagrams. Oracles: C14.tx at the wire monitor (every datagram leaving A, B or C must authenticate and decrypt under an independent reference SRTP context (crate webrtc-srtp, fresh context per datagram) for a key set installed on that transport and equal a packet the application asked to send or, for C, a bridged packet; any datagram before keys exist is a violation); C14.rx at three listener channels (ssrc / payload-type / provisional route), the RTCP listener, RtpObserver ingress and bridge-egress callbacks and the wire of both bridge targets (every surfaced packet must be one that was put on the wire protected under a key set the receiving transport has installed, with unchanged header). distinct = semantic event trace (rig configuration, op kinds/targets/results, wire classes, surfaced-packet verdicts; no timestamps, lengths or packet ids) hashes to a value not seen before in the batch; non-trivial = at least one send-type op (send_rtp, send, send_rtcp, send_rtcp_sync, close) was executed on a transport that had no keys yet, or at least one cleartext / wrong-key / corrupted packet was injected towards a transport while an observer, listener or RTCP listener was registered on it."),
        "C18" => ("exploration", "one evaluation = one simulated run of a single IceConn (latching enabled, probation 0..8, expected SSRC known/unknown, rtcp-mux on/off, signalled remote = a silent address / one of the sources / not set) under a plan expanded from (VERIF_SEED, run index); after every delivered packet remote_addr, remote_rtcp_addr and rtp_latched are compared with a reference model of the documented rules. Even run indices below 2x the enumerated space are exhaustive small-scope blocks (knob enum=1: 512 consecutive sequences of ALL length-5 (quick) / length-6 (thorough) words over 21 symbols = {A,C,M} x {matching RTP x marker 0/1 x seq +1/jump, other-SSRC RTP, RTCP} + {reset_latch, signalling retarget, selected-pair update}, for probation in {0,1,2,3,6,8} x signalled remote in {silent address, source A}; knob enum=2: all length-8 / length-10 marker-less matching words over {A,C,M} x {+1, jump} for probation {6,8}; every word runs on a fresh IceConn and is fed straight to IceConn::receive; prefixes cover all shorter words; other_stats.seqs counts the words). The other runs (enum=0) are random sequences of up to ~60 packets from up to 5 source addresses through the simulated socket and pump task, with generator-drawn reordering/duplication between sources, sequence jumps and wraps, wrong-SSRC streams, RTCP from RTP and RTP+1 ports, runts, non-RTP junk and interleaved control ops. distinct = semantic trace (per packet: source, class, SSRC match, marker, resulting addresses and latch flag; no sequence numbers, times or lengths) not seen before in the batch; non-trivial = at commit time at least two competing sources had sent matching RTP, or a packet from an address other than the committed one was delivered after commit."),
        "C10" => ("exploration", "one evaluation = two full PeerConnections (ICE gathering, checks, nomination, DTLS-SRTP or SDES or plain RTP, SCTP/DCEP, media tracks) on a fault-free simulated network with a configuration point of the lattice mode{WebRtc,Srtp,Rtp} x mix{dc,audio,audio+video,dc+audio,dc+audio+video} x bundle{3} x rtcp-mux{2} x ICE-lite{none,A,B} x UDP-mux{off,answerer} x latching{off,on,on+probation} x compat{Standard,LegacySip} x offerer{A,B}, filtered by the written compatibility predicate (rig_pc.rs PcKnobs::compatible); thorough enumerates every compatible point once, quick samples them; latencies and task schedule are seeded per run. distinct = semantic trace hash; non-trivial = the exchange reached the data/media phase."),
        "C17" => ("exploration", "one evaluation = a PeerConnection pair driven by an application task from creation through offer/answer, ICE, DTLS, SCTP/DCEP to steady traffic; at a planned crash point (one of 9 phase boundaries + a delta of 0..150 ms, or an absolute time) one terminating event {close, drop of every handle, close twice, peer DTLS close_notify, forged-with-session-keys SCTP ABORT / SHUTDOWN, ICE stop, total partition, close with a sender blocked on flow control} hits one side, optionally a second event races it 0..5 ms later. The systematic core (10 phases x 9 events x 2 sides) runs first, then seeded combinations over transport modes and media mixes. distinct = semantic trace hash; non-trivial = an event was applied."),
        "C06" => ("exploration", "one evaluation = one simulated run of scenario ice_stun: two real IceTransports A (10.0.0.1; role controlling or controlled; optionally behind the single-port shared-UDP mux) and B (10.0.0.2, opposite role) in WebRTC mode with UDP host candidates on the simulated network, and an attacker host M that injects STUN datagrams towards A built by the harness' own encoder (own HMAC-SHA1 MESSAGE-INTEGRITY and CRC32 FINGERPRINT): Binding requests with USERNAME {absent, wrong, right, swapped} x MESSAGE-INTEGRITY {absent, garbage, keyed with a wrong key, keyed with A's local password} x +-USE-CANDIDATE x FINGERPRINT {none, valid, wrong} x ICE-CONTROLLING/CONTROLLED/none x PRIORITY, and unsolicited success / 401 / 487 responses with random transaction ids, ids of already answered transactions of A or the newest id A used, from a fresh address, B's spoofed address, the address of a signalled-but-silent candidate of B, or M with B's port; delivered while A is New (before start), Checking (started, held there by a silent candidate of B until B is started) or Connected. The plan fixes the timeline (A start, B start, end), latencies, scheduler seed/deferral, the attacker packets and, in a quarter of the swarm runs, drop/dup/delay/late-dup/bit-flip rules on the genuine STUN datagrams. Run indices below 576 enumerate the systematic core USERNAME 3 x MI 4 x USE-CANDIDATE 2 x FINGERPRINT 2 x state 3 x role 2 x source {fresh, spoofed B} with one packet per run (thorough: four rounds, the later ones with other latencies, mux, early remote parameters, deferral); the other indices are swarm runs with 1-6 attacker packets; 7 % of them are attacker-free control runs in which any broken ledger invariant is a harness error. Oracle form: invariants over a ledger of what was delivered to A (every remote candidate address was signalled or is the source of a request with USERNAME '<A-ufrag>:...' and MESSAGE-INTEGRITY valid under A's password; the selected remote answered a transaction of A or sent such a request; Connected / nomination need a matching success response or an authenticated USE-CANDIDATE), checked after every attacker packet, every 500 ms and at the end, plus a before/after differential around each attacker packet that is judged only when nothing else was delivered to A and no API call was made on A from 500 ms before the packet to the second sample. distinct = semantic event trace (rig knobs, API steps, attacker packet variants with A's state at injection, every change of A's {state, nomination, selected remote, candidate set} in symbolic addresses, wire classes; no timestamps, lengths, ports or credentials) hashes to a value not seen before in the batch; non-trivial = at least one attacker packet was delivered while A was in the state the plan targets (knob target)."),
        "C09" => ("exploration", "one evaluation = one simulated run of scenario signaling: two full PeerConnections A and B on the fault-free simulated network (transport mode WebRtc / Srtp / Rtp; data channel and/or audio / video tracks; fresh, or negotiated once with transports still starting, or negotiated once and connected) execute a program of 1..12 API calls strictly in order, 0..50 ms of virtual time apart, while ICE gathering, connectivity checks, DTLS and SCTP run in the background under the seeded scheduler: create_offer(side), create_answer(side), set_local(side, what), set_remote(side, what), close(side), where `what` is the side's own latest create_* result, the peer's latest offer / answer carried as text (to_sdp_string -> SessionDescription::parse), a stale one from an earlier round, a duplicate of the last applied one, the same text typed pranswer, a rollback description, each optionally edited in transit (payload type, direction, a=mid, extra m-section, fingerprint changed / removed / sha-1, a=mid:65535, media kind swapped, duplicate mids, no m-sections, extmap id, a=crypto removed, c= address). Run indices below the exhaustive count enumerate EVERY program of length <= 3 (quick) / <= 4 (thorough) over the 16-symbol alphabet {A,B} x {create_offer, create_answer, set_local(own latest), set_remote(peer's latest offer), set_remote(peer's latest answer), set_local(pranswer), set_remote(rollback), close} on a fresh and on a once-negotiated connected pair in each of the three transport modes (index -> configuration = idx mod 6, program = idx div 6); the remaining indices are seeded longer programs assembled from complete rounds, glare (both sides create_offer + set_local before exchanging), provisional-answer rounds and random calls, with lost / duplicated / reordered / substituted calls and the full variant set. Reference model: the JSEP offer/answer machine over Stable / HaveLocalOffer / HaveRemoteOffer / Closed as rustrtc documents it (provisional answers keep the state, rollback is refused, Closed absorbs; a call JSEP allows may still be refused, then nothing may change). Oracles: C09.state after every call and after idle periods; C09.atomic on every Err: signaling state, local and remote description text (modulo a=candidate / a=end-of-candidates lines), transceiver count and every transceiver's identity, mid, direction, kind, sorted payload map and sorted extmap equal their values before the call. A call whose source description does not exist yet (or whose edited text no longer parses) cannot be made and is skipped (other_stats.ops_skipped); a call that panics ends the program (C07's subject, probe.call_panicked). distinct = semantic event trace (rig configuration, per call: side, call and description type, source and edit selector, model state before, Ok / error class, state after; no timestamps, lengths or SDP text) hashes to a value not seen before in the batch; non-trivial = at least one call returned Err while the callee already held a description or a transceiver, or the program applied a stale or duplicate description, or an offer arrived at a side that had a local offer pending (glare)."),
        "C04" => ("exploration", "one evaluation = one simulated SRTP history under a plan expanded from (VERIF_SEED, run index): profile (AES_CM_128_HMAC_SHA1_80/_32, AEAD_AES_128_GCM, NULL cipher), random master key/salt, 1..4 SSRCs with start sequence numbers biased to 65535/32768, 10^2..2*10^5 RTP packets (0..3 sequence wraps) with per-packet header shapes (CSRC 0..15, one-/two-byte/generic extensions, padding, marker) and payload 0..1400, compound RTCP with growing SRTCP index; protected by a rustrtc SrtpSession and by webrtc-srtp, sent over an in-module link that drops, bursts, duplicates, holds and reorders (windows 1..40000) from plan sub-seeds; every delivery is unprotected by rustrtc, by webrtc-srtp and (reference-protected wire) by a second rustrtc session and judged against an RFC 3711 index model. distinct = semantic trace (per op: kind, SSRC set, log2 size, wraps crossed, fault kinds fired, outcome classes) not seen before; non-trivial = at least one link fault fired and at least one packet was delivered. (last,current) sequence pairs are sampled with boundary bias, not enumerated. Excluded from C04.interop (counted under other_stats excluded.*): NULL cipher (webrtc-srtp has none), duplicate deliveries, and deliveries where webrtc-srtp's documented rollover estimator (tracks the last, not the highest, index; no ROC-1 guess below 2^15) and RFC 3711 disagree."),
        "C05" => ("exploration", "one evaluation = one simulated SRTP history as for C04 (rustrtc sender, in-module faulty link) in which a receiver under test also gets attacker traffic and a shadow rustrtc receiver gets only the genuine packets in the same order: EVERY single-bit flip, EVERY truncation length and 1..4 appended bytes of sampled genuine SRTP/SRTCP packets, random multi-bit flips, sequence numbers rewritten far ahead (1..65535), unseen SSRCs (up to hundreds), forged SRTCP E|index words (2^31-1, E clear, +1), SSRC/body/tag splices, random datagrams, cross-protocol delivery, interleaved with genuine traffic and with virtual clock jumps below and above 60 s. Forged datagrams are demultiplexed like RtpTransport (is_rtcp). distinct = semantic trace (per op: kind, forgery kind, log2 size, fault kinds, outcome classes) not seen before; non-trivial = at least one forged datagram reached the receiver and at least one genuine packet was delivered (and accepted) after it. A forged packet whose truncated HMAC tag is valid by chance (2^-32 per attempt for _32) is recognised with an independent HMAC and counted as escape.truncated_tag_collision."),
        _ => return None,
    };
    let mut base_assumptions = base_assumptions;
    if prop == "C14" {
        base_assumptions.push("the reference SRTP implementation is the webrtc-srtp crate 0.17 (independent of rustrtc::srtp); its AES-CM SRTCP open path returns E=0 packets without checking the tag, so the harness never counts an E=0 datagram as authenticated".to_string());
        base_assumptions.push("rustrtc uses a 32-bit SRTCP tag with AES128_CM_HMAC_SHA1_32 (RFC 5764 says 80 bits); for that profile SRTCP datagrams are validated by re-encrypting each application packet with the reference at the SRTCP index seen on the wire and comparing with the tag truncated to 32 bits (reported as probe.srtcp_tag32_dialect, not judged by C14)".to_string());
        base_assumptions.push("sequence numbers stay within one 2^15 window, so the SRTP rollover counter is 0 throughout; replay/ROC behaviour belongs to C05".to_string());
        base_assumptions.push("inside one RtpTransport call there is no await point that yields in the simulation (socket sends complete immediately), so racing tasks interleave at op boundaries and with the receive pump / listener tasks, not inside a gate".to_string());
    }
    if prop == "C06" {
        base_assumptions.push("authenticated = USERNAME whose part before ':' is A's ufrag and a MESSAGE-INTEGRITY (first 0x0008 attribute, HMAC-SHA1 over the message up to it with the adjusted length) valid under A's local password, judged by the harness' own decoder; attacker packets that satisfy this and responses whose transaction id may still be outstanding (sent by A, unanswered, younger than 15 s) are exempt, as the property allows".to_string());
        base_assumptions.push("only UDP sockets are simulated: TCP candidates (shared_tcp.rs) and TURN relays are excluded; A never enters Disconnected (runs are shorter than the 30 s threshold and B keeps answering), so the effect of unauthenticated datagrams on the liveness timer is not judged".to_string());
    }
    Some(driver::CheckCfg { prop: prop.into(), tier, level, rule: rule.into(), assumptions: base_assumptions, components: components() })
}

fn main() {
    let args: Vec<String> = std::env::args().collect();
    let cmd = args.get(1).map(|s| s.as_str()).unwrap_or("help");
    let code = match cmd {
        "check" => {
            let prop = args.get(2).cloned().unwrap_or_default();
            let tier = tier_of(args.get(3));
            match check_cfg(&prop, tier) {
                Some(cfg) => driver::check(cfg),
                None => {
                    eprintln!("no check registered for {prop}");
                    2
                }
            }
        }
        "worker" => {
            let p = |i: usize| args.get(i).and_then(|s| s.parse::<u64>().ok()).unwrap_or(0);
            let tier = if args.get(3).map(|s| s == "thorough").unwrap_or(false) { Tier::Thorough } else { Tier::Quick };
            driver::worker(&args[2], tier, p(4), p(5), p(6).max(1), p(7), p(8));
            0
        }
        "replay" => {
            let verbose = args.iter().any(|a| a == "--log");
            match args.get(2) {
                Some(p) => driver::replay_file(p, verbose),
                None => 2,
            }
        }
        "run" => {
            // rtcsim run <prop> <tier> <idx> [--log] [--plan]
            let prop = args.get(2).cloned().unwrap_or_default();
            let tier = tier_of(args.get(3));
            let idx: u64 = args.get(4).and_then(|s| s.parse().ok()).unwrap_or(0);
            match scenarios::generate(&prop, driver::env_seed(), idx, tier) {
                Some(plan) => {
                    if args.iter().any(|a| a == "--plan") {
                        println!("{}", serde_json::to_string_pretty(&plan).unwrap());
                    }
                    let o = sim::run_plan(&plan, args.iter().any(|a| a == "--log"));
                    for l in o.log.iter() {
                        println!("{l}");
                    }
                    println!("violations={:?}\nstats={:?}\nfired={} events={} virt_ms={} log_hash={:016x} trace_hash={:016x}", o.violations, o.stats, o.fired.len(), o.events, o.virt_ms, o.log_hash, o.trace_hash);
                    0
                }
                None => 2,
            }
        }
        "plan" => {
            // rtcsim plan <file.json> [--log]: run an explicit plan file
            let s = std::fs::read_to_string(&args[2]).expect("plan file");
            let plan: plan::Plan = serde_json::from_str(&s).expect("plan json");
            let o = sim::run_plan(&plan, args.iter().any(|a| a == "--log"));
            for l in o.log.iter() {
                println!("{l}");
            }
            println!("violations={:?}\nstats={:?}\nevents={} virt_ms={} log_hash={:016x}", o.violations, o.stats, o.events, o.virt_ms, o.log_hash);
            0
        }
        "determinism" => {
            let prop = args.get(2).cloned().unwrap_or_default();
            let n: u64 = args.get(3).and_then(|s| s.parse().ok()).unwrap_or(200);
            driver::determinism(&prop, n)
        }
        "gen-certs" => {
            sim::gen_cert_pool(6);
            0
        }
        _ => {
            eprintln!("usage: rtcsim check <prop> [quick|thorough] | replay <file> [--log] | run <prop> <tier> <idx> [--log] | determinism <prop> <n> | gen-certs");
            2
        }
    };
    std::process::exit(code);
}
