//! rtcsim — deterministic simulation with fault injection for restsend/rustrtc.
mod driver;
mod known;
mod monitor;
mod net;
mod plan;
mod rig;
mod scenarios;
mod shrink;
mod sim;

use scenarios::Tier;
use serde_json::json;

fn tier_of(s: Option<&String>) -> Tier {
    let env = std::env::var("VERIF_TIER").ok();
    match s.map(|x| x.as_str()).or(env.as_deref()) {
        Some("thorough") => Tier::Thorough,
        _ => Tier::Quick,
    }
}

fn components() -> serde_json::Value {
    json!({
        "real": ["IceConn", "DtlsTransport", "SctpTransport", "DataChannel", "RtpTransport", "SrtpSession", "IceTransport", "PeerConnection", "media tracks", "all rustrtc parsers"],
        "stubbed": ["kernel UDP sockets (SimNet)", "clock (tokio paused virtual time; Instant/SystemTime seams)", "OS randomness (seeded byte source)", "certificate generation (fixed pool)", "host interface enumeration"],
        "not_simulated": ["ICE-TCP / TURN-TCP (TcpStream)", "TURN relay", "UPnP", "mDNS/DNS", "T.38/spandsp"]
    })
}

fn check_cfg(prop: &str, tier: Tier) -> Option<driver::CheckCfg> {
    let base_assumptions = vec![
        "tokio current_thread runtime with paused clock is a faithful scheduler/clock model (virtual time advances only when every task is idle)".to_string(),
        "task interleavings are explored at await points only (seeded select! order + seeded task deferral), not preemption inside a task".to_string(),
        "the harness' own decoders (DTLS record layer, AES-GCM open, SCTP chunk walk, CRC32c) are correct".to_string(),
        "a clean batch is evidence over the sampled schedules/fault plans, not a proof".to_string(),
    ];
    let (level, rule) = match prop {
        "C01" => ("exploration", "one evaluation = one simulated run of two layer-rig endpoints (IceConn->DTLS->SCTP->DataChannel) under a plan expanded from (VERIF_SEED, run index): knobs, message workload, addressed fault rules (sender, chunk class, ordinal -> drop/dup/delay/hold/flip), background fault rates, partitions, scheduler seed and deferral. distinct = semantic event trace (actor, packet classes, fault action, API outcome; no timestamps or lengths) hashes to a value not seen before in the batch; non-trivial = at least one fault fired and at least one message was accepted for sending."),
        "C12" => ("exploration", "as C01 but 1..16 channels of all six reliability/ordering types, negotiated or in-band (DCEP), 1..8 sender tasks per channel, sizes 0..256 KiB, optional channel close; distinct/non-trivial as for C01."),
        "C13" => ("exploration", "as C01 with the wire monitor's SCTP invariants switched on, small receive windows with a held-back DATA packet to drive a_rwnd to 0, and a 125 s post-completion quiet observation; distinct/non-trivial as for C01."),
        _ => return None,
    };
    Some(driver::CheckCfg { prop: prop.into(), tier, level, rule: rule.into(), assumptions: base_assumptions, components: components() })
}

fn main() {
    let args: Vec<String> = std::env::args().collect();
    let cmd = args.get(1).map(|s| s.as_str()).unwrap_or("help");
    let code = match cmd {
        "check" => {
            let prop = args.get(2).cloned().unwrap_or_default();
            let tier = tier_of(args.get(3));
            match check_cfg(&prop, tier) {
                Some(cfg) => driver::check(cfg),
                None => {
                    eprintln!("no check registered for {prop}");
                    2
                }
            }
        }
        "worker" => {
            let p = |i: usize| args.get(i).and_then(|s| s.parse::<u64>().ok()).unwrap_or(0);
            let tier = if args.get(3).map(|s| s == "thorough").unwrap_or(false) { Tier::Thorough } else { Tier::Quick };
            driver::worker(&args[2], tier, p(4), p(5), p(6).max(1), p(7), p(8));
            0
        }
        "replay" => {
            let verbose = args.iter().any(|a| a == "--log");
            match args.get(2) {
                Some(p) => driver::replay_file(p, verbose),
                None => 2,
            }
        }
        "run" => {
            // rtcsim run <prop> <tier> <idx> [--log] [--plan]
            let prop = args.get(2).cloned().unwrap_or_default();
            let tier = tier_of(args.get(3));
            let idx: u64 = args.get(4).and_then(|s| s.parse().ok()).unwrap_or(0);
            match scenarios::generate(&prop, driver::env_seed(), idx, tier) {
                Some(plan) => {
                    if args.iter().any(|a| a == "--plan") {
                        println!("{}", serde_json::to_string_pretty(&plan).unwrap());
                    }
                    let o = sim::run_plan(&plan, args.iter().any(|a| a == "--log"));
                    for l in o.log.iter() {
                        println!("{l}");
                    }
                    println!("violations={:?}\nstats={:?}\nfired={} events={} virt_ms={} log_hash={:016x} trace_hash={:016x}", o.violations, o.stats, o.fired.len(), o.events, o.virt_ms, o.log_hash, o.trace_hash);
                    0
                }
                None => 2,
            }
        }
        "plan" => {
            // rtcsim plan <file.json> [--log]: run an explicit plan file
            let s = std::fs::read_to_string(&args[2]).expect("plan file");
            let plan: plan::Plan = serde_json::from_str(&s).expect("plan json");
            let o = sim::run_plan(&plan, args.iter().any(|a| a == "--log"));
            for l in o.log.iter() {
                println!("{l}");
            }
            println!("violations={:?}\nstats={:?}\nevents={} virt_ms={} log_hash={:016x}", o.violations, o.stats, o.events, o.virt_ms, o.log_hash);
            0
        }
        "determinism" => {
            let prop = args.get(2).cloned().unwrap_or_default();
            let n: u64 = args.get(3).and_then(|s| s.parse().ok()).unwrap_or(200);
            driver::determinism(&prop, n)
        }
        "gen-certs" => {
            sim::gen_cert_pool(6);
            0
        }
        _ => {
            eprintln!("usage: rtcsim check <prop> [quick|thorough] | replay <file> [--log] | run <prop> <tier> <idx> [--log] | determinism <prop> <n> | gen-certs");
            2
        }
    };
    std::process::exit(code);
}
