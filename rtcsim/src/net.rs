//! The simulated network: sockets, a (virtual time, sequence)-ordered delivery
//! queue, the fault stage, and the event log. All datagram movement happens here.
use crate::plan::*;
use rustrtc::verif_hooks::SimUdp;
use std::collections::{BTreeMap, HashMap, VecDeque};
use std::io;
use std::net::{IpAddr, SocketAddr};
use std::sync::{Arc, Mutex};
use std::task::{Context, Poll, Waker};
use std::time::Duration;
use tokio::time::Instant;

/// simulated TCP (listeners, handshake, segmented byte streams) - child module, shares NetInner
#[path = "net_tcp.rs"]
pub mod tcp;

/// Per-run record shared by the network, the monitor, and the scenario.
pub struct Shared {
    pub t0: Instant,
    pub log: Vec<String>,
    pub keep_log: bool,
    pub log_hash: u64,
    pub trace_hash: u64,
    pub events: u64,
    pub violations: Vec<Violation>,
    pub stats: BTreeMap<String, u64>,
    pub fired: Vec<Rule>,
    pub inflight_fault: bool,
    /// true while the monitor looks at a datagram put on the wire by inject() (attacker / harness), not by an endpoint
    pub cur_injected: bool,
}

impl Shared {
    pub fn new(keep_log: bool) -> Self {
        Shared {
            t0: Instant::now(),
            log: Vec::new(),
            keep_log,
            log_hash: FNV0,
            trace_hash: FNV0,
            events: 0,
            violations: Vec::new(),
            stats: BTreeMap::new(),
            fired: Vec::new(),
            inflight_fault: false,
            cur_injected: false,
        }
    }
    pub fn now_ms(&self) -> f64 {
        Instant::now().duration_since(self.t0).as_secs_f64() * 1e3
    }
    /// `sem` goes into the semantic trace hash (no times, no lengths); `detail` only into the full log.
    pub fn event(&mut self, sem: &str, detail: &str) {
        self.events += 1;
        self.trace_hash = fnv(fnv(self.trace_hash, sem.as_bytes()), b"\n");
        let line = format!("{:>11.3} {} {}", self.now_ms(), sem, detail);
        self.log_hash = fnv(fnv(self.log_hash, line.as_bytes()), b"\n");
        if self.keep_log {
            self.log.push(line);
        }
    }
    pub fn violate(&mut self, oracle: &str, detail: String) {
        if self.violations.len() < 16 {
            self.event(&format!("VIOLATION {oracle}"), &detail);
            self.violations.push(Violation { oracle: oracle.into(), detail });
        }
    }
    pub fn stat(&mut self, k: &str, n: u64) {
        *self.stats.entry(k.to_string()).or_insert(0) += n;
    }
    pub fn stat_max(&mut self, k: &str, n: u64) {
        let e = self.stats.entry(k.to_string()).or_insert(0);
        if n > *e {
            *e = n;
        }
    }
}

pub type SharedRef = Arc<Mutex<Shared>>;

/// The wire monitor: sees every datagram before the fault stage; returns its class tokens.
pub trait Monitor: Send {
    fn classify(&mut self, from: SocketAddr, to: SocketAddr, data: &[u8], sh: &mut Shared) -> Vec<String>;
    /// called when a datagram is handed to the destination socket
    fn on_deliver(&mut self, _from: SocketAddr, _to: SocketAddr, _data: &[u8], _sh: &mut Shared) {}
    /// a TCP segment (kind = "TCP:syn" | "TCP:synack" | "TCP:ack" | "TCP:data" | "TCP:fin" | "TCP:rst") is put on the wire;
    /// returns further class tokens for it (the net itself adds "TCP" and the kind)
    fn on_tcp(&mut self, _from: SocketAddr, _to: SocketAddr, _kind: &str, _data: &[u8], _sh: &mut Shared) -> Vec<String> {
        Vec::new()
    }
}

/// On-path rewriter supplied by a scenario: returns the datagrams to deliver instead of the original.
pub trait Rewriter: Send {
    fn rewrite(&mut self, name: &str, a: &[i64], from: SocketAddr, to: SocketAddr, data: &[u8]) -> Vec<Vec<u8>>;
}

pub struct NullMonitor;
impl Monitor for NullMonitor {
    fn classify(&mut self, _f: SocketAddr, _t: SocketAddr, _d: &[u8], _s: &mut Shared) -> Vec<String> {
        vec!["any".into()]
    }
}

#[derive(Default)]
struct SockState {
    q: VecDeque<(Vec<u8>, SocketAddr)>,
    waker: Option<Waker>,
}

struct Pending {
    from: SocketAddr,
    to: SocketAddr,
    data: Vec<u8>,
}

struct Held {
    host: String,
    remaining: u32,
    key: (Instant, u64),
}

pub struct NetInner {
    socks: HashMap<SocketAddr, Arc<Mutex<SockState>>>,
    queue: BTreeMap<(Instant, u64), Pending>,
    seq: u64,
    next_port: u16,
    latency: [Duration; 2],
    rules: Vec<Rule>,
    rule_used: Vec<bool>,
    windows: Vec<Window>,
    bg: Background,
    heal_at: Duration,
    counts: HashMap<(String, String), u32>,
    host_count: HashMap<String, u64>,
    held: Vec<Held>,
    wake: Option<Waker>,
    pub live: i64,
    pub delivered: u64,
    pub sent: u64,
    monitor: Option<Box<dyn Monitor>>,
    rewriter: Option<Box<dyn Rewriter>>,
    /// datagrams to these destinations are additionally copied to a capture buffer
    capture: Vec<(SocketAddr, SocketAddr, Vec<u8>)>,
    capture_on: bool,
    /// total partition switched on by a scenario at run time: every non-injected datagram is dropped
    blackhole: bool,
    /// simulated TCP: connections, listeners, which queue entries are TCP segments
    pub tcp: tcp::TcpState,
}

pub struct SimNet {
    pub inner: Mutex<NetInner>,
    pub sh: SharedRef,
}

pub struct SimSock {
    addr: SocketAddr,
    st: Arc<Mutex<SockState>>,
    net: Arc<SimNet>,
}

pub fn host_name(ip: IpAddr) -> String {
    match ip {
        IpAddr::V4(v4) => match v4.octets() {
            [10, 0, 0, 1] => "A".into(),
            [10, 0, 0, 2] => "B".into(),
            [10, 0, 0, 3] => "C".into(),
            [10, 0, 0, 66] => "M".into(),
            o => format!("h{}", o[3]),
        },
        IpAddr::V6(_) => "v6".into(),
    }
}

pub fn addr(host: &str, port: u16) -> SocketAddr {
    let ip = match host {
        "A" => "10.0.0.1",
        "B" => "10.0.0.2",
        "C" => "10.0.0.3",
        "M" => "10.0.0.66",
        x => x,
    };
    format!("{ip}:{port}").parse().unwrap()
}

impl Drop for SimSock {
    fn drop(&mut self) {
        let mut n = self.net.inner.lock().unwrap();
        n.socks.remove(&self.addr);
        n.live -= 1;
    }
}

impl SimUdp for SimSock {
    fn local_addr(&self) -> io::Result<SocketAddr> {
        Ok(self.addr)
    }
    fn try_send_to(&self, buf: &[u8], to: SocketAddr) -> io::Result<usize> {
        self.net.send(self.addr, to, buf, false)
    }
    fn try_recv_from(&self, buf: &mut [u8]) -> io::Result<(usize, SocketAddr)> {
        let mut s = self.st.lock().unwrap();
        match s.q.pop_front() {
            Some((d, from)) => {
                let n = d.len().min(buf.len());
                buf[..n].copy_from_slice(&d[..n]);
                Ok((n, from))
            }
            None => Err(io::ErrorKind::WouldBlock.into()),
        }
    }
    fn poll_readable(&self, cx: &mut Context<'_>) -> Poll<io::Result<()>> {
        let mut s = self.st.lock().unwrap();
        if !s.q.is_empty() {
            Poll::Ready(Ok(()))
        } else {
            s.waker = Some(cx.waker().clone());
            Poll::Pending
        }
    }
}

fn io_kind(name: &str) -> io::ErrorKind {
    match name {
        "WouldBlock" => io::ErrorKind::WouldBlock,
        "HostUnreachable" => io::ErrorKind::HostUnreachable,
        "ConnectionRefused" => io::ErrorKind::ConnectionRefused,
        "OutOfMemory" => io::ErrorKind::OutOfMemory,
        _ => io::ErrorKind::Other,
    }
}

impl SimNet {
    pub fn new(plan: &Plan, sh: SharedRef, monitor: Box<dyn Monitor>) -> Arc<Self> {
        Arc::new(SimNet {
            inner: Mutex::new(NetInner {
                socks: HashMap::new(),
                queue: BTreeMap::new(),
                seq: 0,
                next_port: 40000,
                latency: [Duration::from_micros(plan.latency_us[0].max(1)), Duration::from_micros(plan.latency_us[1].max(1))],
                rules: plan.faults.clone(),
                rule_used: vec![false; plan.faults.len()],
                windows: plan.windows.clone(),
                bg: plan.bg.clone(),
                heal_at: Duration::from_millis(plan.heal_at_ms),
                counts: HashMap::new(),
                host_count: HashMap::new(),
                held: Vec::new(),
                wake: None,
                live: 0,
                delivered: 0,
                sent: 0,
                monitor: Some(monitor),
                rewriter: None,
                capture: Vec::new(),
                capture_on: false,
                blackhole: false,
                tcp: tcp::TcpState::new(plan),
            }),
            sh,
        })
    }

    pub fn set_blackhole(&self, on: bool) {
        self.inner.lock().unwrap().blackhole = on;
    }

    pub fn set_rewriter(&self, r: Option<Box<dyn Rewriter>>) {
        self.inner.lock().unwrap().rewriter = r;
    }

    pub fn set_monitor(&self, m: Box<dyn Monitor>) {
        self.inner.lock().unwrap().monitor = Some(m);
    }

    pub fn bind(self: &Arc<Self>, mut a: SocketAddr) -> io::Result<Arc<SimSock>> {
        let mut n = self.inner.lock().unwrap();
        if a.port() == 0 {
            loop {
                a.set_port(n.next_port);
                n.next_port = n.next_port.wrapping_add(1).max(1024);
                if !n.socks.contains_key(&a) {
                    break;
                }
            }
        } else if n.socks.contains_key(&a) {
            return Err(io::ErrorKind::AddrInUse.into());
        }
        let st = Arc::new(Mutex::new(SockState::default()));
        n.socks.insert(a, st.clone());
        n.live += 1;
        Ok(Arc::new(SimSock { addr: a, st, net: self.clone() }))
    }

    /// Install this network as the target of `UdpSocket::bind` inside rustrtc (PeerConnection / ICE rigs).
    pub fn install_binder(self: &Arc<Self>) {
        let me = self.clone();
        me.install_tcp_binder();
        rustrtc::verif_hooks::set_udp_binder(Some(Arc::new(move |a: SocketAddr| {
            me.bind(a).map(|s| s as Arc<dyn SimUdp>)
        })));
    }

    pub fn live_sockets(&self) -> i64 {
        self.inner.lock().unwrap().live
    }
    /// open sockets whose local address is on this host: UDP sockets, TCP listeners and TCP connection ends
    pub fn live_sockets_of(&self, ip: std::net::IpAddr) -> Vec<String> {
        let n = self.inner.lock().unwrap();
        let mut v: Vec<String> = n.socks.keys().filter(|a| a.ip() == ip).map(|a| format!("udp {a}")).collect();
        v.extend(n.tcp.sockets_of(ip));
        v.sort();
        v
    }

    pub fn capture(&self, on: bool) {
        self.inner.lock().unwrap().capture_on = on;
    }
    pub fn take_captured(&self) -> Vec<(SocketAddr, SocketAddr, Vec<u8>)> {
        std::mem::take(&mut self.inner.lock().unwrap().capture)
    }

    /// A third party (attacker host or harness) puts a datagram on the wire; not subject to faults.
    pub fn inject(&self, from: SocketAddr, to: SocketAddr, data: &[u8]) {
        let _ = self.send(from, to, data, true);
    }

    fn send(&self, from: SocketAddr, to: SocketAddr, buf: &[u8], injected: bool) -> io::Result<usize> {
        let mut n = self.inner.lock().unwrap();
        let mut sh = self.sh.lock().unwrap();
        let now = Instant::now();
        let el = now.duration_since(sh.t0);
        let host = host_name(from.ip());
        let dst = host_name(to.ip());
        let mut mon = n.monitor.take().unwrap_or_else(|| Box::new(NullMonitor));
        sh.cur_injected = injected;
        let mut tokens = mon.classify(from, to, buf, &mut sh);
        sh.cur_injected = false;
        n.monitor = Some(mon);
        if !tokens.iter().any(|t| t == "any") {
            tokens.push("any".into());
        }
        n.sent += 1;
        let hc = {
            let c = n.host_count.entry(host.clone()).or_insert(0);
            let v = *c;
            *c += 1;
            v
        };
        // ordinals per (host, token)
        let mut ords = Vec::with_capacity(tokens.len());
        for t in &tokens {
            let c = n.counts.entry((host.clone(), t.clone())).or_insert(0);
            ords.push(*c);
            *c += 1;
        }
        let faults_on = !injected && el < n.heal_at;
        let mut action: Option<Action> = None;
        if n.blackhole && !injected {
            action = Some(Action::Drop);
            sh.stat("fault.blackhole_drop", 1);
        }
        if faults_on && action.is_none() {
            let n_ref: &mut NetInner = &mut n;
            let mut hit: Option<usize> = None;
            'outer: for (ri, r) in n_ref.rules.iter().enumerate() {
                if n_ref.rule_used[ri] || !(r.from == "*" || r.from == host) {
                    continue;
                }
                for (t, o) in tokens.iter().zip(ords.iter()) {
                    if *t == r.class && *o == r.ordinal {
                        hit = Some(ri);
                        break 'outer;
                    }
                }
            }
            if let Some(ri) = hit {
                n_ref.rule_used[ri] = true;
                action = Some(n_ref.rules[ri].action.clone());
                sh.fired.push(n_ref.rules[ri].clone());
            }
            if action.is_none() {
                let ms = el.as_millis() as u64;
                if n.windows.iter().any(|w| (w.from == "*" || w.from == host) && ms >= w.start_ms && ms < w.end_ms) {
                    action = Some(Action::Drop);
                    sh.stat("fault.partition_drop", 1);
                }
            }
            if action.is_none() && !n.bg.is_off() && (n.bg.class.is_empty() || tokens.iter().any(|t| *t == n.bg.class)) {
                let h = mix(mix(n.bg.subseed, fnv(FNV0, host.as_bytes())), hc);
                let roll = (h % 1000) as u32;
                let aux = h >> 16;
                let b = &n.bg;
                let a = if roll < b.drop_pm {
                    Some(Action::Drop)
                } else if roll < b.drop_pm + b.dup_pm {
                    Some(Action::Dup { delay_ms: 1 + aux % b.delay_max_ms.max(1), copies: 1 })
                } else if roll < b.drop_pm + b.dup_pm + b.delay_pm {
                    Some(Action::Delay { ms: 1 + aux % b.delay_max_ms.max(1) })
                } else if roll < b.drop_pm + b.dup_pm + b.delay_pm + b.flip_pm {
                    Some(Action::FlipBit { bit: (aux % (buf.len().max(1) as u64 * 8)) as u32 })
                } else {
                    None
                };
                if let Some(a) = a {
                    // record as an explicit rule on the "any" ordinal so the run can be concretised
                    // record as an explicit rule on the most specific class token so the run can be concretised
                    let (tk, ord) = tokens
                        .iter()
                        .zip(ords.iter())
                        .filter(|(t, _)| *t != "any")
                        .max_by_key(|(t, _)| (t.starts_with("SCTP:") as usize, t.len()))
                        .map(|(t, o)| (t.clone(), *o))
                        .unwrap_or(("any".into(), 0));
                    sh.fired.push(Rule { from: host.clone(), class: tk, ordinal: ord, action: a.clone() });
                    action = Some(a);
                }
            }
        }
        let lat = if host == "A" { n.latency[0] } else { n.latency[1] };
        let mut data = buf.to_vec();
        let mut rewritten: Option<Vec<Vec<u8>>> = None;
        let mut deliveries: Vec<Duration> = vec![lat];
        let mut hold: Option<u32> = None;
        let mut tag = String::new();
        if let Some(a) = &action {
            sh.inflight_fault = true;
            let name = match a {
                Action::Drop => {
                    deliveries.clear();
                    "drop"
                }
                Action::Dup { delay_ms, copies } => {
                    for k in 1..=(*copies as u64) {
                        deliveries.push(lat + Duration::from_millis(delay_ms * k));
                    }
                    "dup"
                }
                Action::Delay { ms } => {
                    deliveries = vec![lat + Duration::from_millis(*ms)];
                    "delay"
                }
                Action::Hold { n } => {
                    deliveries = vec![lat + Duration::from_millis(500)];
                    hold = Some(*n);
                    "hold"
                }
                Action::FlipBit { bit } => {
                    if !data.is_empty() {
                        let b = (*bit as usize) % (data.len() * 8);
                        data[b / 8] ^= 1 << (b % 8);
                    }
                    "flip"
                }
                Action::Truncate { len } => {
                    data.truncate(*len as usize);
                    "trunc"
                }
                Action::Rewrite { name, a } => {
                    let mut rw = n.rewriter.take();
                    let out = match rw.as_mut() {
                        Some(r) => r.rewrite(name, a, from, to, buf),
                        None => vec![buf.to_vec()],
                    };
                    n.rewriter = rw;
                    rewritten = Some(out);
                    "rewrite"
                }
                Action::SendErr { kind } => {
                    sh.stat("fault.senderr", 1);
                    let toks = tokens.iter().filter(|t| *t != "any").cloned().collect::<Vec<_>>().join("+");
                    sh.event(&format!("{host}>{dst} {toks} FAULT=senderr"), &format!("len={}", buf.len()));
                    return Err(io_kind(kind).into());
                }
            };
            sh.stat(&format!("fault.{name}"), 1);
            tag = format!(" FAULT={name}");
        }
        let toks = tokens.iter().filter(|t| *t != "any").cloned().collect::<Vec<_>>().join("+");
        sh.event(
            &format!("{}{host}>{dst} {toks}{tag}", if injected { "INJECT " } else { "" }),
            &format!("len={} {:?}", buf.len(), action),
        );
        // release held datagrams of this sender whose count ran out
        let mut release: Vec<(Instant, u64)> = Vec::new();
        for h in n.held.iter_mut() {
            if h.host == host {
                h.remaining = h.remaining.saturating_sub(1);
                if h.remaining == 0 {
                    release.push(h.key);
                }
            }
        }
        n.held.retain(|h| h.remaining > 0);
        // never let a faulted delivery land after heal_at + its base latency
        let heal_abs = sh.t0 + n.heal_at;
        let mut first_key = None;
        if let Some(list) = rewritten {
            for d in list {
                n.seq += 1;
                let s = n.seq;
                n.queue.insert((now + lat, s), Pending { from, to, data: d });
            }
            deliveries.clear();
        }
        for d in deliveries {
            n.seq += 1;
            let s = n.seq;
            let mut at = now + d;
            if action.is_some() && at > heal_abs + lat && heal_abs > now {
                at = heal_abs + lat;
            }
            n.queue.insert((at, s), Pending { from, to, data: data.clone() });
            if first_key.is_none() {
                first_key = Some((at, s));
            }
        }
        for k in release {
            if let Some(p) = n.queue.remove(&k) {
                n.seq += 1;
                let s = n.seq;
                n.queue.insert((now + lat, s), p);
            }
        }
        if let (Some(cnt), Some(k)) = (hold, first_key) {
            n.held.push(Held { host: host.clone(), remaining: cnt.max(1), key: k });
        }
        if let Some(w) = n.wake.take() {
            w.wake();
        }
        Ok(buf.len())
    }

    /// The only task that moves datagrams from the wire into sockets.
    pub async fn run(self: Arc<Self>) {
        loop {
            let next = { self.inner.lock().unwrap().queue.keys().next().cloned() };
            match next {
                None => {
                    std::future::poll_fn(|cx| {
                        let mut n = self.inner.lock().unwrap();
                        if n.queue.is_empty() {
                            n.wake = Some(cx.waker().clone());
                            Poll::Pending
                        } else {
                            Poll::Ready(())
                        }
                    })
                    .await;
                }
                Some(k) => {
                    // wake early if something is scheduled before k
                    let sleep = tokio::time::sleep_until(k.0);
                    tokio::pin!(sleep);
                    let woke_early = std::future::poll_fn(|cx| {
                        if sleep.as_mut().poll(cx).is_ready() {
                            return Poll::Ready(false);
                        }
                        let mut n = self.inner.lock().unwrap();
                        if n.queue.keys().next().map(|f| *f < k).unwrap_or(false) {
                            return Poll::Ready(true);
                        }
                        n.wake = Some(cx.waker().clone());
                        Poll::Pending
                    })
                    .await;
                    if woke_early {
                        continue;
                    }
                    let (p, dst, mon) = {
                        let mut n = self.inner.lock().unwrap();
                        if n.queue.keys().next() != Some(&k) {
                            continue;
                        }
                        let p = n.queue.remove(&k).unwrap();
                        n.delivered += 1;
                        if let Some(seg) = n.tcp.take_seg(&k) {
                            if n.blackhole {
                                // total partition (set_blackhole): the segment was marked lost when it was sent, and its
                                // retransmission is lost as well for as long as the partition lasts - try again in 2 s
                                let at = n.tcp.hold_back(&seg, Instant::now() + Duration::from_millis(2000));
                                n.seq += 1;
                                let k2 = (at, n.seq);
                                n.queue.insert(k2, p);
                                n.tcp.put_seg(k2, seg);
                                n.delivered -= 1;
                                drop(n);
                                self.sh.lock().unwrap().stat("fault.blackhole_tcp_retx_lost", 1);
                                continue;
                            }
                            // a TCP segment: handshake / byte stream / FIN / RST handling instead of a socket queue
                            drop(n);
                            self.tcp_deliver(seg, p);
                            continue;
                        }
                        if n.capture_on {
                            let c = (p.from, p.to, p.data.clone());
                            n.capture.push(c);
                        }
                        let dst = n.socks.get(&p.to).cloned();
                        (p, dst, n.monitor.take())
                    };
                    if let Some(mut m) = mon {
                        {
                            let mut sh = self.sh.lock().unwrap();
                            m.on_deliver(p.from, p.to, &p.data, &mut sh);
                        }
                        let mut n = self.inner.lock().unwrap();
                        if n.monitor.is_none() {
                            n.monitor = Some(m);
                        }
                    }
                    if let Some(dst) = dst {
                        let mut s = dst.lock().unwrap();
                        s.q.push_back((p.data, p.from));
                        if let Some(w) = s.waker.take() {
                            w.wake();
                        }
                    }
                }
            }
        }
    }
}
