//! known_findings.json: committed, never written at run time. Entries are patterns over
//! *minimised* replays, not blanket waivers.
use crate::plan::*;
use serde::{Deserialize, Serialize};

#[derive(Serialize, Deserialize, Clone, Debug, Default)]
pub struct FaultPat {
    pub class: String,
    /// action tags: Drop / Dup / Delay / Hold / FlipBit / Truncate / SendErr ; empty = any
    #[serde(default)]
    pub actions: Vec<String>,
    #[serde(default)]
    pub from: Option<String>,
}

#[derive(Serialize, Deserialize, Clone, Debug, Default)]
pub struct Pattern {
    #[serde(default)]
    pub scenario: Option<String>,
    /// every fault rule left in the minimised plan must match one of these
    #[serde(default)]
    pub faults_subset_of: Vec<FaultPat>,
    #[serde(default)]
    pub min_faults: usize,
    #[serde(default)]
    pub max_faults: Option<usize>,
    /// every op kind left in the minimised plan must be one of these (None = unconstrained)
    #[serde(default)]
    pub op_kinds_subset_of: Option<Vec<String>>,
    /// at least one op of each of these kinds must be present
    #[serde(default)]
    pub op_kinds_required: Vec<String>,
    /// the violation detail must contain every one of these substrings
    #[serde(default)]
    pub detail_contains: Vec<String>,
    /// knob constraints (exact values) on the minimised plan
    #[serde(default)]
    pub knobs: std::collections::BTreeMap<String, i64>,
}

#[derive(Serialize, Deserialize, Clone, Debug)]
pub struct Finding {
    pub id: String,
    pub property: String,
    pub oracle: String,
    /// "open" or "fixed: property=<id> <commit> <what failed>"
    pub status: String,
    pub what: String,
    #[serde(default)]
    pub pattern: Pattern,
    /// minimal plan that must still reproduce the finding while it is open
    #[serde(default)]
    pub regression_plan: Option<Plan>,
}

pub fn action_tag(a: &Action) -> &'static str {
    match a {
        Action::Drop => "Drop",
        Action::Dup { .. } => "Dup",
        Action::Delay { .. } => "Delay",
        Action::Hold { .. } => "Hold",
        Action::FlipBit { .. } => "FlipBit",
        Action::Truncate { .. } => "Truncate",
        Action::SendErr { .. } => "SendErr",
        Action::Rewrite { .. } => "Rewrite",
    }
}

pub fn rule_matches(r: &Rule, p: &FaultPat) -> bool {
    r.class == p.class && (p.actions.is_empty() || p.actions.iter().any(|a| a == action_tag(&r.action))) && p.from.as_ref().map(|f| *f == r.from).unwrap_or(true)
}

impl Finding {
    pub fn is_open(&self) -> bool {
        self.status == "open"
    }
    pub fn matches(&self, oracle: &str, detail: &str, plan: &Plan) -> bool {
        if !self.is_open() || self.oracle != oracle {
            return false;
        }
        let p = &self.pattern;
        if let Some(s) = &p.scenario {
            if *s != plan.scenario {
                return false;
            }
        }
        if !plan.bg.is_off() || !plan.windows.is_empty() {
            // a plan that still needs background faults or partitions was not minimised to a listed cause
            return false;
        }
        if plan.faults.len() < p.min_faults || p.max_faults.map(|m| plan.faults.len() > m).unwrap_or(false) {
            return false;
        }
        if !plan.faults.iter().all(|r| p.faults_subset_of.iter().any(|fp| rule_matches(r, fp))) {
            return false;
        }
        if let Some(kinds) = &p.op_kinds_subset_of {
            if !plan.ops.iter().all(|o| kinds.iter().any(|k| *k == o.kind)) {
                return false;
            }
        }
        if !p.op_kinds_required.iter().all(|k| plan.ops.iter().any(|o| o.kind == *k)) {
            return false;
        }
        if !p.detail_contains.iter().all(|d| detail.contains(d.as_str())) {
            return false;
        }
        p.knobs.iter().all(|(k, v)| plan.knobs.get(k) == Some(v))
    }
}

pub fn load() -> Vec<Finding> {
    let p = concat!(env!("CARGO_MANIFEST_DIR"), "/../known_findings.json");
    match std::fs::read_to_string(p) {
        Ok(s) => serde_json::from_str(&s).unwrap_or_else(|e| {
            eprintln!("HARNESS ERROR: known_findings.json does not parse: {e}");
            std::process::exit(2)
        }),
        Err(_) => Vec::new(),
    }
}

/// Fault patterns of open findings, used by generators to steer away from known triggers.
pub fn open_fault_patterns(prop: &str, scenario: &str) -> Vec<FaultPat> {
    load()
        .into_iter()
        .filter(|f| f.is_open() && f.property == prop && f.pattern.scenario.as_deref().map(|s| s == scenario).unwrap_or(true))
        .flat_map(|f| f.pattern.faults_subset_of)
        .collect()
}
