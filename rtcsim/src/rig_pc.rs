//! PeerConnection rig: two full `PeerConnection`s on the simulated network (ICE gathering,
//! checks, nomination, DTLS, SRTP, SCTP, DCEP, media) plus a simulated signaling channel.
use crate::plan::Plan;
use crate::sim::Ctx;
use rustrtc::media::frame::{AudioFrame, MediaSample, VideoFrame};
use rustrtc::media::track::{sample_track, SampleStreamSource};
use rustrtc::transports::sctp::{DataChannel, DataChannelConfig};
use rustrtc::{MediaKind, PeerConnection, RtcConfiguration, RtpCodecParameters, SessionDescription, TransportMode};
use std::sync::Arc;

#[derive(Clone, Debug)]
pub struct PcKnobs {
    /// 0 WebRtc, 1 Srtp (SDES), 2 Rtp
    pub mode: i64,
    /// 0 dc, 1 audio, 2 audio+video, 3 dc+audio, 4 dc+audio+video
    pub mix: i64,
    pub bundle: i64,
    pub mux: i64,
    /// 0 none, 1 side A is ICE-lite, 2 side B is ICE-lite
    pub lite: i64,
    /// 0 off, 1 the answerer uses the single-port UDP mux
    pub udpmux: i64,
    /// 0 off, 1 on, 2 on with probation 3
    pub latch: i64,
    /// 0 Standard, 1 LegacySip
    pub compat: i64,
    /// 0 A offers, 1 B offers
    pub offerer: i64,
    /// ICE-TCP (RFC 6544 candidates, RFC 4571 framing): 0 off (UDP only); TCP only: 1 active offerer x passive
    /// answerer (listener from tcp_port_range), 2 passive offerer x active answerer, 4 as 1 with the answerer on the
    /// process-wide single shared TCP port (range start == end); mixed: 3 both ends UDP hosts + passive TCP,
    /// 5 TCP-only active offerer x answerer with UDP hosts + passive TCP (only the TCP pair can work),
    /// 6 offerer with UDP hosts + passive TCP x TCP-only active answerer
    pub tcp: i64,
}

impl PcKnobs {
    pub fn from_plan(p: &Plan) -> Self {
        PcKnobs {
            mode: p.knob("mode", 0),
            mix: p.knob("mix", 0),
            bundle: p.knob("bundle", 0),
            mux: p.knob("mux", 0),
            lite: p.knob("lite", 0),
            udpmux: p.knob("udpmux", 0),
            latch: p.knob("latch", 0),
            compat: p.knob("compat", 0),
            offerer: p.knob("offerer", 0),
            tcp: p.knob("tcp", 0),
        }
    }
    pub fn has_dc(&self) -> bool {
        matches!(self.mix, 0 | 3 | 4)
    }
    pub fn has_audio(&self) -> bool {
        self.mix >= 1
    }
    pub fn has_video(&self) -> bool {
        matches!(self.mix, 2 | 4)
    }
    /// The written-down compatibility predicate of C10: combinations outside it are not claimed.
    pub fn compatible(&self) -> Result<(), &'static str> {
        if self.tcp != 0 {
            if !(1..=6).contains(&self.tcp) {
                return Err("unknown ICE-TCP configuration");
            }
            if self.mode != 0 {
                return Err("ICE-TCP is an ICE feature (WebRtc mode)");
            }
            if self.lite != 0 {
                return Err("ICE-lite with TCP candidates is not claimed (one passive feature per side)");
            }
            if self.udpmux != 0 {
                return Err("single-port UDP mux together with TCP candidates is not claimed");
            }
        }
        if self.has_dc() && self.mode != 0 {
            return Err("data channels need WebRtc mode");
        }
        if self.udpmux != 0 && self.mode != 0 {
            return Err("UDP mux is an ICE feature (WebRtc mode)");
        }
        if self.lite != 0 && self.mode != 0 {
            return Err("ICE-lite connectivity is only meaningful in WebRtc mode");
        }
        if self.latch != 0 && self.mode == 0 {
            return Err("latching is for direct RTP/SRTP modes");
        }
        if self.compat != 0 && self.mode == 0 {
            return Err("LegacySip compatibility is for direct RTP/SRTP modes");
        }
        if self.udpmux != 0 && self.lite != 0 {
            // both put the same side in the passive role; keep the lattice to one passive feature per side
            let passive_side = if self.offerer == 0 { 2 } else { 1 };
            if self.lite != passive_side {
                return Err("ICE-lite and UDP mux on different sides leaves no full agent");
            }
        }
        Ok(())
    }
}

pub fn make_config(k: &PcKnobs, side: usize, plan: &Plan) -> RtcConfiguration {
    let mut c = RtcConfiguration::default();
    c.bind_ip = Some(if side == 0 { "10.0.0.1".into() } else { "10.0.0.2".into() });
    c.disable_ipv6 = true;
    c.transport_mode = match k.mode {
        1 => TransportMode::Srtp,
        2 => TransportMode::Rtp,
        _ => TransportMode::WebRtc,
    };
    c.bundle_policy = match k.bundle {
        1 => rustrtc::BundlePolicy::MaxCompat,
        2 => rustrtc::BundlePolicy::MaxBundle,
        _ => rustrtc::BundlePolicy::Balanced,
    };
    c.rtcp_mux_policy = if k.mux == 1 { rustrtc::RtcpMuxPolicy::Negotiate } else { rustrtc::RtcpMuxPolicy::Require };
    c.enable_ice_lite = (k.lite == 1 && side == 0) || (k.lite == 2 && side == 1);
    let answerer = if k.offerer == 0 { 1 } else { 0 };
    if k.udpmux == 1 && side == answerer {
        c.ice_udp_mux = true;
        c.ice_udp_mux_port = Some(7000 + (plan.seed % 1000) as u16);
    }
    if k.tcp != 0 {
        // which candidates this side gathers: (UDP hosts, passive TCP listener from a port range)
        let is_off = side != answerer;
        let (udp, listen) = match (k.tcp, is_off) {
            (1 | 4, true) => (false, false), // active only
            (1 | 4, false) => (false, true),
            (2, true) => (false, true),
            (2, false) => (false, false),
            (3, _) => (true, false), // UDP hosts + the passive listener that host gathering binds on port 0
            (5, true) => (false, false),
            (5, false) => (true, false),
            (6, true) => (true, false),
            (_, _) => (false, false),
        };
        c.ice_tcp_policy = rustrtc::config::IceTcpPolicy::Enabled;
        c.ice_gather_udp_hosts = udp;
        if listen {
            let base = 50_000 + (plan.seed % 500) as u16 * 8;
            c.tcp_port_range_start = Some(base);
            // tcp = 4: start == end selects the process-wide shared listener with demultiplexing by ufrag
            c.tcp_port_range_end = Some(if k.tcp == 4 { base } else { base + 3 });
        }
    }
    c.enable_latching = k.latch != 0;
    if k.latch == 2 {
        c.probation_max_packets = Some(3);
    }
    // knob compat_mix = 1: the answerer runs the other SDP compatibility mode than the offerer
    let compat = if plan.knob("compat_mix", 0) == 1 && side == answerer { 1 - k.compat.clamp(0, 1) } else { k.compat };
    c.sdp_compatibility = if compat == 1 { rustrtc::SdpCompatibilityMode::LegacySip } else { rustrtc::SdpCompatibilityMode::Standard };
    c.ssrc_start = 10_000 + side as u32 * 5_000;
    // knobs shared with other PeerConnection scenarios
    if let Some(v) = plan.knobs.get("ice_disconnect_grace_ms") {
        c.ice_disconnect_grace = std::time::Duration::from_millis(*v as u64);
    }
    if let Some(v) = plan.knobs.get("ice_disconnect_threshold_ms") {
        c.ice_disconnect_threshold = std::time::Duration::from_millis(*v as u64);
    }
    if let Some(v) = plan.knobs.get("ice_connection_timeout_ms") {
        c.ice_connection_timeout = std::time::Duration::from_millis(*v as u64);
    }
    // knob turn (1 = UDP, 2 = TCP): side 0 is configured with the TURN server 10.0.0.50:3478 that the scenario plays
    match (plan.knob("turn", 0), side) {
        (1, 0) => c.ice_servers = vec![rustrtc::IceServer::new(vec!["turn:10.0.0.50:3478".to_string()]).with_credential("simuser", "simpass")],
        (2, 0) => c.ice_servers = vec![rustrtc::IceServer::new(vec!["turn:10.0.0.50:3478?transport=tcp".to_string()]).with_credential("simuser", "simpass")],
        _ => {}
    }
    c
}

pub struct Peer {
    pub name: &'static str,
    pub pc: PeerConnection,
    pub dc: Option<Arc<DataChannel>>,
    /// further negotiated channels (ids 1, 2, …) when the scenario asks for more than one
    pub more_dcs: Vec<Arc<DataChannel>>,
    pub audio: Option<Arc<SampleStreamSource>>,
    pub video: Option<Arc<SampleStreamSource>>,
    /// video codec offered by add_media (default VP8/96)
    pub video_codec: Option<RtpCodecParameters>,
    keep: Vec<Box<dyn std::any::Any + Send + Sync>>,
}

pub fn opus() -> RtpCodecParameters {
    RtpCodecParameters { payload_type: 111, name: "opus".into(), clock_rate: 48000, channels: 2 }
}
pub fn vp8() -> RtpCodecParameters {
    RtpCodecParameters { payload_type: 96, name: "VP8".into(), clock_rate: 90000, channels: 0 }
}

impl Peer {
    pub fn new(ctx: &Ctx, k: &PcKnobs, side: usize) -> Peer {
        let cfg = make_config(k, side, &ctx.plan);
        let pc = PeerConnection::new(cfg);
        Peer { name: if side == 0 { "A" } else { "B" }, pc, dc: None, more_dcs: Vec::new(), audio: None, video: None, video_codec: None, keep: Vec::new() }
    }
    /// a peer with an explicit configuration (C07: depacketizer factory, further hosts)
    pub fn with_config(name: &'static str, cfg: RtcConfiguration) -> Peer {
        Peer { name, pc: PeerConnection::new(cfg), dc: None, more_dcs: Vec::new(), audio: None, video: None, video_codec: None, keep: Vec::new() }
    }
    pub fn add_dc(&mut self, negotiated: bool) {
        let cfg = DataChannelConfig { negotiated: if negotiated { Some(0) } else { None }, ordered: true, ..Default::default() };
        self.dc = self.pc.create_data_channel("d", Some(cfg)).ok();
    }
    pub fn add_more_dcs(&mut self, n: usize) {
        for i in 0..n {
            let cfg = DataChannelConfig { negotiated: Some(1 + i as u16), ordered: true, ..Default::default() };
            if let Ok(dc) = self.pc.create_data_channel(&format!("d{}", 1 + i), Some(cfg)) {
                self.more_dcs.push(dc);
            }
        }
    }
    /// add sending tracks for the media kinds of the mix (call on the answerer AFTER set_remote_description
    /// so the offered transceivers are reused)
    pub fn add_media(&mut self, k: &PcKnobs) {
        if k.has_audio() && self.audio.is_none() {
            let (src, track, fb) = sample_track(rustrtc::media::frame::MediaKind::Audio, 64);
            if self.pc.add_track(track, opus()).is_ok() {
                self.audio = Some(Arc::new(src));
            }
            self.keep.push(Box::new(fb));
        }
        if k.has_video() && self.video.is_none() {
            let (src, track, fb) = sample_track(rustrtc::media::frame::MediaKind::Video, 64);
            if self.pc.add_track(track, self.video_codec.clone().unwrap_or_else(vp8)).is_ok() {
                self.video = Some(Arc::new(src));
            }
            self.keep.push(Box::new(fb));
        }
    }
    pub fn send_audio(&self, i: u32) -> bool {
        match &self.audio {
            Some(s) => s.send(MediaSample::Audio(AudioFrame { rtp_timestamp: 1000 + i * 960, data: bytes::Bytes::from(media_payload(self.name, 0, i)), ..Default::default() })).is_ok(),
            None => false,
        }
    }
    pub fn send_video(&self, i: u32) -> bool {
        match &self.video {
            Some(s) => s
                .send(MediaSample::Video(VideoFrame { rtp_timestamp: 5000 + i * 3000, data: bytes::Bytes::from(media_payload(self.name, 1, i)), is_last_packet: true, ..Default::default() }))
                .is_ok(),
            None => false,
        }
    }
}

pub fn media_payload(name: &str, kind: u8, i: u32) -> Vec<u8> {
    let mut v = vec![0u8; 40 + (i as usize % 7) * 13];
    let mut r = crate::plan::Rng::new(crate::plan::mix(name.as_bytes()[0] as u64 * 31 + kind as u64, i as u64));
    r.fill(&mut v);
    v[0] = 0xA5;
    v[1] = name.as_bytes()[0];
    v[2] = kind;
    v[3..7].copy_from_slice(&i.to_be_bytes());
    v
}

/// One full offer/answer round over a (here: perfect) signaling channel.
/// Returns the offer and answer texts, or the first API error.
pub async fn negotiate(off: &mut Peer, ans: &mut Peer, k: &PcKnobs, ctx: &Ctx) -> Result<(String, String), String> {
    let _ = off.pc.create_offer().await.map_err(|e| format!("{} create_offer: {e}", off.name))?;
    off.pc.wait_for_gathering_complete().await;
    let offer = off.pc.create_offer().await.map_err(|e| format!("{} create_offer(2): {e}", off.name))?;
    let offer_s = offer.to_sdp_string();
    ctx.ev(&format!("sig {} offer", off.name), &if ctx.plan.knob("dump_sdp", 0) == 1 { offer_s.clone() } else { format!("len={}", offer_s.len()) });
    off.pc.set_local_description(offer.clone()).map_err(|e| format!("{} set_local(offer): {e}", off.name))?;
    // the signaling channel carries text
    let offer_rx = SessionDescription::parse(rustrtc::SdpType::Offer, &offer_s).map_err(|e| format!("offer does not re-parse: {e}"))?;
    let sig_delay = std::time::Duration::from_millis(ctx.plan.knob("sig_delay_ms", 0).max(0) as u64);
    tokio::time::sleep(sig_delay).await; // signaling latency: offer in transit
    ans.pc.set_remote_description(offer_rx).await.map_err(|e| format!("{} set_remote(offer): {e}", ans.name))?;
    ans.add_media(k);
    if k.has_dc() && ctx.plan.knob("dc_inband", 0) == 2 {
        // the answering application opens an in-band channel of its own after applying the offer and before answering
        ans.add_dc(false);
    }
    tokio::time::sleep(sig_delay).await; // the application takes its time before answering
    let _ = ans.pc.create_answer().await.map_err(|e| format!("{} create_answer: {e}", ans.name))?;
    ans.pc.wait_for_gathering_complete().await;
    let answer = ans.pc.create_answer().await.map_err(|e| format!("{} create_answer(2): {e}", ans.name))?;
    let answer_s = answer.to_sdp_string();
    ctx.ev(&format!("sig {} answer", ans.name), &if ctx.plan.knob("dump_sdp", 0) == 1 { answer_s.clone() } else { format!("len={}", answer_s.len()) });
    // ans_late_ms > 0: the answering application hands its answer to the signaling channel first and applies it
    // locally only that long after the offerer has applied it (both orders complete the exchange)
    let late = ctx.plan.knob("ans_late_ms", 0).max(0) as u64;
    if late == 0 {
        ans.pc.set_local_description(answer.clone()).map_err(|e| format!("{} set_local(answer): {e}", ans.name))?;
    }
    tokio::time::sleep(sig_delay).await; // answer in transit
    let answer_rx = SessionDescription::parse(rustrtc::SdpType::Answer, &answer_s).map_err(|e| format!("answer does not re-parse: {e}"))?;
    off.pc.set_remote_description(answer_rx).await.map_err(|e| format!("{} set_remote(answer): {e}", off.name))?;
    if late > 0 {
        tokio::time::sleep(std::time::Duration::from_millis(late)).await;
        ctx.ev(&format!("sig {} applies its answer late", ans.name), &format!("after {late} ms"));
        ans.pc.set_local_description(answer.clone()).map_err(|e| format!("{} set_local(answer, late): {e}", ans.name))?;
    }
    Ok((offer_s, answer_s))
}

pub fn kind_of(t: &rustrtc::peer_connection::RtpTransceiver) -> MediaKind {
    t.kind()
}
