//! Counting global allocator (C07.alloc): process-wide cumulative bytes requested from the
//! allocator. Runs are single-threaded, so the difference of two readings is the allocation
//! volume of the code that ran in between. The reading is only ever used by the C07 harness
//! to *flag*; it must never reach the event log or steer a run.
use std::alloc::{GlobalAlloc, Layout, System};
use std::sync::atomic::{AtomicU64, Ordering};

static BYTES: AtomicU64 = AtomicU64::new(0);
static CALLS: AtomicU64 = AtomicU64::new(0);
static MAX_SINGLE: AtomicU64 = AtomicU64::new(0);

pub struct Counting;

unsafe impl GlobalAlloc for Counting {
    unsafe fn alloc(&self, l: Layout) -> *mut u8 {
        BYTES.fetch_add(l.size() as u64, Ordering::Relaxed);
        CALLS.fetch_add(1, Ordering::Relaxed);
        MAX_SINGLE.fetch_max(l.size() as u64, Ordering::Relaxed);
        unsafe { System.alloc(l) }
    }
    unsafe fn alloc_zeroed(&self, l: Layout) -> *mut u8 {
        BYTES.fetch_add(l.size() as u64, Ordering::Relaxed);
        CALLS.fetch_add(1, Ordering::Relaxed);
        MAX_SINGLE.fetch_max(l.size() as u64, Ordering::Relaxed);
        unsafe { System.alloc_zeroed(l) }
    }
    unsafe fn dealloc(&self, p: *mut u8, l: Layout) {
        unsafe { System.dealloc(p, l) }
    }
    unsafe fn realloc(&self, p: *mut u8, l: Layout, new_size: usize) -> *mut u8 {
        // a growing realloc is charged with the growth only (the old bytes were charged before)
        if new_size > l.size() {
            BYTES.fetch_add((new_size - l.size()) as u64, Ordering::Relaxed);
        }
        CALLS.fetch_add(1, Ordering::Relaxed);
        MAX_SINGLE.fetch_max(new_size as u64, Ordering::Relaxed);
        unsafe { System.realloc(p, l, new_size) }
    }
}

/// cumulative bytes requested since process start
pub fn allocated() -> u64 {
    BYTES.load(Ordering::Relaxed)
}
#[allow(dead_code)]
pub fn calls() -> u64 {
    CALLS.load(Ordering::Relaxed)
}
/// largest single request (alloc, alloc_zeroed or the new size of a realloc) since the previous call; resets the mark
pub fn take_max_single() -> u64 {
    MAX_SINGLE.swap(0, Ordering::Relaxed)
}
