//! Run scaffolding: installs every seam for one run, builds the paused single-thread
//! runtime, dispatches to the scenario and collects the Outcome.
use crate::monitor::{KeyTable, StdMonitor};
use crate::net::{Shared, SharedRef, SimNet};
use crate::plan::*;
use rustrtc::verif_hooks as vh;
use std::cell::Cell;
use std::sync::{Arc, Mutex};
use std::time::Duration;

pub struct Ctx {
    pub plan: Plan,
    pub sh: SharedRef,
    pub net: Arc<SimNet>,
    pub keys: KeyTable,
    pub metrics: tokio::runtime::RuntimeMetrics,
}

impl Ctx {
    pub fn ev(&self, sem: &str, detail: &str) {
        self.sh.lock().unwrap().event(sem, detail);
    }
    pub fn violate(&self, oracle: &str, detail: String) {
        self.sh.lock().unwrap().violate(oracle, detail);
    }
    pub fn stat(&self, k: &str, n: u64) {
        self.sh.lock().unwrap().stat(k, n);
    }
    pub fn now_ms(&self) -> u64 {
        self.sh.lock().unwrap().now_ms() as u64
    }
    pub async fn sleep_until_ms(&self, ms: u64) {
        let t0 = self.sh.lock().unwrap().t0;
        tokio::time::sleep_until(t0 + Duration::from_millis(ms)).await;
    }
}

// ---- panic capture ----------------------------------------------------------
static PANICS: Mutex<Vec<String>> = Mutex::new(Vec::new());
/// C07: description of the hostile input delivered last (class, mutation, length, hex prefix); appended to
/// every panic record so that a C07.panic violation names its input. Cleared at the start of every run.
static LAST_INPUT: Mutex<String> = Mutex::new(String::new());
pub fn set_last_input(note: &str) {
    let mut g = LAST_INPUT.lock().unwrap_or_else(|e| e.into_inner());
    g.clear();
    g.push_str(note);
}
/// number of panics recorded so far in this run (any task)
pub fn panic_count() -> usize {
    PANICS.lock().unwrap_or_else(|e| e.into_inner()).len()
}
pub fn install_panic_hook() {
    static ONCE: std::sync::Once = std::sync::Once::new();
    ONCE.call_once(|| {
        std::panic::set_hook(Box::new(|info| {
            let loc = info.location().map(|l| format!("{}:{}", l.file(), l.line())).unwrap_or_default();
            let msg = if let Some(s) = info.payload().downcast_ref::<&str>() {
                s.to_string()
            } else if let Some(s) = info.payload().downcast_ref::<String>() {
                s.clone()
            } else {
                "<non-string panic>".into()
            };
            let note = LAST_INPUT.lock().unwrap_or_else(|e| e.into_inner()).clone();
            let tail = if note.is_empty() { String::new() } else { format!(" | last hostile input: {note}") };
            // A panic raised inside a dependency (bytes::Buf::get_u8 on an empty buffer, slice indexing helpers ...)
            // carries the dependency's location. Whose fault it is is decided by the innermost frame that belongs
            // to rustrtc or to the harness (symbol names; the sim profile has no file/line debug info).
            let mut owner = String::new();
            if !is_repo_path(&loc) {
                let bt = std::backtrace::Backtrace::force_capture().to_string();
                for l in bt.lines() {
                    let l = l.trim_start();
                    let Some((_, sym)) = l.split_once(": ") else { continue };
                    let sym = sym.trim_start_matches('<');
                    if sym.starts_with("rustrtc::") {
                        owner = format!("/repo/ (in {} via {loc})", sym.split(" as ").next().unwrap_or(sym));
                        break;
                    }
                    if sym.starts_with("rtcsim::") && !sym.starts_with("rtcsim::sim::install_panic_hook") {
                        break;
                    }
                }
            }
            let head = if owner.is_empty() { loc } else { owner };
            PANICS.lock().unwrap_or_else(|e| e.into_inner()).push(format!("{head}: {msg}{tail}"));
        }));
    });
}
fn is_repo_path(p: &str) -> bool {
    p.starts_with("/repo/") || option_env!("RTCSIM_REPO_PREFIX").map(|x| p.starts_with(x)).unwrap_or(false)
}
pub fn take_panics() -> Vec<String> {
    std::mem::take(&mut *PANICS.lock().unwrap_or_else(|e| e.into_inner()))
}

// ---- certificate pool -------------------------------------------------------
thread_local! { static NEXT_CERT: Cell<usize> = const { Cell::new(0) }; }
fn pool() -> &'static Vec<(Vec<u8>, String)> {
    static POOL: std::sync::OnceLock<Vec<(Vec<u8>, String)>> = std::sync::OnceLock::new();
    POOL.get_or_init(|| {
        let p = concat!(env!("CARGO_MANIFEST_DIR"), "/certs/pool.json");
        let s = std::fs::read_to_string(p).unwrap_or_else(|e| panic!("certificate pool {p}: {e}"));
        let v: Vec<(String, String)> = serde_json::from_str(&s).expect("pool.json");
        v.into_iter().map(|(h, pem)| (hex_decode(&h), pem)).collect()
    })
}
pub fn hex_decode(h: &str) -> Vec<u8> {
    (0..h.len() / 2).map(|i| u8::from_str_radix(&h[2 * i..2 * i + 2], 16).unwrap()).collect()
}
pub fn hex_encode(b: &[u8]) -> String {
    b.iter().map(|x| format!("{x:02x}")).collect()
}
/// Certificate `idx` of the committed pool, as a rustrtc `Certificate` (through the cert hook).
pub fn cert(idx: usize) -> rustrtc::transports::dtls::Certificate {
    NEXT_CERT.with(|c| c.set(idx));
    rustrtc::transports::dtls::generate_certificate().expect("pool certificate")
}
pub fn cert_der(idx: usize) -> Vec<u8> {
    pool()[idx % pool().len()].0.clone()
}
pub fn gen_cert_pool(n: usize) {
    vh::set_certificate_source(None);
    let mut out = Vec::new();
    for _ in 0..n {
        let c = rustrtc::transports::dtls::generate_certificate().unwrap();
        out.push((hex_encode(&c.certificate[0]), c.private_key.clone()));
    }
    let p = concat!(env!("CARGO_MANIFEST_DIR"), "/certs/pool.json");
    std::fs::create_dir_all(std::path::Path::new(p).parent().unwrap()).unwrap();
    std::fs::write(p, serde_json::to_string_pretty(&out).unwrap()).unwrap();
}

fn install_seams(plan: &Plan) {
    // process-wide state of rustrtc must not survive from an earlier run of this worker process
    rustrtc::transports::ice::shared_udp::verif_reset_registry();
    rustrtc::transports::ice::shared_tcp::verif_reset_registry();
    let mut r = Rng::new(mix(plan.seed, 0x72616e64));
    vh::set_random_source(Some(Box::new(move |b: &mut [u8]| r.fill(b))));
    let _ = pool();
    NEXT_CERT.with(|c| c.set(0));
    vh::set_certificate_source(Some(Box::new(|| {
        let i = NEXT_CERT.with(|c| {
            let v = c.get();
            c.set(v + 1);
            v
        });
        pool()[i % pool().len()].clone()
    })));
    let pct = plan.sched.defer_pct as u64;
    if pct > 0 {
        let mut d = Rng::new(mix(plan.sched.rng_seed, 0x6465666572));
        vh::set_defer_decider(Some(Box::new(move || d.below(100) < pct)));
    } else {
        vh::set_defer_decider(None);
    }
    // knob io_yield_pct: that share of asynchronous socket sends yields once before completing (as a real socket with
    // a momentarily full buffer does) - the only way two tasks can interleave inside a send path that has no other await
    let ypct = plan.knob("io_yield_pct", 0).clamp(0, 100) as u64;
    if ypct > 0 {
        let mut y = Rng::new(mix(plan.sched.rng_seed, 0x696f7969656c64));
        vh::set_io_yield_decider(Some(Box::new(move || y.below(100) < ypct)));
    } else {
        vh::set_io_yield_decider(None);
    }
    vh::set_virtual_wall_clock(true);
    // iteration order of rustrtc's seeded hash maps (ICE's table of TCP streams) is a function of the plan
    vh::set_hash_seed(mix(plan.seed, 0x686173686d6170));
    vh::set_local_ip_override(Some("10.0.0.9".parse().unwrap()));
    vh::set_initial_tsn_override(None);
}

/// (installed once the run's shared record exists: fired preemptions are counted as faults)
fn install_preempt(plan: &Plan, sh: SharedRef) {
    // knob preempt_pct / preempt_us: at that share of rustrtc's named preemption points (statements of an await-free region
    // between which another OS thread could run on a multi-threaded runtime) the running task is descheduled for
    // preempt_us virtual microseconds (0 = one scheduler turn)
    let ppct = plan.knob("preempt_pct", 0).clamp(0, 100) as u64;
    if ppct > 0 {
        let mut y = Rng::new(mix(plan.sched.rng_seed, 0x707265656d7074));
        let us = plan.knob("preempt_us", 2000).clamp(0, 1_000_000) as u64;
        let sh2 = Some(sh);
        let only = plan.knob("preempt_only", 0);
        vh::set_preempt_decider(Some(Box::new(move |name| {
            // knob preempt_only: 0 = every named point, 1 = only the first point of a pair ("...published"), 2 = only the second
            let wanted = match only { 1 => name.ends_with("epoch_stored"), 2 => !name.ends_with("epoch_stored"), _ => true };
            if wanted && y.below(100) < ppct {
                if let Some(sh) = &sh2 {
                    sh.lock().unwrap().stat(&format!("fault.preempt.{name}"), 1);
                }
                Some(std::time::Duration::from_micros(us))
            } else {
                None
            }
        })));
    } else {
        vh::set_preempt_decider(None);
    }
}

fn clear_seams() {
    vh::set_random_source(None);
    vh::set_certificate_source(None);
    vh::set_defer_decider(None);
    vh::set_io_yield_decider(None);
    vh::set_preempt_decider(None);
    vh::set_udp_binder(None);
    vh::set_tcp_binder(None);
    vh::set_initial_tsn_override(None);
    vh::set_local_ip_override(None);
    vh::set_virtual_wall_clock(false);
}

pub fn run_plan(plan: &Plan, keep_log: bool) -> Outcome {
    install_panic_hook();
    let _ = take_panics();
    set_last_input("");
    install_seams(plan);
    let rt = tokio::runtime::Builder::new_current_thread()
        .enable_all()
        .start_paused(true)
        .rng_seed(tokio::runtime::RngSeed::from_bytes(&plan.sched.rng_seed.to_le_bytes()))
        .build()
        .expect("runtime");
    let metrics = rt.handle().metrics();
    let plan2 = plan.clone();
    let shared: Arc<Mutex<Option<SharedRef>>> = Arc::new(Mutex::new(None));
    let shared2 = shared.clone();
    let res = std::panic::catch_unwind(std::panic::AssertUnwindSafe(|| {
        rt.block_on(async move {
            vh::reset_clock(1_800_000_000_000 + (plan2.knob("unix_skew_ms", 0) as u64));
            let sh: SharedRef = Arc::new(Mutex::new(Shared::new(keep_log)));
            *shared2.lock().unwrap() = Some(sh.clone());
            install_preempt(&plan2, sh.clone());
            let keys: KeyTable = Arc::new(Mutex::new(Vec::new()));
            let net = SimNet::new(&plan2, sh.clone(), Box::new(StdMonitor::new(keys.clone())));
            let nt = tokio::spawn(net.clone().run());
            let ctx = Ctx { plan: plan2, sh: sh.clone(), net: net.clone(), keys, metrics };
            crate::scenarios::dispatch(&ctx).await;
            ctx.keys.lock().unwrap().clear();
            net.set_monitor(Box::new(crate::net::NullMonitor));
            nt.abort();
            let _ = nt.await;
        })
    }));
    drop(rt);
    clear_seams();
    let sh = shared.lock().unwrap().take();
    let mut out = Outcome::default();
    if let Some(sh) = sh {
        let mut s = sh.lock().unwrap_or_else(|e| e.into_inner());
        let now = s.now_ms() as u64;
        out.violations = std::mem::take(&mut s.violations);
        out.log_hash = s.log_hash;
        out.trace_hash = s.trace_hash;
        out.events = s.events;
        out.stats = std::mem::take(&mut s.stats);
        out.fired = std::mem::take(&mut s.fired);
        out.log = std::mem::take(&mut s.log);
        out.virt_ms = out.stats.get("virt_ms").copied().unwrap_or(now);
        out.nontrivial = out.stats.get("nontrivial").copied().unwrap_or(0) > 0;
    }
    let panics = take_panics();
    let is_c07 = plan.prop == "C07";
    if res.is_err() && panics.is_empty() {
        out.violations.push(Violation { oracle: "HARNESS.panic".into(), detail: "run panicked without message".into() });
    }
    for p in panics {
        // A panic inside rustrtc is a C07 matter (other properties only count it);
        // a panic anywhere else is a harness error (exit 2, never a finding).
        // (builds against a scratch worktree of rustrtc set RTCSIM_REPO_PREFIX at compile time)
        let in_rustrtc = is_repo_path(&p);
        if in_rustrtc {
            *out.stats.entry("panic.rustrtc".into()).or_insert(0) += 1;
            if is_c07 {
                out.violations.push(Violation { oracle: "C07.panic".into(), detail: p });
            } else if keep_log {
                out.log.push(format!("PANIC(rustrtc, not judged by this property): {p}"));
            }
        } else {
            out.violations.push(Violation { oracle: "HARNESS.panic".into(), detail: p });
        }
    }
    out
}
