//! Run scaffolding: installs every seam for one run, builds the paused single-thread
//! runtime, dispatches to the scenario and collects the Outcome.
use crate::monitor::{KeyTable, StdMonitor};
use crate::net::{Shared, SharedRef, SimNet};
use crate::plan::*;
use rustrtc::verif_hooks as vh;
use std::cell::Cell;
use std::sync::{Arc, Mutex};
use std::time::Duration;

pub struct Ctx {
    pub plan: Plan,
    pub sh: SharedRef,
    pub net: Arc<SimNet>,
    pub keys: KeyTable,
    pub metrics: tokio::runtime::RuntimeMetrics,
}

impl Ctx {
    pub fn ev(&self, sem: &str, detail: &str) {
        self.sh.lock().unwrap().event(sem, detail);
    }
    pub fn violate(&self, oracle: &str, detail: String) {
        self.sh.lock().unwrap().violate(oracle, detail);
    }
    pub fn stat(&self, k: &str, n: u64) {
        self.sh.lock().unwrap().stat(k, n);
    }
    pub fn now_ms(&self) -> u64 {
        self.sh.lock().unwrap().now_ms() as u64
    }
    pub async fn sleep_until_ms(&self, ms: u64) {
        let t0 = self.sh.lock().unwrap().t0;
        tokio::time::sleep_until(t0 + Duration::from_millis(ms)).await;
    }
}

// ---- panic capture ----------------------------------------------------------
static PANICS: Mutex<Vec<String>> = Mutex::new(Vec::new());
pub fn install_panic_hook() {
    static ONCE: std::sync::Once = std::sync::Once::new();
    ONCE.call_once(|| {
        std::panic::set_hook(Box::new(|info| {
            let loc = info.location().map(|l| format!("{}:{}", l.file(), l.line())).unwrap_or_default();
            let msg = if let Some(s) = info.payload().downcast_ref::<&str>() {
                s.to_string()
            } else if let Some(s) = info.payload().downcast_ref::<String>() {
                s.clone()
            } else {
                "<non-string panic>".into()
            };
            PANICS.lock().unwrap_or_else(|e| e.into_inner()).push(format!("{loc}: {msg}"));
        }));
    });
}
pub fn take_panics() -> Vec<String> {
    std::mem::take(&mut *PANICS.lock().unwrap_or_else(|e| e.into_inner()))
}

// ---- certificate pool -------------------------------------------------------
thread_local! { static NEXT_CERT: Cell<usize> = const { Cell::new(0) }; }
fn pool() -> &'static Vec<(Vec<u8>, String)> {
    static POOL: std::sync::OnceLock<Vec<(Vec<u8>, String)>> = std::sync::OnceLock::new();
    POOL.get_or_init(|| {
        let p = concat!(env!("CARGO_MANIFEST_DIR"), "/certs/pool.json");
        let s = std::fs::read_to_string(p).unwrap_or_else(|e| panic!("certificate pool {p}: {e}"));
        let v: Vec<(String, String)> = serde_json::from_str(&s).expect("pool.json");
        v.into_iter().map(|(h, pem)| (hex_decode(&h), pem)).collect()
    })
}
pub fn hex_decode(h: &str) -> Vec<u8> {
    (0..h.len() / 2).map(|i| u8::from_str_radix(&h[2 * i..2 * i + 2], 16).unwrap()).collect()
}
pub fn hex_encode(b: &[u8]) -> String {
    b.iter().map(|x| format!("{x:02x}")).collect()
}
/// Certificate `idx` of the committed pool, as a rustrtc `Certificate` (through the cert hook).
pub fn cert(idx: usize) -> rustrtc::transports::dtls::Certificate {
    NEXT_CERT.with(|c| c.set(idx));
    rustrtc::transports::dtls::generate_certificate().expect("pool certificate")
}
pub fn cert_der(idx: usize) -> Vec<u8> {
    pool()[idx % pool().len()].0.clone()
}
pub fn gen_cert_pool(n: usize) {
    vh::set_certificate_source(None);
    let mut out = Vec::new();
    for _ in 0..n {
        let c = rustrtc::transports::dtls::generate_certificate().unwrap();
        out.push((hex_encode(&c.certificate[0]), c.private_key.clone()));
    }
    let p = concat!(env!("CARGO_MANIFEST_DIR"), "/certs/pool.json");
    std::fs::create_dir_all(std::path::Path::new(p).parent().unwrap()).unwrap();
    std::fs::write(p, serde_json::to_string_pretty(&out).unwrap()).unwrap();
}

fn install_seams(plan: &Plan) {
    let mut r = Rng::new(mix(plan.seed, 0x72616e64));
    vh::set_random_source(Some(Box::new(move |b: &mut [u8]| r.fill(b))));
    let _ = pool();
    NEXT_CERT.with(|c| c.set(0));
    vh::set_certificate_source(Some(Box::new(|| {
        let i = NEXT_CERT.with(|c| {
            let v = c.get();
            c.set(v + 1);
            v
        });
        pool()[i % pool().len()].clone()
    })));
    let pct = plan.sched.defer_pct as u64;
    if pct > 0 {
        let mut d = Rng::new(mix(plan.sched.rng_seed, 0x6465666572));
        vh::set_defer_decider(Some(Box::new(move || d.below(100) < pct)));
    } else {
        vh::set_defer_decider(None);
    }
    vh::set_virtual_wall_clock(true);
    vh::set_local_ip_override(Some("10.0.0.9".parse().unwrap()));
    vh::set_initial_tsn_override(None);
}

fn clear_seams() {
    vh::set_random_source(None);
    vh::set_certificate_source(None);
    vh::set_defer_decider(None);
    vh::set_udp_binder(None);
    vh::set_initial_tsn_override(None);
    vh::set_local_ip_override(None);
    vh::set_virtual_wall_clock(false);
}

pub fn run_plan(plan: &Plan, keep_log: bool) -> Outcome {
    install_panic_hook();
    let _ = take_panics();
    install_seams(plan);
    let rt = tokio::runtime::Builder::new_current_thread()
        .enable_all()
        .start_paused(true)
        .rng_seed(tokio::runtime::RngSeed::from_bytes(&plan.sched.rng_seed.to_le_bytes()))
        .build()
        .expect("runtime");
    let metrics = rt.handle().metrics();
    let plan2 = plan.clone();
    let shared: Arc<Mutex<Option<SharedRef>>> = Arc::new(Mutex::new(None));
    let shared2 = shared.clone();
    let res = std::panic::catch_unwind(std::panic::AssertUnwindSafe(|| {
        rt.block_on(async move {
            vh::reset_clock(1_800_000_000_000 + (plan2.knob("unix_skew_ms", 0) as u64));
            let sh: SharedRef = Arc::new(Mutex::new(Shared::new(keep_log)));
            *shared2.lock().unwrap() = Some(sh.clone());
            let keys: KeyTable = Arc::new(Mutex::new(Vec::new()));
            let net = SimNet::new(&plan2, sh.clone(), Box::new(StdMonitor::new(keys.clone())));
            let nt = tokio::spawn(net.clone().run());
            let ctx = Ctx { plan: plan2, sh: sh.clone(), net: net.clone(), keys, metrics };
            crate::scenarios::dispatch(&ctx).await;
            ctx.keys.lock().unwrap().clear();
            net.set_monitor(Box::new(crate::net::NullMonitor));
            nt.abort();
            let _ = nt.await;
        })
    }));
    drop(rt);
    clear_seams();
    let sh = shared.lock().unwrap().take();
    let mut out = Outcome::default();
    if let Some(sh) = sh {
        let mut s = sh.lock().unwrap_or_else(|e| e.into_inner());
        let now = s.now_ms() as u64;
        out.violations = std::mem::take(&mut s.violations);
        out.log_hash = s.log_hash;
        out.trace_hash = s.trace_hash;
        out.events = s.events;
        out.stats = std::mem::take(&mut s.stats);
        out.fired = std::mem::take(&mut s.fired);
        out.log = std::mem::take(&mut s.log);
        out.virt_ms = out.stats.get("virt_ms").copied().unwrap_or(now);
        out.nontrivial = out.stats.get("nontrivial").copied().unwrap_or(0) > 0;
    }
    let panics = take_panics();
    let is_c07 = plan.prop == "C07";
    if res.is_err() && panics.is_empty() {
        out.violations.push(Violation { oracle: "HARNESS.panic".into(), detail: "run panicked without message".into() });
    }
    for p in panics {
        // A panic inside rustrtc is a C07 matter (other properties only count it);
        // a panic anywhere else is a harness error (exit 2, never a finding).
        let in_rustrtc = p.starts_with("/repo/");
        if in_rustrtc {
            *out.stats.entry("panic.rustrtc".into()).or_insert(0) += 1;
            if is_c07 {
                out.violations.push(Violation { oracle: "C07.panic".into(), detail: p });
            } else if keep_log {
                out.log.push(format!("PANIC(rustrtc, not judged by this property): {p}"));
            }
        } else {
            out.violations.push(Violation { oracle: "HARNESS.panic".into(), detail: p });
        }
    }
    out
}
