//! C07 generators: hostile datagrams built from scratch (not derived from a genuine one) and
//! structure-aware SCTP packets for the "malicious peer" (sealed by the caller).
use super::hostile_mut::Mutant;
use crate::monitor::crc32c;
use crate::plan::Rng;

/// What the wire monitor learnt about the genuine stream towards the victim (so that generated
/// RTP is accepted by the demultiplexer and reaches depacketizers / bridges).
#[derive(Clone, Copy, Default, Debug)]
pub struct RtpCtx {
    pub ssrc: u32,
    pub pt: u8,
    pub seq: u16,
    pub ts: u32,
    pub video_ssrc: u32,
    pub video_pt: u8,
}

fn rec(ct: u8, ver: [u8; 2], epoch: u16, seq: u64, body: &[u8]) -> Vec<u8> {
    let mut d = vec![ct, ver[0], ver[1]];
    d.extend_from_slice(&epoch.to_be_bytes());
    d.extend_from_slice(&seq.to_be_bytes()[2..]);
    d.extend_from_slice(&(body.len() as u16).to_be_bytes());
    d.extend_from_slice(body);
    d
}
fn hs(ty: u8, mseq: u16, total: usize, off: usize, flen: usize, body: &[u8]) -> Vec<u8> {
    let mut m = vec![ty];
    m.extend_from_slice(&(total as u32).to_be_bytes()[1..]);
    m.extend_from_slice(&mseq.to_be_bytes());
    m.extend_from_slice(&(off as u32).to_be_bytes()[1..]);
    m.extend_from_slice(&(flen as u32).to_be_bytes()[1..]);
    m.extend_from_slice(body);
    m
}

pub const N_DTLS_VARIANTS: u64 = 14;
/// Generated DTLS datagrams. `v` selects the shape, `r` the free parameters.
pub fn gen_dtls(v: u64, r: &mut Rng) -> Mutant {
    let ver = [0xfe, 0xfd];
    let mseq = *r.pick(&[0u16, 0, 1, 2, 3, 4, 5, 65535]);
    let seq = r.below(1 << 20);
    let mut body = vec![0u8; 512];
    r.fill(&mut body);
    body[0] = 0xfe;
    body[1] = 0xfd;
    match v % N_DTLS_VARIANTS {
        0 | 1 => {
            // ClientHello (0) / ServerHello (1) whose body is n bytes long, n around the fixed part (34)
            let ty = if v % N_DTLS_VARIANTS == 0 { 1 } else { 2 };
            let n = *r.pick(&[0usize, 1, 2, 33, 34, 34, 34, 35, 36, 37, 38, 40, 41, 66, 67]);
            let mut b = body[..n].to_vec();
            // make later length bytes small so that walkers proceed as far as possible
            for x in b.iter_mut().skip(34) {
                *x = r.below(3) as u8;
            }
            Mutant { bytes: rec(22, ver, 0, seq, &hs(ty, mseq, n, 0, n, &b)), what: format!("gen dtls hello type={ty} body_len={n} message_seq={mseq}") }
        }
        2 => {
            // well-formed hello prefix with a length byte pointing past the end at each position
            let ty = *r.pick(&[1u8, 2]);
            let mut b = body[..34].to_vec();
            let tail: Vec<u8> = match r.below(6) {
                0 => vec![32],                                  // session id longer than the rest
                1 => vec![0, 255],                              // cookie / cipher suite past the end
                2 => vec![0, 0, 0xff, 0xff],                    // cipher suites length 65535
                3 => vec![0, 0, 0, 2, 0xc0, 0x2b, 5, 0],        // compression length past the end
                4 => vec![0, 0, 0, 2, 0xc0, 0x2b, 1, 0, 0xff, 0xff], // extensions length 65535
                _ => vec![0, 0, 0, 2, 0xc0, 0x2b, 1, 0, 0, 6, 0, 14, 0, 9, 0, 2], // use_srtp ext with inner length past the end
            };
            b.extend_from_slice(&tail);
            let n = b.len();
            Mutant { bytes: rec(22, ver, 0, seq, &hs(ty, mseq, n, 0, n, &b)), what: format!("gen dtls hello type={ty} with dangling length, tail={tail:02x?}") }
        }
        3 => {
            // HelloVerifyRequest with cookie length past the end / zero / 255
            let cl = *r.pick(&[0u8, 1, 32, 255]);
            let have = r.below(4) as usize;
            let mut b = vec![0xfe, 0xff, cl];
            b.extend_from_slice(&body[..have]);
            let n = b.len();
            Mutant { bytes: rec(22, ver, 0, seq, &hs(3, mseq, n, 0, n, &b[..*r.pick(&[0usize, 1, 2, 3, n]).min(&n)])), what: format!("gen dtls hello_verify_request cookie_len={cl} present={have}") }
        }
        4 => {
            // Certificate message with inconsistent list / entry lengths
            let (ll, cl) = *r.pick(&[(0usize, 0usize), (3, 0), (0xffffff, 0xffffff), (10, 0xffffff), (6, 3), (3, 1), (300, 297)]);
            let mut b = Vec::new();
            b.extend_from_slice(&(ll as u32).to_be_bytes()[1..]);
            b.extend_from_slice(&(cl as u32).to_be_bytes()[1..]);
            b.extend_from_slice(&body[..r.below(40) as usize]);
            let cut = r.below(b.len() as u64 + 1) as usize;
            let b = &b[..cut];
            Mutant { bytes: rec(22, ver, 0, seq, &hs(11, mseq, b.len(), 0, b.len(), b)), what: format!("gen dtls certificate list_len={ll} cert_len={cl} body_len={}", b.len()) }
        }
        5 => {
            // ServerKeyExchange / ClientKeyExchange with short bodies
            let ty = *r.pick(&[12u8, 16]);
            let n = r.below(12) as usize;
            let mut b = body[..n].to_vec();
            if n > 0 && ty == 12 {
                b[0] = 3;
            }
            Mutant { bytes: rec(22, ver, 0, seq, &hs(ty, mseq, n, 0, n, &b)), what: format!("gen dtls key_exchange type={ty} body_len={n}") }
        }
        6 => {
            // fragment with a huge announced total length
            let total = *r.pick(&[0xffffffusize, 0x800000, 70000, 65536]);
            let off = *r.pick(&[0usize, 1, 65535, 0xfffff0]);
            let n = r.below(32) as usize;
            Mutant { bytes: rec(22, ver, 0, seq, &hs(*r.pick(&[1u8, 2, 11, 12]), mseq, total, off, n, &body[..n])), what: format!("gen dtls fragment total={total} offset={off} len={n}") }
        }
        7 => {
            // a datagram full of zero-length / tiny records
            let ct = *r.pick(&[20u8, 21, 22, 23]);
            let mut d = Vec::new();
            for i in 0..(1 + r.below(110)) {
                d.extend_from_slice(&rec(ct, ver, *r.pick(&[0u16, 1]), seq + i, &body[..r.below(3) as usize]));
            }
            Mutant { bytes: d, what: format!("gen dtls many tiny records type={ct}") }
        }
        8 => {
            // record header only / record length beyond the datagram / trailing partial header
            let mut d = rec(*r.pick(&[20u8, 21, 22, 23, 24, 25]), ver, *r.pick(&[0u16, 1, 2, 65535]), seq, &body[..r.below(30) as usize]);
            let l = *r.pick(&[0u16, 1, 0x4000, 0xffff]);
            d[11..13].copy_from_slice(&l.to_be_bytes());
            d.extend_from_slice(&body[..r.below(13) as usize]);
            Mutant { bytes: d, what: format!("gen dtls record length field={l}") }
        }
        9 => {
            // epoch>=1 records that nobody's key produced (short bodies: below nonce+tag size)
            let n = *r.pick(&[0usize, 1, 7, 8, 15, 16, 23, 24, 25, 64]);
            Mutant { bytes: rec(*r.pick(&[20u8, 21, 22, 23]), ver, *r.pick(&[1u16, 2, 65535]), seq, &body[..n]), what: format!("gen dtls protected record with {n}-byte body") }
        }
        10 => {
            // ChangeCipherSpec / Alert bodies of odd sizes in epoch 0
            let ct = *r.pick(&[20u8, 21]);
            let n = *r.pick(&[0usize, 1, 2, 3, 100]);
            let mut b = body[..n].to_vec();
            if ct == 21 && n >= 2 {
                b[0] = 1;
                b[1] = *r.pick(&[10u8, 20, 40, 80, 100, 255]); // never close_notify(0): that one legitimately closes
            }
            Mutant { bytes: rec(ct, ver, 0, seq, &b), what: format!("gen dtls epoch-0 {} body_len={n}", if ct == 20 { "ccs" } else { "alert" }) }
        }
        11 => {
            // Finished with wrong sizes in epoch 0
            let n = *r.pick(&[0usize, 1, 11, 12, 13, 36]);
            Mutant { bytes: rec(22, ver, 0, seq, &hs(20, mseq, n, 0, n, &body[..n])), what: format!("gen dtls plaintext finished verify_data_len={n}") }
        }
        12 => {
            // unknown handshake types and versions
            let ty = *r.pick(&[0u8, 4, 13, 14, 15, 21, 255]);
            let n = r.below(8) as usize;
            Mutant { bytes: rec(22, *r.pick(&[[0xfe, 0xff], [3, 3], [0, 0], [0xff, 0xff]]), 0, seq, &hs(ty, mseq, n, 0, n, &body[..n])), what: format!("gen dtls handshake type={ty} body_len={n}") }
        }
        _ => {
            // several handshake messages in one record, the last header incomplete
            let mut m = hs(14, mseq, 0, 0, 0, &[]);
            m.extend_from_slice(&hs(14, mseq.wrapping_add(1), 0, 0, 0, &[]));
            m.extend_from_slice(&hs(1, mseq.wrapping_add(2), 34, 0, 34, &body[..34])[..r.below(46) as usize]);
            Mutant { bytes: rec(22, ver, 0, seq, &m), what: "gen dtls several messages, last incomplete".into() }
        }
    }
}

fn stun_attr(out: &mut Vec<u8>, ty: u16, len_field: u16, val: &[u8]) {
    out.extend_from_slice(&ty.to_be_bytes());
    out.extend_from_slice(&len_field.to_be_bytes());
    out.extend_from_slice(val);
    while out.len() % 4 != 0 {
        out.push(0);
    }
}
fn stun_msg(ty: u16, tid: &[u8; 12], attrs: &[u8], len_override: Option<u16>) -> Vec<u8> {
    let mut d = Vec::new();
    d.extend_from_slice(&ty.to_be_bytes());
    d.extend_from_slice(&len_override.unwrap_or(attrs.len() as u16).to_be_bytes());
    d.extend_from_slice(&[0x21, 0x12, 0xa4, 0x42]);
    d.extend_from_slice(tid);
    d.extend_from_slice(attrs);
    d
}

pub const N_STUN_VARIANTS: u64 = 12;
/// Generated STUN / TURN-looking datagrams. `tid` = a transaction id seen on the wire (so that
/// responses can match an outstanding transaction), `ufrag` = "<victim ufrag>:<peer ufrag>" if known.
pub fn gen_stun(v: u64, r: &mut Rng, tid: &[u8; 12], username: &[u8]) -> Mutant {
    let mut rt = [0u8; 12];
    r.fill(&mut rt);
    let tid = if r.chance(50) { *tid } else { rt };
    let types: [u16; 12] = [0x0001, 0x0101, 0x0111, 0x0011, 0x0003, 0x0103, 0x0113, 0x0004, 0x0104, 0x0016, 0x0017, 0x0009];
    let ty = *r.pick(&types);
    let mut junk = vec![0u8; 64];
    r.fill(&mut junk);
    let mut a = Vec::new();
    match v % N_STUN_VARIANTS {
        0 => {
            // XOR-MAPPED-ADDRESS family / length combinations
            let fam = *r.pick(&[0u8, 1, 2, 3, 0xff]);
            let vl = *r.pick(&[0usize, 1, 2, 3, 4, 7, 8, 19, 20, 21]);
            let mut val = vec![0, fam];
            val.extend_from_slice(&junk[..18]);
            let at = *r.pick(&[0x0020u16, 0x0001, 0x0012, 0x0016]);
            stun_attr(&mut a, at, vl as u16, &val[..vl.min(val.len())]);
            Mutant { bytes: stun_msg(*r.pick(&[0x0101u16, 0x0001, 0x0017, 0x0103]), &tid, &a, None), what: format!("gen stun addr attr {at:#06x} family={fam} value_len={vl}") }
        }
        1 => {
            // attribute length past the end / not a multiple of 4 / zero
            let l = *r.pick(&[1u16, 3, 5, 0x7fff, 0xffff, 0xfffd]);
            stun_attr(&mut a, *r.pick(&[0x0006u16, 0x0008, 0x0020, 0x8028, 0x0025, 0x0024, 0x8029, 0x802a]), l, &junk[..r.below(9) as usize]);
            Mutant { bytes: stun_msg(ty, &tid, &a, None), what: format!("gen stun type={ty:#06x} attr length field={l}") }
        }
        2 => {
            // unknown comprehension-required attributes
            stun_attr(&mut a, *r.pick(&[0x0002u16, 0x7fff, 0x0030, 0x0000]), 4, &junk[..4]);
            stun_attr(&mut a, 0x0006, username.len() as u16, username);
            Mutant { bytes: stun_msg(ty, &tid, &a, None), what: format!("gen stun type={ty:#06x} unknown comprehension-required attr") }
        }
        3 => {
            // MESSAGE-INTEGRITY / FINGERPRINT placement: FINGERPRINT first, MI after FINGERPRINT, two MIs, short MI
            let order = r.below(5);
            let mi_len = *r.pick(&[20u16, 19, 0, 32]);
            let fp = |a: &mut Vec<u8>| stun_attr(a, 0x8028, 4, &junk[..4]);
            let mi = |a: &mut Vec<u8>| stun_attr(a, 0x0008, mi_len, &junk[..(mi_len as usize).min(32)]);
            stun_attr(&mut a, 0x0006, username.len() as u16, username);
            match order {
                0 => {
                    fp(&mut a);
                    mi(&mut a);
                }
                1 => {
                    mi(&mut a);
                    mi(&mut a);
                }
                2 => {
                    a.clear();
                    fp(&mut a);
                    stun_attr(&mut a, 0x0006, username.len() as u16, username);
                    mi(&mut a);
                }
                3 => {
                    mi(&mut a);
                    stun_attr(&mut a, 0x0025, 0, &[]);
                    fp(&mut a);
                }
                _ => {
                    a.clear();
                    mi(&mut a);
                }
            }
            Mutant { bytes: stun_msg(*r.pick(&[0x0001u16, 0x0101, 0x0111]), &tid, &a, None), what: format!("gen stun MI/FINGERPRINT placement order={order} mi_len={mi_len}") }
        }
        4 => {
            // header length field vs. datagram size
            stun_attr(&mut a, 0x0006, username.len() as u16, username);
            let l = *r.pick(&[0u16, 1, 2, 3, 4, 0xffff, 0xfffc, a.len() as u16 + 4, (a.len() as u16).saturating_sub(4)]);
            Mutant { bytes: stun_msg(ty, &tid, &a, Some(l)), what: format!("gen stun type={ty:#06x} header length={l} actual={}", a.len()) }
        }
        5 => {
            // ChannelData-looking datagrams (first byte 0x40..0x7f): payload 0..4 bytes, length field beyond
            let ch = 0x4000u16 + r.below(0x4000) as u16;
            let pl = r.below(5) as usize;
            let lf = *r.pick(&[0u16, pl as u16, pl as u16 + 1, 0xffff, 4]);
            let mut d = ch.to_be_bytes().to_vec();
            d.extend_from_slice(&lf.to_be_bytes());
            d.extend_from_slice(&junk[..pl]);
            Mutant { bytes: d[..*r.pick(&[1usize, 2, 3, 4, 4 + pl]).min(&(4 + pl))].to_vec(), what: format!("gen turn channeldata channel={ch:#06x} length={lf} payload={pl}") }
        }
        6 => {
            // TURN Data indication with DATA attribute of 0..4 bytes, with/without XOR-PEER-ADDRESS
            let pl = r.below(5) as usize;
            if r.chance(70) {
                let mut val = vec![0, *r.pick(&[1u8, 2, 0])];
                val.extend_from_slice(&junk[..6]);
                stun_attr(&mut a, 0x0012, val.len() as u16, &val);
            }
            stun_attr(&mut a, 0x0013, pl as u16, &junk[..pl]);
            Mutant { bytes: stun_msg(0x0017, &tid, &a, None), what: format!("gen turn data-indication data_len={pl}") }
        }
        7 => {
            // ERROR-CODE shapes
            let vl = *r.pick(&[0usize, 1, 3, 4, 5, 40]);
            let mut val = vec![0, 0, *r.pick(&[0u8, 3, 4, 7, 255]), *r.pick(&[0u8, 1, 87, 99, 255])];
            val.extend_from_slice(&junk[..36]);
            stun_attr(&mut a, 0x0009, vl as u16, &val[..vl]);
            Mutant { bytes: stun_msg(*r.pick(&[0x0111u16, 0x0113, 0x0114]), &tid, &a, None), what: format!("gen stun error response error_attr_len={vl}") }
        }
        8 => {
            // ICE attributes with wrong sizes
            let at = *r.pick(&[0x0024u16, 0x0025, 0x8029, 0x802a, 0x000d, 0x0019]);
            let vl = *r.pick(&[0usize, 1, 3, 5, 7, 9]);
            stun_attr(&mut a, 0x0006, username.len() as u16, username);
            stun_attr(&mut a, at, vl as u16, &junk[..vl]);
            Mutant { bytes: stun_msg(0x0001, &tid, &a, None), what: format!("gen stun binding request attr {at:#06x} value_len={vl}") }
        }
        9 => {
            // header only, every class/method, wrong cookie, short
            let mut d = stun_msg(ty, &tid, &[], None);
            if r.chance(30) {
                d[4] ^= 0xff;
            }
            d.truncate(*r.pick(&[1usize, 4, 8, 19, 20, 20, 20]));
            Mutant { bytes: d, what: format!("gen stun header-only type={ty:#06x}") }
        }
        10 => {
            // very many attributes
            let n = 1 + r.below(300) as usize;
            for _ in 0..n {
                stun_attr(&mut a, *r.pick(&[0x8022u16, 0x0006, 0x0020, 0xffff]), 0, &[]);
            }
            Mutant { bytes: stun_msg(ty, &tid, &a, None), what: format!("gen stun {n} empty attributes") }
        }
        _ => {
            // USERNAME / REALM / NONCE / SOFTWARE with non-UTF-8 and over-long values
            let at = *r.pick(&[0x0006u16, 0x0014, 0x0015, 0x8022]);
            let vl = *r.pick(&[0usize, 1, 513, 763, 1000]);
            let mut val = vec![0xffu8; vl];
            r.fill(&mut val);
            stun_attr(&mut a, at, vl as u16, &val);
            Mutant { bytes: stun_msg(ty, &tid, &a, None), what: format!("gen stun text attr {at:#06x} len={vl} (not UTF-8)") }
        }
    }
}

fn rtp_hdr(b0: u8, b1: u8, c: &RtpCtx, seq_add: u16, ssrc: u32) -> Vec<u8> {
    let mut d = vec![b0, b1];
    d.extend_from_slice(&c.seq.wrapping_add(seq_add).to_be_bytes());
    d.extend_from_slice(&c.ts.wrapping_add(seq_add as u32 * 960).to_be_bytes());
    d.extend_from_slice(&ssrc.to_be_bytes());
    d
}

pub const N_RTP_VARIANTS: u64 = 14;
pub fn gen_rtp(v: u64, r: &mut Rng, c: &RtpCtx, k: u16) -> Mutant {
    let mut junk = vec![0u8; 96];
    r.fill(&mut junk);
    let video = r.chance(50) && c.video_ssrc != 0;
    let (ssrc, pt) = if video { (c.video_ssrc, c.video_pt) } else { (c.ssrc, c.pt) };
    let mk = if r.chance(30) { 0x80 } else { 0 };
    let sa = 200 + k;
    match v % N_RTP_VARIANTS {
        0 => {
            // version / padding / extension / CSRC-count combinations over a short body
            let b0 = r.below(256) as u8;
            let n = *r.pick(&[0usize, 1, 3, 4, 8, 15, 16, 60, 64]);
            let mut d = rtp_hdr(b0, pt | mk, c, sa, ssrc);
            d.extend_from_slice(&junk[..n]);
            Mutant { bytes: d, what: format!("gen rtp b0={b0:#04x} after_header={n}") }
        }
        1 | 2 => {
            // one-byte (1) / two-byte (2) extension blocks: ids 0/15, lengths running past the end
            let one = v % N_RTP_VARIANTS == 1;
            let words = *r.pick(&[0u16, 1, 2, 3]);
            let mut ext = Vec::new();
            let shape = r.below(7);
            if one {
                match shape {
                    0 => ext.extend_from_slice(&[0x1f, 1, 2, 3]),             // id 1 len 16, only 3 bytes present
                    1 => ext.extend_from_slice(&[0xf0, 9, 0x10, 7]),          // id 15 first
                    2 => ext.extend_from_slice(&[0x00, 0x00, 0x00, 0x23]),    // padding then id 2 len 4 at the last byte
                    3 => ext.extend_from_slice(&[0x10, 0xaa, 0x2f, 0xbb]),    // second element len 16 past the end
                    4 => ext.extend_from_slice(&[0x3f]),                      // unaligned, len 16
                    5 => ext.extend_from_slice(&[0x10, 1, 0x10, 2, 0x10, 3, 0x1e, 4]), // duplicate ids, last overruns
                    _ => ext.extend_from_slice(&junk[..(words as usize * 4).min(12)]),
                }
            } else {
                match shape {
                    0 => ext.extend_from_slice(&[1, 255, 1, 2]),
                    1 => ext.extend_from_slice(&[0, 0, 0, 7]),
                    2 => ext.extend_from_slice(&[15, 0, 1, 2]),
                    3 => ext.extend_from_slice(&[1, 0, 2, 0]),
                    4 => ext.extend_from_slice(&[3]),
                    _ => ext.extend_from_slice(&junk[..(words as usize * 4).min(12)]),
                }
            }
            let declared = if r.chance(60) { (ext.len() as u16).div_ceil(4) } else { words };
            while ext.len() < declared as usize * 4 {
                ext.push(if r.chance(50) { 0 } else { r.next() as u8 });
            }
            let mut d = rtp_hdr(0x90, pt | mk, c, sa, ssrc);
            d.extend_from_slice(&(if one { 0xBEDEu16 } else { *r.pick(&[0x1000u16, 0x100f]) }).to_be_bytes());
            d.extend_from_slice(&declared.to_be_bytes());
            d.extend_from_slice(&ext[..(declared as usize * 4).min(ext.len())]);
            d.extend_from_slice(&junk[..r.below(20) as usize]);
            Mutant { bytes: d, what: format!("gen rtp {}-byte ext shape={shape} words={declared}", if one { "one" } else { "two" }) }
        }
        3 => {
            // extension length field beyond the packet
            let mut d = rtp_hdr(0x90, pt, c, sa, ssrc);
            d.extend_from_slice(&0xBEDEu16.to_be_bytes());
            let w = *r.pick(&[1u16, 2, 0x3fff, 0xffff]);
            d.extend_from_slice(&w.to_be_bytes());
            d.extend_from_slice(&junk[..r.below(5) as usize]);
            Mutant { bytes: d, what: format!("gen rtp ext words={w} beyond packet") }
        }
        4 => {
            // padding count > payload, == payload, 0
            let n = r.below(6) as usize;
            let mut d = rtp_hdr(0xa0, pt | mk, c, sa, ssrc);
            d.extend_from_slice(&junk[..n]);
            let pad = *r.pick(&[0u8, 1, n as u8, n as u8 + 1, n as u8 + 12, 13, 255]);
            d.push(pad);
            Mutant { bytes: d, what: format!("gen rtp padding={pad} payload={n}") }
        }
        5 => {
            // CSRC count vs. length
            let cc = r.below(16) as u8;
            let have = r.below(cc as u64 * 4 + 2) as usize;
            let mut d = rtp_hdr(0x80 | cc, pt, c, sa, ssrc);
            d.extend_from_slice(&junk[..have.min(64)]);
            Mutant { bytes: d, what: format!("gen rtp csrc_count={cc} bytes_after_header={have}") }
        }
        6 => {
            // RTX-looking: payload shorter than the 2-byte OSN (sent on every payload type around the negotiated ones)
            let n = r.below(3) as usize;
            let p = *r.pick(&[pt, pt.wrapping_add(1) & 0x7f, 97, 98, 99, 100, 101]);
            let mut d = rtp_hdr(0x80, p | mk, c, sa, if r.chance(50) { ssrc } else { ssrc.wrapping_add(1) });
            d.extend_from_slice(&junk[..n]);
            Mutant { bytes: d, what: format!("gen rtp rtx-like pt={p} payload={n}") }
        }
        7 => {
            // H.264 STAP-A with zero-length / overlong NAL sizes
            let mut d = rtp_hdr(0x80, c.video_pt.max(1) | mk, c, sa, if c.video_ssrc != 0 { c.video_ssrc } else { ssrc });
            d.push(24);
            match r.below(6) {
                0 => d.extend_from_slice(&[0, 0, 0, 0, 0, 0]),
                1 => d.extend_from_slice(&[0xff, 0xff, 1, 2]),
                2 => d.extend_from_slice(&[0, 2, 0x65, 1, 0, 9, 1]),
                3 => d.extend_from_slice(&[0]),
                4 => d.extend_from_slice(&[0, 1]),
                _ => {
                    for _ in 0..200 {
                        d.extend_from_slice(&[0, 0]);
                    }
                    d.push(0);
                }
            }
            Mutant { bytes: d, what: "gen rtp h264 stap-a".into() }
        }
        8 => {
            // H.264 FU-A: header only, start without data, end without start, start+start
            let mut d = rtp_hdr(0x80, c.video_pt.max(1) | mk, c, sa, if c.video_ssrc != 0 { c.video_ssrc } else { ssrc });
            d.push(28 | 0x60);
            match r.below(5) {
                0 => {}
                1 => d.push(0x85),
                2 => d.push(0x45),
                3 => d.extend_from_slice(&[0xc5, 1, 2, 3]),
                _ => d.extend_from_slice(&[0x05]),
            }
            Mutant { bytes: d, what: "gen rtp h264 fu-a".into() }
        }
        9 => {
            // VP8 payload descriptor with extension bits set and nothing behind them
            let mut d = rtp_hdr(0x80, c.video_pt.max(1) | mk, c, sa, if c.video_ssrc != 0 { c.video_ssrc } else { ssrc });
            let n = r.below(4) as usize;
            d.extend_from_slice(&[0xff, 0xff, 0xff, 0xff][..n]);
            Mutant { bytes: d, what: format!("gen rtp vp8 descriptor bytes={n}") }
        }
        10 => {
            // empty payload, marker, sequence jumps
            let d = rtp_hdr(0x80, pt | 0x80, c, *r.pick(&[0u16, 1, 32768, 65535]), ssrc);
            Mutant { bytes: d, what: "gen rtp empty payload".into() }
        }
        11 => {
            // shorter than a header
            let d = rtp_hdr(0x80, pt, c, sa, ssrc);
            let n = r.below(12) as usize;
            Mutant { bytes: d[..n.max(1)].to_vec(), what: format!("gen rtp runt len={}", n.max(1)) }
        }
        12 => {
            // extension + padding + csrc all together, consistent, with 1-byte ext elements of len 16 at the very end
            let mut d = rtp_hdr(0xb2, pt, c, sa, ssrc);
            d.extend_from_slice(&junk[..8]);
            d.extend_from_slice(&0xBEDEu16.to_be_bytes());
            d.extend_from_slice(&1u16.to_be_bytes());
            d.extend_from_slice(&[0x10, 7, 0x00, *r.pick(&[0x2fu8, 0x30, 0xef, 0xf1])]);
            d.extend_from_slice(&junk[..4]);
            d.push(1);
            Mutant { bytes: d, what: "gen rtp ext element header at the last extension byte".into() }
        }
        _ => {
            // unknown SSRC / PT (provisional listener path)
            let mut d = rtp_hdr(0x80, r.below(128) as u8, c, sa, r.next() as u32);
            d.extend_from_slice(&junk[..r.below(40) as usize]);
            Mutant { bytes: d, what: "gen rtp unknown ssrc/pt".into() }
        }
    }
}

fn rtcp_pkt(out: &mut Vec<u8>, b0: u8, pt: u8, len_words: Option<u16>, body: &[u8]) {
    let mut b = body.to_vec();
    while b.len() % 4 != 0 {
        b.push(0);
    }
    out.push(b0);
    out.push(pt);
    out.extend_from_slice(&len_words.unwrap_or((b.len() / 4) as u16).to_be_bytes());
    out.extend_from_slice(&b);
}

pub const N_RTCP_VARIANTS: u64 = 12;
pub fn gen_rtcp(v: u64, r: &mut Rng, c: &RtpCtx) -> Mutant {
    let mut junk = vec![0u8; 128];
    r.fill(&mut junk);
    let ss = c.ssrc.to_be_bytes();
    let mut d = Vec::new();
    let what;
    match v % N_RTCP_VARIANTS {
        0 => {
            // compound whose second length field runs past the end
            rtcp_pkt(&mut d, 0x80, 201, None, &ss);
            let l = *r.pick(&[1u16, 2, 100, 0xffff]);
            rtcp_pkt(&mut d, 0x81, 202, Some(l), &ss);
            what = format!("gen rtcp compound second length_words={l}");
        }
        1 => {
            // SR / RR: report count vs. length
            let pt = *r.pick(&[200u8, 201]);
            let rc = r.below(32) as u8;
            let have = *r.pick(&[0usize, 4, 8, 20, 24, 28, 48, 52]);
            rtcp_pkt(&mut d, 0x80 | rc, pt, None, &junk[..have]);
            what = format!("gen rtcp pt={pt} report_count={rc} body={have}");
        }
        2 => {
            // SDES items unterminated / item length past the end / chunk count too large
            let sc = r.below(32) as u8;
            let mut b = ss.to_vec();
            match r.below(5) {
                0 => b.extend_from_slice(&[1, 200, b'a', b'b']),
                1 => b.extend_from_slice(&[1, 2, b'a', b'b', 1]),
                2 => b.extend_from_slice(&[1, 0, 2, 0, 3, 0, 4]),
                3 => b.extend_from_slice(&[1]),
                _ => b.extend_from_slice(&[8, 255]),
            }
            rtcp_pkt(&mut d, 0x80 | sc, 202, None, &b);
            what = format!("gen rtcp sdes chunks={sc}");
        }
        3 => {
            // BYE: source count vs. length, reason length past the end
            let sc = r.below(32) as u8;
            let mut b = Vec::new();
            for _ in 0..r.below(4) {
                b.extend_from_slice(&ss);
            }
            b.push(*r.pick(&[0u8, 1, 3, 200, 255]));
            b.extend_from_slice(&junk[..r.below(4) as usize]);
            rtcp_pkt(&mut d, 0x80 | sc, 203, None, &b);
            what = format!("gen rtcp bye sources={sc}");
        }
        4 => {
            // generic NACK: FCI count 0, odd sizes
            let have = *r.pick(&[0usize, 4, 7, 8, 9, 10, 12, 14]);
            rtcp_pkt(&mut d, 0x81, 205, None, &junk[..have]);
            what = format!("gen rtcp nack body={have}");
        }
        5 => {
            // PLI / FIR with short bodies
            let fmt = *r.pick(&[1u8, 4]);
            let have = *r.pick(&[0usize, 4, 7, 8, 12, 15, 16]);
            rtcp_pkt(&mut d, 0x80 | fmt, 206, None, &junk[..have]);
            what = format!("gen rtcp psfb fmt={fmt} body={have}");
        }
        6 => {
            // REMB: num_ssrc vs. length, exponent 63
            let n = *r.pick(&[0u8, 1, 2, 255]);
            let mut b = ss.to_vec();
            b.extend_from_slice(&[0, 0, 0, 0]);
            b.extend_from_slice(b"REMB");
            b.push(n);
            b.extend_from_slice(&[0xfc | 3, 0xff, 0xff]);
            b.extend_from_slice(&junk[..*r.pick(&[0usize, 3, 4, 8])]);
            rtcp_pkt(&mut d, 0x8f, 206, None, &b[..*r.pick(&[8usize, 12, 13, 16, b.len()]).min(&b.len())]);
            what = format!("gen rtcp remb num_ssrc={n}");
        }
        7 => {
            // transport-wide CC: status counts vs. length
            let mut b = ss.to_vec();
            b.extend_from_slice(&ss);
            b.extend_from_slice(&[0, 1]);
            b.extend_from_slice(&(*r.pick(&[0u16, 1, 7, 0x7fff, 0xffff])).to_be_bytes());
            b.extend_from_slice(&junk[..*r.pick(&[0usize, 1, 4, 6])]);
            rtcp_pkt(&mut d, 0x8f, 205, None, &b);
            what = "gen rtcp twcc".into();
        }
        8 => {
            // padding bit with count 0 / beyond body
            let mut b = junk[..8].to_vec();
            let n = b.len();
            b[n - 1] = *r.pick(&[0u8, 1, 8, 9, 12, 255]);
            rtcp_pkt(&mut d, 0xa0, *r.pick(&[200u8, 201, 202, 203, 205, 206]), None, &b);
            what = "gen rtcp padding".into();
        }
        9 => {
            // header only / version 0,1,3 / truncated header
            let b0 = *r.pick(&[0x80u8, 0x00, 0x40, 0xc0]) | r.below(32) as u8;
            rtcp_pkt(&mut d, b0, *r.pick(&[200u8, 201, 202, 203, 204, 205, 206, 207]), None, &[]);
            d.truncate(*r.pick(&[2usize, 3, 4]));
            d[0] |= 0x80;
            what = "gen rtcp header only".into();
        }
        10 => {
            // APP / XR / unknown packet types with bodies
            rtcp_pkt(&mut d, 0x80, *r.pick(&[204u8, 207, 208, 195, 211]), None, &junk[..r.below(24) as usize]);
            what = "gen rtcp app/xr/unknown".into();
        }
        _ => {
            // very many tiny packets in one compound
            for _ in 0..(1 + r.below(300)) {
                rtcp_pkt(&mut d, 0x80, *r.pick(&[201u8, 203, 202]), None, &[]);
            }
            what = "gen rtcp many empty packets".into();
        }
    }
    Mutant { bytes: d, what }
}

// ---------------------------------------------------------------------------------------------
// SCTP: structure-aware packets of a malicious (key-holding) peer
// ---------------------------------------------------------------------------------------------
#[derive(Clone, Copy, Default, Debug)]
pub struct SctpCtx {
    pub src_port: u16,
    pub dst_port: u16,
    pub vtag: u32,
    /// a TSN the genuine sender has used (duplicates of it are harmless)
    pub tsn: u32,
    /// cumulative TSN the genuine sender last acknowledged
    pub cum_ack: u32,
    /// the sender's TSN space is known (INIT / INIT-ACK or a DATA chunk was seen)
    pub tsn_known: bool,
}

pub fn sctp_finish(mut p: Vec<u8>) -> Vec<u8> {
    if p.len() >= 12 {
        p[8..12].fill(0);
        let c = crc32c(&p);
        p[8..12].copy_from_slice(&c.to_le_bytes());
    }
    p
}
fn sctp_head(c: &SctpCtx) -> Vec<u8> {
    let mut p = Vec::new();
    p.extend_from_slice(&c.src_port.to_be_bytes());
    p.extend_from_slice(&c.dst_port.to_be_bytes());
    p.extend_from_slice(&c.vtag.to_be_bytes());
    p.extend_from_slice(&[0; 4]);
    p
}
fn chunk(p: &mut Vec<u8>, ty: u8, flags: u8, len_field: Option<u16>, val: &[u8]) {
    p.push(ty);
    p.push(flags);
    p.extend_from_slice(&len_field.unwrap_or((4 + val.len()) as u16).to_be_bytes());
    p.extend_from_slice(val);
    while p.len() % 4 != 0 {
        p.push(0);
    }
}

pub const N_SCTP_VARIANTS: u64 = 16;
/// Returns the packet (CRC fixed) and whether a correct implementation may legitimately end or
/// desynchronise the association because of it (exempt from C07.alive's exchange check).
pub fn gen_sctp(v: u64, r: &mut Rng, c: &SctpCtx) -> (Mutant, bool) {
    let mut junk = vec![0u8; 256];
    r.fill(&mut junk);
    let mut p = sctp_head(c);
    let mut ending = false;
    let what;
    match v % N_SCTP_VARIANTS {
        0 => {
            // SACK: huge gap / dup counts with little data, overlapping / descending gaps (cum ack = what was acked before)
            let ngap = *r.pick(&[0u16, 1, 2, 100, 0x3fff, 0xffff]);
            let ndup = *r.pick(&[0u16, 1, 100, 0xffff]);
            let mut b = c.cum_ack.to_be_bytes().to_vec();
            b.extend_from_slice(&(128u32 * 1024).to_be_bytes());
            b.extend_from_slice(&ngap.to_be_bytes());
            b.extend_from_slice(&ndup.to_be_bytes());
            let blocks = r.below(6);
            for i in 0..blocks {
                let (s, e): (u16, u16) = match r.below(5) {
                    0 => (5, 2),            // descending
                    1 => (2, 0xffff),       // covers everything
                    2 => (0, 0),            // zero offset
                    3 => (3 + i as u16, 4), // overlapping
                    _ => (0xffff, 0xffff),
                };
                b.extend_from_slice(&s.to_be_bytes());
                b.extend_from_slice(&e.to_be_bytes());
            }
            chunk(&mut p, 3, 0, None, &b);
            ending = blocks > 0; // gap reports about TSNs never sent may legitimately be treated as a protocol violation
            what = format!("sctp SACK num_gaps={ngap} num_dups={ndup} blocks_present={blocks}");
        }
        1 => {
            // SACK shorter than its fixed part
            let n = *r.pick(&[0usize, 3, 4, 8, 11]);
            let mut b = c.cum_ack.to_be_bytes().to_vec();
            b.extend_from_slice(&junk[..8]);
            chunk(&mut p, 3, 0, None, &b[..n]);
            what = format!("sctp SACK body_len={n}");
        }
        2 => {
            // DATA re-using an already delivered TSN (harmless duplicate) with boundary stream id / SSN / PPID / flags, short bodies
            let sid = *r.pick(&[0u16, 1, 100, 1023, 1024, 65535]);
            let ssn = *r.pick(&[0u16, 1, 32768, 65535]);
            let ppid = *r.pick(&[0u32, 50, 51, 53, 56, 57, 0xffff_ffff]);
            let flags = r.below(16) as u8;
            let mut b = c.tsn.to_be_bytes().to_vec();
            b.extend_from_slice(&sid.to_be_bytes());
            b.extend_from_slice(&ssn.to_be_bytes());
            b.extend_from_slice(&ppid.to_be_bytes());
            b.extend_from_slice(&junk[..r.below(20) as usize]);
            let cut = *r.pick(&[0usize, 3, 4, 11, 12, b.len()]).min(&b.len());
            chunk(&mut p, 0, flags, None, &b[..cut]);
            ending = !c.tsn_known;
            what = format!("sctp DATA dup-tsn sid={sid} ssn={ssn} ppid={ppid} flags={flags:#x} body={cut}");
        }
        3 => {
            // DCEP (PPID 50) on a NEW TSN far from the genuine window? no: on the duplicate TSN the payload is never looked
            // at, so DCEP mutants use a fresh TSN just above the acknowledged point -> may desynchronise: exempt
            let mt = *r.pick(&[3u8, 2, 0, 1, 255]);
            let ct = *r.pick(&[0u8, 1, 2, 0x80, 0x81, 0x82, 0x7f, 0xff]);
            let ll = *r.pick(&[0u16, 1, 4, 100, 0xffff]);
            let pl = *r.pick(&[0u16, 1, 4, 0xffff]);
            let mut m = vec![mt, ct, 0, 0];
            m.extend_from_slice(&(*r.pick(&[0u32, 1, 0xffff_ffff])).to_be_bytes());
            m.extend_from_slice(&ll.to_be_bytes());
            m.extend_from_slice(&pl.to_be_bytes());
            m.extend_from_slice(&junk[..r.below(12) as usize]);
            let cut = *r.pick(&[0usize, 1, 2, 11, 12, m.len()]).min(&m.len());
            let mut b = c.tsn.wrapping_add(1 + r.below(3) as u32).to_be_bytes().to_vec();
            b.extend_from_slice(&(*r.pick(&[0u16, 2, 3, 777, 65535])).to_be_bytes());
            b.extend_from_slice(&0u16.to_be_bytes());
            b.extend_from_slice(&50u32.to_be_bytes());
            b.extend_from_slice(&m[..cut]);
            chunk(&mut p, 0, 3, None, &b);
            ending = true;
            what = format!("sctp DATA/DCEP msg_type={mt} channel_type={ct:#x} label_len={ll} protocol_len={pl} dcep_bytes={cut}");
        }
        4 => {
            // FORWARD-TSN: stream list sizes, cum tsn behind / equal (harmless) or ahead (exempt)
            let ahead = r.chance(40);
            // (the new cumulative TSN lives in the sender's own TSN space: 'behind' = a TSN it used a while ago)
            let t = if ahead { c.tsn.wrapping_add(*r.pick(&[1u32, 1000, 0x7fff_ffff])) } else { c.tsn.wrapping_sub(3 + r.below(3) as u32) };
            let mut b = t.to_be_bytes().to_vec();
            let n = r.below(300) as usize;
            for i in 0..n {
                b.extend_from_slice(&((i as u16).wrapping_mul(257)).to_be_bytes());
                b.extend_from_slice(&(*r.pick(&[0u16, 65535])).to_be_bytes());
            }
            b.extend_from_slice(&junk[..r.below(4) as usize]);
            chunk(&mut p, 192, 0, None, &b[..b.len().min(1180)]);
            ending = ahead || !c.tsn_known;
            what = format!("sctp FORWARD-TSN ahead={ahead} streams={n}");
        }
        5 => {
            // RECONFIG parameters: short, unknown, huge stream lists, response to nothing
            let pt = *r.pick(&[13u16, 14, 15, 16, 17, 18, 0, 0xffff]);
            let pl = *r.pick(&[0u16, 3, 4, 8, 12, 16, 0xffff]);
            let mut b = pt.to_be_bytes().to_vec();
            b.extend_from_slice(&pl.to_be_bytes());
            b.extend_from_slice(&junk[..*r.pick(&[0usize, 4, 8, 12, 14, 40])]);
            chunk(&mut p, 130, 0, None, &b);
            ending = true;
            what = format!("sctp RECONFIG param_type={pt} param_len={pl}");
        }
        6 => {
            // HEARTBEAT / HEARTBEAT-ACK info lengths
            let ty = *r.pick(&[4u8, 5]);
            let il = *r.pick(&[0u16, 1, 3, 4, 5, 0xffff]);
            let mut b = 1u16.to_be_bytes().to_vec();
            b.extend_from_slice(&il.to_be_bytes());
            b.extend_from_slice(&junk[..*r.pick(&[0usize, 1, 8, 200])]);
            let cut = *r.pick(&[0usize, 2, 4, b.len()]).min(&b.len());
            chunk(&mut p, ty, 0, None, &b[..cut]);
            what = format!("sctp HEARTBEAT type={ty} info_len={il} body={cut}");
        }
        7 => {
            // zero-length, too-short and overlong chunk length fields; length not a multiple of 4
            let ty = *r.pick(&[0u8, 3, 4, 5, 11, 14, 192, 130, 63, 64, 128, 193, 255]);
            let lf = *r.pick(&[0u16, 1, 3, 4, 5, 6, 7, 0x7fff, 0xffff]);
            chunk(&mut p, ty, r.below(256) as u8, Some(lf), &junk[..r.below(12) as usize]);
            what = format!("sctp chunk type={ty} length_field={lf}");
        }
        8 => {
            // unknown chunk types with every action-bit combination, trailing garbage after the last chunk
            let ty = *r.pick(&[0x3fu8, 0x7f, 0xbf, 0xff, 15, 0x40, 0x81, 0xc1]);
            chunk(&mut p, ty, 0, None, &junk[..r.below(16) as usize]);
            p.extend_from_slice(&junk[..r.below(7) as usize]);
            what = format!("sctp unknown chunk type={ty:#x} + trailing bytes");
        }
        9 => {
            // INIT in an established association: parameter walkers (type/length), zero streams, zero tag
            let mut b = (*r.pick(&[0u32, 1, 0xffff_ffff])).to_be_bytes().to_vec();
            b.extend_from_slice(&(*r.pick(&[0u32, 1499, 0xffff_ffff])).to_be_bytes());
            b.extend_from_slice(&(*r.pick(&[0u16, 1, 65535])).to_be_bytes());
            b.extend_from_slice(&(*r.pick(&[0u16, 1, 65535])).to_be_bytes());
            b.extend_from_slice(&junk[..4]);
            for _ in 0..r.below(5) {
                let pt = *r.pick(&[5u16, 6, 7, 9, 11, 12, 0x8000, 0x8008, 0xc000, 0x0000, 0xffff, 0x4000]);
                let pl = *r.pick(&[0u16, 1, 3, 4, 5, 8, 0xffff]);
                b.extend_from_slice(&pt.to_be_bytes());
                b.extend_from_slice(&pl.to_be_bytes());
                b.extend_from_slice(&junk[..*r.pick(&[0usize, 1, 4, 8])]);
            }
            let cut = *r.pick(&[0usize, 4, 15, 16, 17, b.len()]).min(&b.len());
            chunk(&mut p, *r.pick(&[1u8, 2]), 0, None, &b[..cut]);
            p[4..8].copy_from_slice(&(*r.pick(&[0u32, c.vtag])).to_be_bytes());
            ending = true;
            what = format!("sctp INIT/INIT-ACK body={cut}");
        }
        10 => {
            // COOKIE-ECHO with short / garbage cookies
            chunk(&mut p, 10, 0, None, &junk[..*r.pick(&[0usize, 1, 4, 8, 31, 32, 33, 200])]);
            ending = true;
            what = "sctp COOKIE-ECHO garbage cookie".into();
        }
        11 => {
            // ERROR causes with bad lengths (stale cookie, unrecognised chunk...) - may legitimately be acted upon
            let cc = *r.pick(&[1u16, 3, 6, 8, 9, 12, 13, 0xffff]);
            let cl = *r.pick(&[0u16, 3, 4, 8, 0xffff]);
            let mut b = cc.to_be_bytes().to_vec();
            b.extend_from_slice(&cl.to_be_bytes());
            b.extend_from_slice(&junk[..r.below(8) as usize]);
            chunk(&mut p, 9, 0, None, &b[..*r.pick(&[0usize, 2, 4, b.len()]).min(&b.len())]);
            ending = true;
            what = format!("sctp ERROR cause={cc} cause_len={cl}");
        }
        12 => {
            // ABORT / SHUTDOWN family, well-formed and malformed: a peer may end its own association
            let ty = *r.pick(&[6u8, 7, 8, 14]);
            chunk(&mut p, ty, r.below(2) as u8, None, &junk[..*r.pick(&[0usize, 3, 4, 8])]);
            ending = true;
            what = format!("sctp terminating chunk type={ty}");
        }
        13 => {
            // many chunks in one packet (bundling limits): 290 HEARTBEATs or SACKs
            let ty = *r.pick(&[4u8, 3, 11]);
            let mut b = c.cum_ack.to_be_bytes().to_vec();
            b.extend_from_slice(&(128u32 * 1024).to_be_bytes());
            b.extend_from_slice(&[0, 0, 0, 0]);
            let hb = [0u8, 1, 0, 4];
            let nmax = *r.pick(&[70u64, 140]);
            for _ in 0..(2 + r.below(nmax)) {
                match ty {
                    3 => chunk(&mut p, 3, 0, None, &b),
                    4 => chunk(&mut p, 4, 0, None, &hb),
                    _ => chunk(&mut p, 11, 0, None, &[]),
                }
            }
            what = format!("sctp many bundled chunks type={ty}");
        }
        14 => {
            // DATA fragments (B/E bits) on the duplicate TSN: begin without end, end without begin, unordered
            for _ in 0..(1 + r.below(4)) {
                let mut b = c.tsn.to_be_bytes().to_vec();
                b.extend_from_slice(&[0, 0, 0, 0]);
                b.extend_from_slice(&(*r.pick(&[51u32, 53, 0])).to_be_bytes());
                b.extend_from_slice(&junk[..r.below(8) as usize]);
                chunk(&mut p, 0, *r.pick(&[0u8, 1, 2, 4, 5, 6, 7]), None, &b);
            }
            ending = !c.tsn_known;
            what = "sctp DATA fragment flag combinations (dup tsn)".into();
        }
        _ => {
            // packet shorter than the common header / header only / wrong ports
            p.extend_from_slice(&junk[..r.below(4) as usize]);
            if r.chance(30) {
                p[0..4].copy_from_slice(&junk[..4]);
            }
            p.truncate(*r.pick(&[0usize, 1, 11, 12, 13, 15]).min(&p.len()));
            what = format!("sctp header-only / runt len={}", p.len());
        }
    }
    (Mutant { bytes: sctp_finish(p), what }, ending)
}

/// Does this (mutated) SCTP packet contain something a correct peer may legitimately answer by
/// ending, restarting or desynchronising the association? (own decoder; compared with the genuine
/// packet it was derived from)
pub fn sctp_may_end(genuine: &[u8], mutant: &[u8]) -> bool {
    let (Some(g), Some(m)) = (crate::monitor::parse_sctp(genuine), crate::monitor::parse_sctp(mutant)) else { return false };
    let tsns = |p: &crate::monitor::SctpPacket| -> Vec<Vec<u8>> { p.chunks.iter().filter(|c| c.ty == 0).map(|c| c.value.iter().take(12).copied().collect()).collect() };
    let sacks = |p: &crate::monitor::SctpPacket| -> Vec<Vec<u8>> { p.chunks.iter().filter(|c| c.ty == 3).map(|c| c.value.clone()).collect() };
    for c in m.chunks.iter() {
        match c.ty {
            // terminating / restarting / re-configuring / skipping chunks
            1 | 2 | 6 | 7 | 8 | 9 | 10 | 14 | 130 | 192 => {
                if !g.chunks.iter().any(|x| x.ty == c.ty && x.value == c.value) {
                    return true;
                }
            }
            _ => {}
        }
    }
    // DATA whose TSN / stream / SSN / PPID differs from the genuine chunk claims sequence space of its own
    let gt = tsns(&g);
    if tsns(&m).iter().any(|t| !gt.contains(t)) {
        return true;
    }
    // a SACK that acknowledges something else than the genuine one may make the sender discard data
    let gs = sacks(&g);
    if sacks(&m).iter().any(|s| !gs.contains(s)) {
        return true;
    }
    // the length/type edits may also have turned other chunks into one of the above: covered by the loop
    false
}
