// ---- op execution and the scenario entry point (included into srtp.rs) ----------------------

fn bucket(n: usize) -> u32 {
    if n == 0 { 0 } else { usize::BITS - n.leading_zeros() }
}

impl<'a> World<'a> {
    fn ssrc_list(&self, mask: i64) -> Vec<usize> {
        let v: Vec<usize> = (0..self.ssrcs.len()).filter(|i| mask & (1 << i) != 0).collect();
        if v.is_empty() { vec![0] } else { v }
    }

    fn deliver_all(&mut self, wires: Vec<Wire>, classes: &mut BTreeSet<&'static str>) -> u64 {
        let mut h = FNV0;
        for w in wires.iter() {
            let before = (self.stats.get("rust.accept").copied().unwrap_or(0), self.genuine_accepted);
            if self.c05 {
                self.deliver_c05(w, classes);
            } else {
                self.deliver_c04(w, classes);
            }
            let after = (self.stats.get("rust.accept").copied().unwrap_or(0), self.genuine_accepted);
            h = fnv(h, &[w.si as u8, w.rtcp as u8, (after != before) as u8]);
            h = fnv(h, &w.index.to_le_bytes());
        }
        h
    }

    /// `stream`: a = [ssrc_mask, count, drop_pm, dup_pm, reord_pm, window, burst_at, burst_len, size_mode, hold_pm, skip_pm]
    /// `rtcp`:   same layout (burst/skip usually 0)
    fn op_traffic(&mut self, op: &Op, rtcp: bool) -> (String, String) {
        let list = self.ssrc_list(op.arg(0));
        let count = op.arg(1).clamp(0, MAX_OP_PACKETS) as usize;
        let (shape, lseed) = seeds(&op.s);
        let p = |i: usize| op.arg(i).clamp(0, 1000) as u64;
        let (drop_pm, dup_pm, reord_pm, hold_pm, skip_pm) = (p(2), p(3), p(4), p(9), p(10));
        let window = op.arg(5);
        let size_mode = op.arg(8);
        let mut sr = Rng::new(mix(lseed, 0x7365_6e64));
        let wraps_before: u64 = self.send.iter().map(|s| s.next_index.unwrap_or(0) >> 16).sum();
        let mut items = Vec::with_capacity(count);
        for k in 0..count {
            let si = if list.len() == 1 { list[0] } else if op.arg(0) & 0x100 != 0 { list[k % list.len()] } else { list[sr.below(list.len() as u64) as usize] };
            if skip_pm > 0 && sr.below(1000) < skip_pm && !rtcp && self.send[si].next_index.is_some() {
                // the sender never emits this sequence number (e.g. a forwarding relay with upstream loss);
                // never before the first packet of the stream: the sender's ROC 0 is defined by its first packet
                let idx = self.send[si].next_index.unwrap();
                self.send[si].next_index = Some(idx + 1);
                self.stat("sender.skipped_seq", 1);
                continue;
            }
            let w = if rtcp { self.send_rtcp(si, shape, size_mode) } else { self.send_rtp(si, shape, size_mode) };
            if let Some(w) = w {
                items.push(w);
            }
        }
        let wraps_after: u64 = self.send.iter().map(|s| s.next_index.unwrap_or(0) >> 16).sum();
        let sent = items.len();
        let mut fired = BTreeSet::new();
        let wires = self.link(items, lseed, drop_pm, dup_pm, reord_pm, window, hold_pm, (op.arg(6), op.arg(7)), &mut fired);
        let mut classes = BTreeSet::new();
        let ndel = wires.len();
        let digest = self.deliver_all(wires, &mut classes);
        self.stat(if rtcp { "sent.rtcp" } else { "sent.rtp" }, sent as u64);
        self.stat("probe.seq_wraps_crossed", wraps_after - wraps_before);
        let sem = format!(
            "{} ssrcs={:x} n~2^{} wraps+{} faults={} outcome={}",
            if rtcp { "rtcp" } else { "stream" },
            op.arg(0) & 0xf,
            bucket(sent),
            wraps_after - wraps_before,
            fired.iter().cloned().collect::<Vec<_>>().join("+"),
            classes.iter().cloned().collect::<Vec<_>>().join("+")
        );
        (sem, format!("sent={sent} delivered={ndel} held={} digest={digest:016x}", self.held.len()))
    }
}

pub async fn run(ctx: &Ctx) {
    let mut w = match World::new(ctx) {
        Ok(w) => w,
        Err(e) => {
            ctx.violate("HARNESS.setup", e);
            return;
        }
    };
    ctx.ev(&format!("setup {} profile={} ssrcs={}", ctx.plan.prop, w.prof.name(), w.ssrcs.len()), &format!("ssrcs={:x?} seq0={:?}", w.ssrcs, w.seq0));
    let ops = ctx.plan.ops.clone();
    for op in ops.iter() {
        w.now_ms = ctx.now_ms();
        let (sem, detail) = match op.kind.as_str() {
            "stream" => w.op_traffic(op, false),
            "rtcp" => w.op_traffic(op, true),
            "advance" => {
                let ms = op.arg(0).clamp(0, 3_600_000) as u64;
                tokio::time::sleep(Duration::from_millis(ms)).await;
                (format!("advance {}", if ms > 60_000 { ">60s" } else { "<=60s" }), format!("{ms} ms"))
            }
            "flips" if w.c05 => {
                let d = w.op_flips(op);
                (format!("flips {} mode={}", if op.arg(0) != 0 { "rtcp" } else { "rtp" }, op.arg(2).rem_euclid(3)), d)
            }
            "forge" if w.c05 => {
                let k = w.op_forge(op);
                (format!("forge {k} n~2^{}", bucket(op.arg(2).max(0) as usize)), format!("count={} arg={}", op.arg(2), op.arg(3)))
            }
            other => (format!("ignored op {other}"), String::new()),
        };
        ctx.ev(&sem, &detail);
    }
    // packets still held by the link arrive very late
    if !w.held.is_empty() {
        w.now_ms = ctx.now_ms();
        let mut fired = BTreeSet::new();
        let wires = w.link(Vec::new(), 1, 0, 0, 0, 1, 0, (0, 0), &mut fired);
        let mut classes = BTreeSet::new();
        let n = wires.len();
        let d = w.deliver_all(wires, &mut classes);
        ctx.ev(&format!("late-flush outcome={}", classes.iter().cloned().collect::<Vec<_>>().join("+")), &format!("n={n} digest={d:016x}"));
    }
    // C05 probe: is the SRTCP index of a receive context moved by rejected packets? (observable only
    // by using the context to protect; not part of the frozen oracle, reported as a probe)
    if let (Some(a), Some(b)) = (w.cx_real.as_ref(), w.cx_shadow.as_ref()) {
        let plain = gen_rtcp(w.ssrcs[0], 1, 7, 0);
        let (mut x, mut y) = (plain.clone(), plain);
        let (mut a, mut b) = (a.clone(), b.clone());
        let _ = a.protect_rtcp(&mut x);
        let _ = b.protect_rtcp(&mut y);
        if x != y {
            let k = format!("probe.srtcp_index_moved_by_rejected_packet.{}", w.prof.name());
            w.stat(&k, 1);
            ctx.ev(&format!("probe srtcp-index-disturbed {}", w.prof.name()), &format!("next SRTCP word real={} shadow={}", hex(&x[x.len().saturating_sub(20)..]), hex(&y[y.len().saturating_sub(20)..])));
        }
    }
    let nontrivial = if w.c05 { w.forged_total > 0 && w.genuine_after_forgery > 0 && w.genuine_accepted > 0 } else { w.link_faults > 0 && w.delivered > 0 };
    w.stat("forged.total", w.forged_total);
    w.stat("genuine.delivered", w.delivered);
    if w.c05 {
        w.stat("genuine.delivered_after_forgery", w.genuine_after_forgery);
        w.stat("genuine.accepted_by_both", w.genuine_accepted);
        let k = w.offered_ssrcs.len() as u64;
        if k > 32 {
            w.stat("probe.more_than_32_ssrcs_offered", 1);
        }
    }
    let stats = std::mem::take(&mut w.stats);
    {
        let mut sh = ctx.sh.lock().unwrap();
        for (k, v) in stats {
            sh.stat(&k, v);
        }
        if nontrivial {
            sh.stat("nontrivial", 1);
        }
        let now = sh.now_ms() as u64;
        sh.stat("virt_ms", now);
    }
}

// ---------------------------------------------------------------------------
// plan generation
// ---------------------------------------------------------------------------
use super::Tier;

fn pm(r: &mut Rng, on: bool) -> i64 {
    if !on { 0 } else { *r.pick(&[1i64, 2, 5, 20, 50, 100, 300]) }
}

fn start_seq(r: &mut Rng) -> i64 {
    match r.below(10) {
        0..=4 => 65535 - r.below(300) as i64,
        5 => *r.pick(&[0i64, 1, 32767, 32768, 32769, 65535, 65534]),
        6 => 32768 + r.below(300) as i64 - 150,
        _ => r.below(65536) as i64,
    }
}

struct LinkSwarm {
    drop: bool,
    dup: bool,
    reord: bool,
    hold: bool,
    burst: bool,
    skip: bool,
    big_window: bool,
}

fn traffic_op(r: &mut Rng, kind: &str, mask: i64, count: i64, sw: &LinkSwarm, size_mode: i64) -> Op {
    let window = if sw.big_window { *r.pick(&[1000i64, 20000, 32767, 32768, 32769, 40000]) } else { *r.pick(&[1i64, 1, 2, 3, 5, 8, 16, 64, 300]) };
    let (burst_at, burst_len) = if sw.burst && r.chance(50) && count > 10 {
        let l = if count > 40000 && r.chance(60) { *r.pick(&[32767i64, 32768, 32769, 33000]) } else { r.range(2, (count as u64 / 2).max(2)) as i64 };
        (r.below((count - l).max(1) as u64) as i64, l)
    } else {
        (0, 0)
    };
    let a = vec![
        mask | if r.chance(30) { 0x100 } else { 0 },
        count,
        pm(r, sw.drop),
        pm(r, sw.dup),
        pm(r, sw.reord),
        window,
        burst_at,
        burst_len,
        size_mode,
        if sw.hold { *r.pick(&[1i64, 2, 10]) } else { 0 },
        if sw.skip { *r.pick(&[1i64, 10, 100]) } else { 0 },
    ];
    Op { at_ms: 0, kind: kind.into(), a, s: seed_str(r.next(), r.next()) }
}

fn common(prop: &str, r: &mut Rng) -> (Plan, i64) {
    let mut p = Plan { prop: prop.into(), scenario: "srtp_hist".into(), seed: r.next(), latency_us: [1000, 1000], ..Default::default() };
    p.sched = Sched { rng_seed: r.next(), defer_pct: 0 };
    let n = *r.pick(&[1i64, 1, 2, 2, 3, 4]);
    p.knobs.insert("profile".into(), r.below(4) as i64);
    p.knobs.insert("nssrc".into(), n);
    p.knobs.insert("key_seed".into(), (r.next() >> 2) as i64);
    if r.chance(6) {
        p.knobs.insert("key_mode".into(), r.range(1, 2) as i64);
    }
    for i in 0..n {
        p.knobs.insert(format!("seq0_{i}"), start_seq(r));
        if r.chance(10) {
            p.knobs.insert(format!("ssrc{i}"), *r.pick(&[0i64, 1, 0x7fff_ffff, 0x8000_0000, 0xffff_ffff]));
        }
    }
    (p, n)
}

pub fn generate(prop: &str, seed: u64, idx: u64, tier: Tier) -> Plan {
    let mut r = Rng::new(mix(mix(seed, idx), fnv(FNV0, prop.as_bytes())));
    let (mut p, n) = common(prop, &mut r);
    let all = (1i64 << n) - 1;
    let clean = r.chance(8);
    let sw = LinkSwarm {
        drop: !clean && r.chance(60),
        dup: !clean && r.chance(50),
        reord: !clean && r.chance(60),
        hold: !clean && r.chance(20),
        burst: !clean && r.chance(20),
        skip: !clean && r.chance(15),
        big_window: !clean && r.chance(12),
    };
    let mut t = 0u64;
    let push = |p: &mut Plan, mut op: Op, t: &mut u64| {
        op.at_ms = *t;
        if op.kind == "advance" {
            *t += op.arg(0) as u64;
        }
        p.ops.push(op);
    };
    if prop == "C04" {
        // history length class: total RTP packets of the run
        let class = r.below(100);
        let long_pct = if tier == Tier::Thorough { 30 } else { 14 };
        let total: i64 = if class < 45 {
            r.range(100, 2000) as i64
        } else if class < 100 - long_pct {
            r.range(2000, 30_000) as i64
        } else if class < 100 - long_pct / 3 {
            r.range(66_000, 80_000) as i64
        } else if class < 99 {
            r.range(131_500, 140_000) as i64
        } else {
            r.range(197_000, 200_000) as i64
        };
        let size_mode = if total > 20_000 { 0 } else { *r.pick(&[0i64, 1, 1, 2]) };
        let mut left = total;
        // long histories live on one SSRC so that its sequence space really wraps
        let focus = if total > 60_000 { 1i64 << r.below(n as u64) } else { 0 };
        while left > 0 {
            let c = if r.chance(60) { left.min(r.range(50, 35_000) as i64) } else { left.min(70_000) };
            let mask = if focus != 0 && r.chance(85) { focus } else if r.chance(50) { all } else { 1 + r.below(all as u64) as i64 };
            let sm = if r.chance(10) { 2 } else { size_mode };
            push(&mut p, traffic_op(&mut r, "stream", mask, c, &sw, sm), &mut t);
            left -= c;
            if r.chance(45) {
                let c = if r.chance(85) { r.range(1, 200) } else { r.range(200, 5000) } as i64;
                let m = if r.chance(50) { all } else { 1 + r.below(all as u64) as i64 };
                let sm = *r.pick(&[0i64, 1, 2]);
                push(&mut p, traffic_op(&mut r, "rtcp", m, c, &sw, sm), &mut t);
            }
            if r.chance(10) {
                push(&mut p, Op::new(0, "advance", &[*r.pick(&[20i64, 1000, 59_999, 60_001, 600_000])]), &mut t);
            }
        }
    } else {
        // C05
        let no_forgery = r.chance(5);
        let evict = !no_forgery && r.chance(30);
        let size_mode = *r.pick(&[0i64, 0, 1, 1, 2]);
        // warm-up: every SSRC gets going; starts near 65535 so the rollover counter is soon > 0
        for i in 0..n {
            let c = if r.chance(70) { r.range(200, 1500) } else { r.range(1, 50) } as i64;
            push(&mut p, traffic_op(&mut r, "stream", 1 << i, c, &sw, 0), &mut t);
        }
        if r.chance(70) {
            let c = r.range(1, 30) as i64;
            push(&mut p, traffic_op(&mut r, "rtcp", all, c, &sw, 0), &mut t);
        }
        let rounds = if tier == Tier::Thorough { r.range(3, 14) } else { r.range(2, 8) };
        let mut new_ssrcs_left: i64 = if evict { 200 } else { 28 };
        for _ in 0..rounds {
            let nf = if no_forgery { 0 } else { r.range(1, 4) };
            for _ in 0..nf {
                let si = r.below(n as u64) as i64;
                match r.below(10) {
                    0..=2 if evict => {
                        let sm = if r.chance(75) { 0 } else { size_mode };
                        push(&mut p, Op { at_ms: 0, kind: "flips".into(), a: vec![r.chance(35) as i64, si, r.below(3) as i64, sm], s: seed_str(r.next(), r.next()) }, &mut t);
                    }
                    0..=2 => {
                        // without the eviction pattern keep the number of SSRC values offered <= 32: bit flips of the
                        // SSRC field alone create 32 of them, so these runs use the other forgery kinds
                        let k = *r.pick(&[0i64, 3, 4, 7]);
                        push(&mut p, Op { at_ms: 0, kind: "forge".into(), a: vec![k, si, r.range(1, 60) as i64, *r.pick(&[1i64, 100, 32767, 32768, 32769, 40000, 65535])], s: seed_str(r.next(), 0) }, &mut t);
                    }
                    3 => {
                        let c = if evict { r.range(33, 90) as i64 } else { r.range(1, 6) as i64 };
                        if new_ssrcs_left >= c {
                            new_ssrcs_left -= c;
                            push(&mut p, Op { at_ms: 0, kind: "forge".into(), a: vec![1, si, c, 0], s: seed_str(r.next(), 0) }, &mut t);
                        }
                    }
                    4 => push(&mut p, Op { at_ms: 0, kind: "forge".into(), a: vec![2, si, r.range(1, 12) as i64, r.below(6) as i64], s: seed_str(r.next(), 0) }, &mut t),
                    5 => push(&mut p, Op { at_ms: 0, kind: "forge".into(), a: vec![0, si, r.range(1, 20) as i64, *r.pick(&[1i64, 100, 32767, 32768, 32769, 40000, 65535])], s: seed_str(r.next(), 0) }, &mut t),
                    6 => push(&mut p, Op { at_ms: 0, kind: "forge".into(), a: vec![3, si, r.range(1, 300) as i64, 0], s: seed_str(r.next(), 0) }, &mut t),
                    7 => push(&mut p, Op { at_ms: 0, kind: "forge".into(), a: vec![*r.pick(&[4i64, 6, 7]), si, r.range(1, 40) as i64, 0], s: seed_str(r.next(), 0) }, &mut t),
                    _ => push(&mut p, Op { at_ms: 0, kind: "forge".into(), a: vec![5, if r.chance(50) { si } else { 9 }, r.range(1, if evict { 200 } else { 20 }) as i64, 0], s: seed_str(r.next(), 0) }, &mut t),
                }
            }
            if r.chance(if evict { 70 } else { 30 }) {
                let ms = if evict { *r.pick(&[60_001i64, 61_000, 120_000, 59_999, 30_000]) } else { *r.pick(&[20i64, 1000, 5000]) };
                push(&mut p, Op::new(0, "advance", &[ms]), &mut t);
            }
            // genuine traffic after the forgeries
            let mask = if r.chance(50) { all } else { 1 + r.below(all as u64) as i64 };
            let c = if r.chance(80) { r.range(1, 400) } else { r.range(400, 8000) } as i64;
            push(&mut p, traffic_op(&mut r, "stream", mask, c, &sw, size_mode), &mut t);
            if r.chance(50) {
                let c = r.range(1, 40) as i64;
                push(&mut p, traffic_op(&mut r, "rtcp", mask, c, &sw, size_mode), &mut t);
            }
        }
        // closing traffic on every SSRC so that each one is judged after everything that happened
        push(&mut p, traffic_op(&mut r, "stream", all | 0x100, 8 * n, &LinkSwarm { drop: false, dup: false, reord: false, hold: false, burst: false, skip: false, big_window: false }, 0), &mut t);
        push(&mut p, traffic_op(&mut r, "rtcp", all | 0x100, 2 * n, &LinkSwarm { drop: false, dup: false, reord: false, hold: false, burst: false, skip: false, big_window: false }, 0), &mut t);
    }
    p
}

pub fn budget(prop: &str, tier: Tier) -> u64 {
    match (prop, tier) {
        ("C04", Tier::Quick) => 3000,
        ("C04", Tier::Thorough) => 50_000,
        (_, Tier::Quick) => 8000,
        (_, Tier::Thorough) => 250_000,
    }
}
