//! Scenario `pc_close` (C17): a PeerConnection pair is driven from creation to steady state; at a
//! planned crash point (phase boundary + delta, or absolute time) one or two terminating events
//! are applied. Oracles: C17.terminal, C17.close-once, C17.prompt, C17.released.
use super::Tier;
use crate::monitor::{crc32c, seal_record, KeySrc, SctpPacket, StdMonitor, WireOracle};
use crate::net::{addr, host_name, Shared};
use crate::plan::*;
use crate::rig_pc::{negotiate, PcKnobs, Peer};
use crate::sim::Ctx;
use rustrtc::transports::dtls::DtlsState;
use rustrtc::transports::sctp::{DataChannel, DataChannelEvent};
use rustrtc::verif_hooks as vh;
use rustrtc::{PeerConnection, PeerConnectionState};
use std::collections::HashMap;
use std::sync::atomic::{AtomicU32, Ordering};
use std::sync::{Arc, Mutex};
use std::time::Duration;
use tokio::sync::watch;

// event kinds
const EV_CLOSE: i64 = 0;
const EV_DROP: i64 = 1;
const EV_CLOSE_TWICE: i64 = 2;
const EV_PEER_CLOSE_NOTIFY: i64 = 3;
const EV_FORGED_ABORT: i64 = 4;
const EV_FORGED_SHUTDOWN: i64 = 5;
const EV_ICE_STOP: i64 = 6;
const EV_PARTITION: i64 = 7;
const EV_BLOCKED_SENDER_CLOSE: i64 = 8;
const N_EVENTS: i64 = 9;
const N_PHASES: i64 = 10; // 0..8 phase boundaries, 9 = absolute time

fn ev_name(k: i64) -> &'static str {
    match k {
        EV_CLOSE => "close",
        EV_DROP => "drop",
        EV_CLOSE_TWICE => "close-twice",
        EV_PEER_CLOSE_NOTIFY => "peer-close_notify",
        EV_FORGED_ABORT => "peer-sctp-abort",
        EV_FORGED_SHUTDOWN => "peer-sctp-shutdown",
        EV_ICE_STOP => "ice-stop",
        EV_PARTITION => "partition",
        EV_BLOCKED_SENDER_CLOSE => "blocked-sender-close",
        _ => "?",
    }
}

struct Tags(Arc<Mutex<HashMap<String, u32>>>);
impl WireOracle for Tags {
    fn on_sctp(&mut self, from: &str, pkt: &SctpPacket, _sh: &mut Shared) {
        for c in pkt.chunks.iter() {
            if (c.ty == 1 || c.ty == 2) && c.value.len() >= 4 {
                let tag = u32::from_be_bytes([c.value[0], c.value[1], c.value[2], c.value[3]]);
                self.0.lock().unwrap().insert(from.to_string(), tag);
            }
        }
    }
}

#[derive(Default)]
struct DcCount {
    open: AtomicU32,
    close: AtomicU32,
    msgs: AtomicU32,
}

fn state_name(s: PeerConnectionState) -> &'static str {
    match s {
        PeerConnectionState::New => "New",
        PeerConnectionState::Connecting => "Connecting",
        PeerConnectionState::Connected => "Connected",
        PeerConnectionState::Disconnected => "Disconnected",
        PeerConnectionState::Failed => "Failed",
        PeerConnectionState::Closed => "Closed",
    }
}

pub async fn run(ctx: &Ctx) {
    let plan = &ctx.plan;
    let k = PcKnobs::from_plan(plan);
    if k.compatible().is_err() {
        ctx.stat("excluded", 1);
        return;
    }
    let bound_ms: u64 = plan.knob("bound_ms", 90_000) as u64;
    ctx.net.install_binder();
    let tags = Arc::new(Mutex::new(HashMap::new()));
    {
        let mut m = StdMonitor::new(ctx.keys.clone());
        m.oracles.push(Box::new(Tags(tags.clone())));
        ctx.net.set_monitor(Box::new(m));
    }
    // knob turn: side A's configured TURN server, a harness task with its own listening socket (both part of the baseline)
    let turn = plan.knob("turn", 0);
    if turn != 0 {
        let c2 = Ctx { plan: plan.clone(), sh: ctx.sh.clone(), net: ctx.net.clone(), keys: ctx.keys.clone(), metrics: ctx.metrics.clone() };
        tokio::spawn(vh::wrap_task(async move { super::hostile_turn::serve_benign(&c2, turn).await }));
        // let the server bind before the baseline is taken
        tokio::time::sleep(Duration::from_millis(1)).await;
    }
    tokio::time::sleep(Duration::from_millis(1)).await;
    let baseline_tasks = ctx.metrics.num_alive_tasks();
    let baseline_socks = ctx.net.live_sockets();

    let mut a = Peer::new(ctx, &k, 0);
    let mut b = Peer::new(ctx, &k, 1);
    let ndc = plan.knob("ndc", 1).clamp(1, 4) as usize;
    if k.has_dc() {
        a.add_dc(true);
        b.add_dc(true);
        a.add_more_dcs(ndc - 1);
        b.add_more_dcs(ndc - 1);
    }
    let more_dcs: [Vec<Arc<DataChannel>>; 2] = [a.more_dcs.clone(), b.more_dcs.clone()];
    let pcs: [PeerConnection; 2] = [a.pc.clone(), b.pc.clone()];
    let state_rx = [pcs[0].subscribe_peer_state(), pcs[1].subscribe_peer_state()];
    let reason_rx = [pcs[0].subscribe_disconnect_reason(), pcs[1].subscribe_disconnect_reason()];
    let names = ["A", "B"];
    let mut dcs: [Option<Arc<DataChannel>>; 2] = [a.dc.clone(), b.dc.clone()];
    let counts: [Arc<DcCount>; 2] = [Arc::new(DcCount::default()), Arc::new(DcCount::default())];
    let mut helper_tasks = Vec::new();
    // set when the application's pending recv() on its data channel returned None (end of the event stream)
    let recv_done: [Arc<AtomicU32>; 2] = [Arc::new(AtomicU32::new(0)), Arc::new(AtomicU32::new(0))];
    for side in 0..2 {
        if let Some(dc) = dcs[side].clone() {
            let c = counts[side].clone();
            let sh = ctx.sh.clone();
            let rd = recv_done[side].clone();
            helper_tasks.push(tokio::spawn(vh::wrap_task(async move {
                loop {
                    match dc.recv().await {
                        Some(DataChannelEvent::Open) => {
                            c.open.fetch_add(1, Ordering::SeqCst);
                            sh.lock().unwrap().event(&format!("app {} dc Open", names[side]), "");
                        }
                        Some(DataChannelEvent::Close) => {
                            c.close.fetch_add(1, Ordering::SeqCst);
                            sh.lock().unwrap().event(&format!("app {} dc Close", names[side]), "");
                        }
                        Some(DataChannelEvent::Message(_)) => {
                            c.msgs.fetch_add(1, Ordering::SeqCst);
                        }
                        None => {
                            rd.store(1, Ordering::SeqCst);
                            break;
                        }
                    }
                }
            })));
        }
    }
    // state logging
    for side in 0..2 {
        let mut rx = state_rx[side].clone();
        let sh = ctx.sh.clone();
        helper_tasks.push(tokio::spawn(vh::wrap_task(async move {
            loop {
                let s = *rx.borrow_and_update();
                sh.lock().unwrap().event(&format!("pc {} {}", names[side], state_name(s)), "");
                if rx.changed().await.is_err() {
                    break;
                }
            }
        })));
    }

    // ---- the application driver: negotiation, then steady traffic -------------------------------
    let (progress_tx, progress_rx) = watch::channel(1u32);
    let prompt_violation: Arc<Mutex<Vec<String>>> = Arc::new(Mutex::new(Vec::new()));
    let mut driver = Some({
        let ctx2 = crate::scenarios::sctp::CtxLite { sh: ctx.sh.clone() };
        let k2 = k.clone();
        let pv = prompt_violation.clone();
        let plan2 = plan.clone();
        let net = ctx.net.clone();
        let keys = ctx.keys.clone();
        let metrics = ctx.metrics.clone();
        let mut pa = Some(a);
        let mut pb = Some(b);
        tokio::spawn(vh::wrap_task(async move {
            let dctx = Ctx { plan: plan2, sh: ctx2.sh.clone(), net, keys: keys.clone(), metrics };
            let (mut a, mut b) = (pa.take().unwrap(), pb.take().unwrap());
            let step_bound = Duration::from_millis(bound_ms);
            // negotiation in four observable steps
            let r = {
                let (off, ans) = if k2.offerer == 0 { (&mut a, &mut b) } else { (&mut b, &mut a) };
                off.add_media(&k2);
                tokio::time::timeout(step_bound, negotiate_steps(off, ans, &k2, &dctx, &progress_tx)).await
            };
            match r {
                Err(_) => pv.lock().unwrap().push("a signaling API call (create_offer / create_answer / set_*_description / gathering wait) did not return within the bound".into()),
                Ok(Err(e)) => ctx2.ev("driver negotiation stopped", &e),
                Ok(Ok(())) => {}
            }
            let cur = *progress_tx.borrow();
            let _ = progress_tx.send(cur.max(5));
            // publish DTLS keys to the wire monitor (roles are decided inside rustrtc)
            let (pca, pcb) = (a.pc.clone(), b.pc.clone());
            let wait = tokio::time::timeout(step_bound, async {
                let ra = pca.wait_for_connected().await.is_ok();
                let rb = pcb.wait_for_connected().await.is_ok();
                ra && rb
            })
            .await;
            for (pc, ip) in [(&a.pc, "10.0.0.1"), (&b.pc, "10.0.0.2")] {
                if let Some(d) = pc.verif_dtls_transport() {
                    keys.lock().unwrap().push(KeySrc { host: ip.parse().unwrap(), dtls: d, is_client: true, role_unknown: true });
                }
            }
            match wait {
                // (a connection that never got both descriptions legitimately has nothing to wait for; whether a
                // started connection gets stuck is judged by C17.terminal, and wait_for_connected() on a closed
                // connection is probed explicitly after the event)
                Err(_) => {
                    ctx2.ev("driver wait_for_connected still pending", "");
                    std::future::pending::<()>().await;
                }
                Ok(false) => {
                    ctx2.ev("driver connect failed", "");
                    // keep the handles alive: the application still owns its connection objects
                    std::future::pending::<()>().await;
                }
                Ok(true) => {}
            }
            let _ = progress_tx.send(6);
            if k2.has_dc() {
                let (da, db) = (a.dc.clone().unwrap(), b.dc.clone().unwrap());
                let t = tokio::time::timeout(step_bound, async {
                    while da.state.load(Ordering::SeqCst) != rustrtc::DataChannelState::Open as usize || db.state.load(Ordering::SeqCst) != rustrtc::DataChannelState::Open as usize {
                        tokio::time::sleep(Duration::from_millis(5)).await;
                    }
                })
                .await;
                if t.is_err() {
                    ctx2.ev("driver dc never opened", "");
                    std::future::pending::<()>().await;
                }
            }
            let _ = progress_tx.send(7);
            // steady traffic
            let mut i = 0u32;
            loop {
                if k2.has_dc() {
                    for p in [&a, &b] {
                        let id = p.dc.as_ref().unwrap().id;
                        match tokio::time::timeout(step_bound, p.pc.send_data(id, &[i as u8; 200])).await {
                            Err(_) => pv.lock().unwrap().push(format!("send_data on {} did not return within the bound", p.name)),
                            Ok(_) => {}
                        }
                    }
                }
                a.send_audio(i);
                b.send_audio(i);
                a.send_video(i);
                b.send_video(i);
                i += 1;
                if i == 5 {
                    let _ = progress_tx.send(8);
                }
                tokio::time::sleep(Duration::from_millis(40)).await;
            }
        }))
    });

    // ---- the terminating events --------------------------------------------------------------------
    let mut app_closed = [false; 2];
    let mut dropped = [false; 2];
    let mut lower_loss = [false; 2];
    let mut not_judged = [false; 2];
    let mut had_remote = [false; 2];
    let mut blocked_tasks = Vec::new();
    let mut late: Option<(tokio::task::JoinHandle<()>, Arc<AtomicU32>, usize, Arc<DataChannel>)> = None;
    let t_start = ctx.now_ms();
    let kills: Vec<&Op> = plan.ops.iter().filter(|o| o.kind == "kill").collect();
    let mut peers_dropped_by_event = false;
    for (n, op) in kills.iter().enumerate() {
        let (side, kind, phase, delta) = (op.arg(0) as usize & 1, op.arg(1).rem_euclid(N_EVENTS), op.arg(2).rem_euclid(N_PHASES), op.arg(3).max(0) as u64);
        if n == 0 {
            if phase >= 9 {
                ctx.sleep_until_ms(t_start + delta).await;
            } else {
                let mut rx = progress_rx.clone();
                let _ = tokio::time::timeout(Duration::from_secs(20), rx.wait_for(|p| *p >= (phase as u32).max(1))).await;
                tokio::time::sleep(Duration::from_micros(delta * 1000 + 1)).await;
            }
        } else {
            tokio::time::sleep(Duration::from_micros(delta * 1000 + 1)).await;
        }
        for s in 0..2 {
            had_remote[s] = had_remote[s] || pcs[s].remote_description().is_some();
        }
        let prog = *progress_rx.borrow();
        ctx.ev(&format!("EVENT {} on {} at progress {}", ev_name(kind), names[side], prog), &format!("delta={delta}"));
        ctx.stat(&format!("event.{}", ev_name(kind)), 1);
        ctx.stat(&format!("progress_at_event.{prog}"), 1);
        let other = 1 - side;
        if plan.knob("late_dc", 0) == 1 && k.has_dc() && matches!(kind, EV_CLOSE | EV_CLOSE_TWICE) && late.is_none() {
            // the application opens one more channel and closes the connection right away: the channel never gets
            // past Connecting, and the recv() the application leaves pending on it must still return
            if let Ok(dc) = pcs[side].create_data_channel("late", None) {
                let done = Arc::new(AtomicU32::new(0));
                let d2 = done.clone();
                let dc2 = dc.clone();
                let h = tokio::spawn(vh::wrap_task(async move {
                    while dc2.recv().await.is_some() {}
                    d2.store(1, Ordering::SeqCst);
                }));
                if plan.knob("late_dc_yield", 0) == 1 {
                    tokio::task::yield_now().await;
                }
                late = Some((h, done, side, dc));
            }
        }
        match kind {
            EV_CLOSE => {
                pcs[side].close();
                app_closed[side] = true;
                lower_loss[other] = true;
            }
            EV_CLOSE_TWICE => {
                pcs[side].close();
                pcs[side].close();
                app_closed[side] = true;
                lower_loss[other] = true;
            }
            EV_DROP => {
                // the application drops every handle it holds for BOTH connections' driver (one task), so the
                // other connection is dropped too a moment later; model: abort the driver, then drop this side first
                if let Some(d) = driver.take() {
                    d.abort();
                    let _ = d.await;
                }
                dcs[side] = None;
                peers_dropped_by_event = true;
                dropped[side] = true;
                app_closed[side] = true;
                lower_loss[other] = true;
            }
            EV_PEER_CLOSE_NOTIFY => {
                // the peer application closes: the victim sees a genuine DTLS close_notify (and SCTP going away)
                pcs[other].close();
                app_closed[other] = true;
                lower_loss[side] = true;
            }
            EV_FORGED_ABORT | EV_FORGED_SHUTDOWN => {
                // an SCTP ABORT / SHUTDOWN sealed with the session keys, as the genuine peer would send it
                let victim_tag = tags.lock().unwrap().get(names[side]).copied();
                let dt = pcs[other].verif_dtls_transport();
                if let (Some(tag), Some(dt)) = (victim_tag, dt) {
                    if let DtlsState::Connected(c, _) = dt.get_state() {
                        let mut p = vec![0x13, 0x88, 0x13, 0x88];
                        p.extend_from_slice(&tag.to_be_bytes());
                        p.extend_from_slice(&[0, 0, 0, 0]);
                        if kind == EV_FORGED_ABORT {
                            p.extend_from_slice(&[6, 0, 0, 4]);
                        } else {
                            p.extend_from_slice(&[7, 0, 0, 8, 0, 0, 0, 0]);
                        }
                        let crc = crc32c(&p);
                        p[8..12].copy_from_slice(&crc.to_le_bytes());
                        let from = addr(names[other], 0);
                        // the peer's actual source port: take it from the victim's selected pair if available
                        let to_from = pair_addrs(&pcs[side]).await;
                        for (key, iv) in [(&c.keys.client_write_key, &c.keys.client_write_iv), (&c.keys.server_write_key, &c.keys.server_write_iv)] {
                            let rec = seal_record(key, iv, 23, 1, (1u64 << 40) + n as u64, &p);
                            if let Some((local, remote)) = to_from {
                                ctx.net.inject(remote, local, &rec);
                            } else {
                                let _ = from;
                            }
                        }
                        // The forged chunk models "the peer aborts / shuts down an ESTABLISHED association". While
                        // the association is still being set up the genuine peer (which did not abort) simply
                        // completes the handshake afterwards, so nothing was lost and nothing is demanded.
                        if to_from.is_some() && counts[side].open.load(Ordering::SeqCst) >= 1 {
                            lower_loss[side] = true;
                        }
                    }
                }
            }
            EV_ICE_STOP => {
                // stopping an ICE transport that was never started takes nothing away: the later negotiation starts it
                // and the connection comes up normally, so only a stop of a started transport counts as a lost layer
                let started = pcs[side].ice_transport().state() != rustrtc::transports::ice::IceTransportState::New;
                pcs[side].ice_transport().stop();
                if started {
                    lower_loss[side] = true;
                    lower_loss[other] = true;
                } else {
                    ctx.stat("escape.ice_stop_before_start", 1);
                }
            }
            EV_PARTITION => {
                // knob outage_ms: the path first fails for a while and comes back (ICE goes Disconnected and recovers
                // within the grace period) before it is lost for good
                let outage = plan.knob("outage_ms", 0).max(0) as u64;
                if outage > 0 {
                    ctx.net.set_blackhole(true);
                    tokio::time::sleep(Duration::from_millis(outage)).await;
                    ctx.net.set_blackhole(false);
                    ctx.ev("network back after a temporary outage", &format!("{outage} ms"));
                    tokio::time::sleep(Duration::from_millis(plan.knob("outage_heal_ms", 3000).max(0) as u64)).await;
                    ctx.stat("probe.outage_then_partition", 1);
                    for s in 0..2 {
                        ctx.stat(&format!("probe.state_after_outage.{}", state_name(*state_rx[s].borrow())), 1);
                    }
                }
                ctx.net.set_blackhole(true);
                lower_loss[0] = true;
                lower_loss[1] = true;
            }
            EV_BLOCKED_SENDER_CLOSE => {
                ctx.net.set_blackhole(true);
                lower_loss[other] = true;
                if let Some(dc0) = dcs[side].clone() {
                    // one flooding sender per data channel: each of them ends up parked in the flow-control gate
                    let mut all = vec![dc0];
                    all.extend(more_dcs[side].iter().cloned());
                    for dc in all {
                        let pc = pcs[side].clone();
                        let done = Arc::new(AtomicU32::new(0));
                        let d2 = done.clone();
                        let h = tokio::spawn(vh::wrap_task(async move {
                            let chunk = vec![7u8; 16 * 1024];
                            for _ in 0..256 {
                                if pc.send_data(dc.id, &chunk).await.is_err() {
                                    break;
                                }
                            }
                            d2.store(1, Ordering::SeqCst);
                        }));
                        blocked_tasks.push((h, done, side));
                    }
                    tokio::time::sleep(Duration::from_millis(500)).await;
                    pcs[side].close();
                    app_closed[side] = true;
                } else {
                    pcs[side].close();
                    app_closed[side] = true;
                }
            }
            _ => {}
        }
    }
    for s in 0..2 {
        had_remote[s] = had_remote[s] || pcs[s].remote_description().is_some();
    }
    let dropped_handles = peers_dropped_by_event;
    // For a drop event the harness' own clones must go as well, in the planned order.
    let mut pcs_opt: [Option<PeerConnection>; 2] = { let [x, y] = pcs; [Some(x), Some(y)] };
    if dropped_handles {
        for s in 0..2 {
            if dropped[s] {
                pcs_opt[s] = None;
            }
        }
    }

    // ---- wait out the bound, then judge -----------------------------------------------------------
    // pending blocked senders must return promptly after close()
    for (h, done, side) in blocked_tasks.iter() {
        let t = tokio::time::timeout(Duration::from_secs(15), async {
            while done.load(Ordering::SeqCst) == 0 {
                tokio::time::sleep(Duration::from_millis(50)).await;
            }
        })
        .await;
        if t.is_err() {
            ctx.violate("C17.prompt", format!("a send_data() call on {} that was blocked on flow control did not return within 15 s after close()", names[*side]));
        }
        h.abort();
    }
    // subsequent API calls on live handles return promptly
    tokio::time::sleep(Duration::from_millis(1000)).await;
    for s in 0..2 {
        if let Some(pc) = pcs_opt[s].as_ref() {
            if app_closed[s] {
                if let Some(dc) = dcs[s].as_ref() {
                    if tokio::time::timeout(Duration::from_secs(10), pc.send_data(dc.id, b"after close")).await.is_err() {
                        ctx.violate("C17.prompt", format!("send_data() on the closed connection {} did not return within 10 s", names[s]));
                    }
                }
                if tokio::time::timeout(Duration::from_secs(10), pc.wait_for_connected()).await.is_err() {
                    ctx.violate("C17.prompt", format!("wait_for_connected() on the closed connection {} did not return within 10 s", names[s]));
                }
                if tokio::time::timeout(Duration::from_secs(10), pc.create_offer()).await.is_err() {
                    ctx.violate("C17.prompt", format!("create_offer() on the closed connection {} did not return within 10 s", names[s]));
                }
            }
        }
    }
    tokio::time::sleep(Duration::from_millis(bound_ms)).await;
    // a recv() the application left pending on a data channel of a connection it closed must have returned by now
    // (whatever state the channel had reached: Connecting, Open or Closing)
    for s in 0..2 {
        if app_closed[s] && !dropped[s] && dcs[s].is_some() && recv_done[s].load(Ordering::SeqCst) == 0 {
            ctx.violate("C17.prompt", format!("recv() pending on the data channel of {} did not return within {} ms after the application closed the connection (channel state {}, Close events seen {})", names[s], bound_ms + 1000, dcs[s].as_ref().unwrap().state.load(Ordering::SeqCst), counts[s].close.load(Ordering::SeqCst)));
        }
    }
    if let Some((h, done, side, dc)) = late.take() {
        ctx.stat("probe.late_channel_before_close", 1);
        if done.load(Ordering::SeqCst) == 0 {
            ctx.violate("C17.prompt", format!("recv() pending on a data channel that {} created just before close() did not return within {} ms after close() (channel state {})", names[side], bound_ms + 1000, dc.state.load(Ordering::SeqCst)));
        }
        h.abort();
    }
    for v in prompt_violation.lock().unwrap().iter() {
        ctx.violate("C17.prompt", v.clone());
    }
    if ctx.sh.lock().unwrap().keep_log {
        let mut live: Vec<String> = vh::live_tasks().into_iter().filter(|l| l.starts_with("/repo/")).map(|l| l.replace("/repo/src/", "")).collect();
        live.sort();
        ctx.ev("live rustrtc tasks at judgement", &format!("{live:?}"));
    }
    let final_state = [*state_rx[0].borrow(), *state_rx[1].borrow()];
    let final_reason = [reason_rx[0].borrow().clone(), reason_rx[1].borrow().clone()];
    let ice_final: Vec<String> = pcs_opt.iter().map(|p| p.as_ref().map(|p| format!("{:?}", p.ice_transport().state())).unwrap_or_else(|| "-".into())).collect();
    ctx.ev(&format!("final A={} B={}", state_name(final_state[0]), state_name(final_state[1])), &format!("reasons {:?} {:?} ice {:?}", final_reason[0], final_reason[1], ice_final));
    if !kills.is_empty() {
        for s in 0..2 {
            if app_closed[s] {
                // the statement asks for "a terminal state"; an application task that keeps calling into a connection
                // another task closed can leave it in Failed instead of Closed, which is terminal as well
                if !matches!(final_state[s], PeerConnectionState::Closed | PeerConnectionState::Failed) {
                    ctx.violate("C17.terminal", format!("connection {} was closed/dropped by the application but reports state {}", names[s], state_name(final_state[s])));
                }
                if final_reason[s].is_none() {
                    ctx.violate("C17.terminal", format!("connection {} was closed/dropped by the application but reports no disconnect reason", names[s]));
                }
            } else if lower_loss[s] && had_remote[s] && !not_judged[s] && final_state[s] != PeerConnectionState::New && k.mode == 0 {
                // (direct RTP / SDES-SRTP modes have no ICE, DTLS or SCTP layer that could notice a silent peer:
                // the statement's "a lower layer fails or is closed by the peer" cannot occur there)
                // (a connection still in New never started a transport: there is nothing that could fail)
                let terminal = matches!(final_state[s], PeerConnectionState::Disconnected | PeerConnectionState::Failed | PeerConnectionState::Closed);
                if !terminal {
                    ctx.violate(
                        "C17.terminal",
                        format!("connection {} lost its peer/lower layer ({}) but still reports state {} {} ms later (reason {:?})", names[s], kills.iter().map(|o| ev_name(o.arg(1).rem_euclid(N_EVENTS))).collect::<Vec<_>>().join("+"), state_name(final_state[s]), bound_ms, final_reason[s]),
                    );
                } else if final_reason[s].is_none() {
                    ctx.violate("C17.terminal", format!("connection {} ended in {} without a disconnect reason", names[s], state_name(final_state[s])));
                }
            }
            // data channels
            let (o, c) = (counts[s].open.load(Ordering::SeqCst), counts[s].close.load(Ordering::SeqCst));
            if c > 1 {
                ctx.violate("C17.close-once", format!("data channel on {} observed Close {c} times", names[s]));
            }
            let ended = app_closed[s] || (k.mode == 0 && lower_loss[s] && !not_judged[s] && had_remote[s] && matches!(final_state[s], PeerConnectionState::Failed | PeerConnectionState::Closed));
            if o >= 1 && ended && c == 0 {
                ctx.violate("C17.close-once", format!("data channel on {} saw Open but never Close although the connection ended in {}", names[s], state_name(final_state[s])));
            }
        }
    }
    // ---- close() with the handle kept ----------------------------------------------------------------
    // "sockets owned by the connection are released within bounded time" must not depend on the application also
    // dropping the closed object: whatever state the connection ended in (closed, failed after a lost lower layer,
    // still connected in a control run), the application now calls close() on every handle it still holds and keeps
    // it; 5 virtual s later no socket of that host may be open.
    {
        let held: Vec<usize> = (0..2).filter(|s| pcs_opt[*s].is_some()).collect();
        for s in held.iter() {
            pcs_opt[*s].as_ref().unwrap().close();
        }
        if !held.is_empty() {
            tokio::time::sleep(Duration::from_millis(5000)).await;
        }
        for s in held {
            let ip: std::net::IpAddr = if s == 0 { "10.0.0.1".parse().unwrap() } else { "10.0.0.2".parse().unwrap() };
            let open = ctx.net.live_sockets_of(ip);
            ctx.stat("probe.close_with_handle_kept", 1);
            if !open.is_empty() {
                ctx.violate("C17.released", format!("5000 ms after close() on connection {} (final state before it: {}; the application keeps the closed object) the connection still holds {} socket(s): {:?}", names[s], state_name(final_state[s]), open.len(), &open[..open.len().min(6)]));
            }
        }
    }
    // ---- release ------------------------------------------------------------------------------------
    if let Some(d) = driver.take() {
        d.abort();
        let _ = d.await;
    }
    for h in helper_tasks {
        h.abort();
    }
    drop(dcs);
    drop(more_dcs);
    drop(pcs_opt);
    ctx.keys.lock().unwrap().clear();
    if turn == 2 {
        // the harness' TURN server holds the accepting end of the client's TCP connection; under a lasting partition it
        // would never see the client's FIN and keep that (its own) socket open - the network comes back for the wait
        ctx.net.set_blackhole(false);
    }
    let mut ok = false;
    let mut waited = 0u64;
    let (mut tasks, mut socks) = (0usize, 0i64);
    while waited <= bound_ms {
        tokio::time::sleep(Duration::from_millis(1000)).await;
        waited += 1000;
        tasks = ctx.metrics.num_alive_tasks();
        socks = ctx.net.live_sockets();
        if tasks <= baseline_tasks && socks <= baseline_socks {
            ok = true;
            break;
        }
    }
    ctx.ev(&format!("after release A={} B={}", state_name(*state_rx[0].borrow()), state_name(*state_rx[1].borrow())), &format!("reasons {:?} {:?}", reason_rx[0].borrow().clone(), reason_rx[1].borrow().clone()));
    if !ok {
        let mut live: Vec<String> = vh::live_tasks().into_iter().filter(|l| l.starts_with("/repo/")).collect();
        live.sort();
        ctx.violate("C17.released", format!("{} ms after the application dropped every handle, {} tasks (baseline {}) and {} sockets (baseline {}) are still alive; rustrtc tasks still running were spawned at {:?}", waited, tasks, baseline_tasks, socks, baseline_socks, live));
    }
    ctx.stat_max_released(waited);
    let now = ctx.now_ms();
    ctx.stat("virt_ms", now);
    if !kills.is_empty() {
        ctx.stat("nontrivial", 1);
    }
}

async fn pair_addrs(pc: &PeerConnection) -> Option<(std::net::SocketAddr, std::net::SocketAddr)> {
    let p = pc.ice_transport().get_selected_pair()?;
    let _ = host_name(p.local.address.ip());
    Some((p.local.address, p.remote.address))
}

/// negotiate() split so that progress is observable between the API calls
async fn negotiate_steps(off: &mut Peer, ans: &mut Peer, k: &PcKnobs, ctx: &Ctx, progress: &watch::Sender<u32>) -> Result<(), String> {
    // reuse the rig's negotiate for the calls, but publish progress at the documented boundaries by
    // performing the four halves here
    use rustrtc::{SdpType, SessionDescription};
    let _ = off.pc.create_offer().await.map_err(|e| format!("create_offer: {e}"))?;
    off.pc.wait_for_gathering_complete().await;
    let offer = off.pc.create_offer().await.map_err(|e| format!("create_offer(2): {e}"))?;
    let offer_s = offer.to_sdp_string();
    off.pc.set_local_description(offer).map_err(|e| format!("set_local(offer): {e}"))?;
    ctx.ev(&format!("sig {} offer applied locally", off.name), "");
    let _ = progress.send(2);
    tokio::time::sleep(std::time::Duration::from_millis(2)).await;
    let offer_rx = SessionDescription::parse(SdpType::Offer, &offer_s).map_err(|e| format!("offer re-parse: {e}"))?;
    ans.pc.set_remote_description(offer_rx).await.map_err(|e| format!("set_remote(offer): {e}"))?;
    ans.add_media(k);
    ctx.ev(&format!("sig {} offer applied remotely", ans.name), "");
    let _ = progress.send(3);
    tokio::time::sleep(std::time::Duration::from_millis(2)).await;
    let _ = ans.pc.create_answer().await.map_err(|e| format!("create_answer: {e}"))?;
    ans.pc.wait_for_gathering_complete().await;
    let answer = ans.pc.create_answer().await.map_err(|e| format!("create_answer(2): {e}"))?;
    let answer_s = answer.to_sdp_string();
    ans.pc.set_local_description(answer).map_err(|e| format!("set_local(answer): {e}"))?;
    ctx.ev(&format!("sig {} answer applied locally", ans.name), "");
    let _ = progress.send(4);
    tokio::time::sleep(std::time::Duration::from_millis(2)).await;
    let answer_rx = SessionDescription::parse(SdpType::Answer, &answer_s).map_err(|e| format!("answer re-parse: {e}"))?;
    off.pc.set_remote_description(answer_rx).await.map_err(|e| format!("set_remote(answer): {e}"))?;
    ctx.ev(&format!("sig {} answer applied remotely", off.name), "");
    let _ = progress.send(5);
    let _ = negotiate; // (the one-shot variant lives in rig_pc)
    Ok(())
}

trait StatExt {
    fn stat_max_released(&self, ms: u64);
}
impl StatExt for Ctx {
    fn stat_max_released(&self, ms: u64) {
        self.sh.lock().unwrap().stat_max("release_wait_ms_max", ms);
    }
}

pub fn generate(prop: &str, seed: u64, idx: u64, tier: Tier) -> Plan {
    let mut r = Rng::new(mix(mix(seed, idx), fnv(FNV0, prop.as_bytes())));
    let mut p = Plan { prop: prop.into(), scenario: "pc_close".into(), seed: r.next(), ..Default::default() };
    // systematic core: phase x event x side for the main configuration, then swarm
    let core = (N_PHASES * N_EVENTS * 2) as u64;
    let (phase, kind, side) = if idx < core { ((idx / (N_EVENTS as u64 * 2)) as i64, ((idx / 2) % N_EVENTS as u64) as i64, (idx % 2) as i64) } else { (r.below(N_PHASES as u64) as i64, r.below(N_EVENTS as u64) as i64, r.below(2) as i64) };
    // configuration: WebRtc with data channel (+ media) mostly; Rtp / Srtp with media
    let (mode, mixv) = if idx < core {
        (0, 3)
    } else {
        match r.below(10) {
            0..=3 => (0, *r.pick(&[0i64, 3, 4])),
            4..=5 => (0, *r.pick(&[1i64, 2])),
            6..=7 => (2, *r.pick(&[1i64, 2])),
            _ => (1, 1),
        }
    };
    p.knobs.insert("mode".into(), mode);
    p.knobs.insert("mix".into(), mixv);
    p.knobs.insert("offerer".into(), r.below(2) as i64);
    if idx >= core || kind == EV_BLOCKED_SENDER_CLOSE {
        p.knobs.insert("ndc".into(), *r.pick(&[1i64, 2, 3]));
        if r.chance(30) {
            p.knobs.insert("late_dc".into(), 1);
            p.knobs.insert("late_dc_yield".into(), r.below(2) as i64);
        }
    }
    p.knobs.insert("ice_connection_timeout_ms".into(), 15_000);
    if idx >= core && kind == EV_PARTITION && mode == 0 && (7..=8).contains(&phase) && r.chance(60) {
        // recovered outage first; ICE's own connection timeout is put out of reach so that only the
        // disconnect-grace logic can end the connection
        p.knobs.insert("outage_ms".into(), *r.pick(&[4500i64, 5000, 6000]));
        p.knobs.insert("outage_heal_ms".into(), *r.pick(&[1500i64, 3000, 5000]));
        p.knobs.insert("ice_connection_timeout_ms".into(), 600_000);
    }
    p.knobs.insert("ice_disconnect_threshold_ms".into(), 4_000);
    p.knobs.insert("ice_disconnect_grace_ms".into(), 3_000);
    p.knobs.insert("bound_ms".into(), 90_000);
    p.latency_us = [r.range(200, 30_000), r.range(200, 30_000)];
    p.sched = Sched { rng_seed: r.next(), defer_pct: if r.chance(60) { 0 } else { r.range(1, 30) as u8 } };
    let delta = if phase >= 9 { r.below(1500) } else { *r.pick(&[0u64, 0, 1, 3, 10, 40, 150]) };
    p.ops.push(Op::new(0, "kill", &[side, kind, phase, delta as i64]));
    if idx >= core && r.chance(30) {
        // a second event racing the first
        p.ops.push(Op::new(0, "kill", &[r.below(2) as i64, r.below(N_EVENTS as u64) as i64, 0, r.below(6) as i64]));
    }
    if idx >= core && r.chance(4) {
        p.ops.clear(); // control: no event; everything must still be released after the handles are dropped
    }
    let _ = tier;
    p.heal_at_ms = 0;
    // further socket owners (drawn from their own stream, so that every other choice of the plan stays what it was): in
    // WebRtc mode 12 % of the swarm runs use ICE-TCP (TCP-only active offerer x passive answerer, or UDP + passive TCP on
    // both sides) and 12 % give side A a TURN allocation (UDP or TCP) on a well-behaved server played by the scenario
    let mut rs = Rng::new(mix(mix(seed, idx), 0x736f_636b_6574_73));
    // (not in the recovered-outage configuration: it puts ice_connection_timeout out of reach, and with a TCP pair selected
    // rustrtc deliberately derives its disconnect threshold from that timeout instead of ice_disconnect_threshold)
    if idx >= core && mode == 0 && !p.knobs.contains_key("outage_ms") {
        match rs.below(100) {
            0..=11 => {
                p.knobs.insert("tcp".into(), *rs.pick(&[1i64, 3]));
            }
            12..=23 => {
                p.knobs.insert("turn".into(), 1 + rs.below(2) as i64);
            }
            _ => {}
        }
    }
    p
}

pub fn budget(_prop: &str, tier: Tier) -> u64 {
    match tier {
        Tier::Quick => (N_PHASES * N_EVENTS * 2) as u64 + 6000,
        Tier::Thorough => (N_PHASES * N_EVENTS * 2) as u64 + 100_000,
    }
}
