//! Scenario `pc_connect` (C10): two PeerConnections with a compatible configuration drawn from
//! the lattice mode x media mix x bundle x rtcp-mux x ICE-lite x UDP mux x latching x compat x
//! offerer, on a fault-free simulated network. Oracle C10.connect.
use super::Tier;
use crate::plan::*;
use crate::rig_pc::{media_payload, negotiate, PcKnobs, Peer};
use crate::sim::Ctx;
use rustrtc::media::frame::MediaSample;
use rustrtc::media::MediaStreamTrack;
use rustrtc::transports::dtls::DtlsState;
use rustrtc::transports::sctp::DataChannelEvent;
use rustrtc::verif_hooks as vh;
use rustrtc::MediaKind;
use std::sync::{Arc, Mutex};
use std::time::Duration;

const DIMS: &[(&str, i64)] = &[("mode", 3), ("mix", 5), ("bundle", 3), ("mux", 2), ("lite", 3), ("udpmux", 2), ("latch", 3), ("compat", 2), ("offerer", 2), ("tcp", 7)];

fn decode(mut n: u64) -> Vec<(String, i64)> {
    let mut v = Vec::new();
    for (k, card) in DIMS {
        v.push((k.to_string(), (n % *card as u64) as i64));
        n /= *card as u64;
    }
    v
}
fn lattice_size() -> u64 {
    DIMS.iter().map(|d| d.1 as u64).product()
}
/// all compatible lattice points, in index order
pub fn compatible_points() -> Vec<u64> {
    // computed once per process: the lattice has 45 360 points since the tcp dimension exists, and generate() runs per index
    static PTS: std::sync::OnceLock<Vec<u64>> = std::sync::OnceLock::new();
    PTS.get_or_init(compute_compatible_points).clone()
}
fn compute_compatible_points() -> Vec<u64> {
    (0..lattice_size())
        .filter(|n| {
            let mut p = Plan::default();
            for (k, v) in decode(*n) {
                p.knobs.insert(k, v);
            }
            PcKnobs::from_plan(&p).compatible().is_ok()
        })
        .collect()
}

/// the compatible points without ICE-TCP (cached)
fn points_without_tcp() -> &'static Vec<u64> {
    static PTS0: std::sync::OnceLock<Vec<u64>> = std::sync::OnceLock::new();
    PTS0.get_or_init(|| compatible_points().into_iter().filter(|n| decode(*n).iter().any(|(k, v)| k == "tcp" && *v == 0)).collect())
}

pub fn generate(prop: &str, seed: u64, idx: u64, tier: Tier) -> Plan {
    let mut r = Rng::new(mix(mix(seed, idx), fnv(FNV0, prop.as_bytes())));
    let mut p = Plan { prop: prop.into(), scenario: "pc_connect".into(), seed: r.next(), ..Default::default() };
    let pts = compatible_points();
    // thorough: every compatible point once (then seeded repeats with other latencies/schedules);
    // quick: a seeded sample
    // the seeded sample is taken among the points without ICE-TCP (the same list, in the same order, as before the tcp
    // dimension existed); the ICE-TCP share is decided at the end of this function
    let pts0: &Vec<u64> = points_without_tcp();
    let point = if tier == Tier::Thorough && (idx as usize) < pts.len() { pts[idx as usize] } else { pts0[r.below(pts0.len() as u64) as usize] };
    for (k, v) in decode(point) {
        p.knobs.insert(k, v);
    }
    p.knobs.insert("point".into(), point as i64);
    // signaling is not instantaneous: the offer and the answer take time, and so does the answering application
    p.knobs.insert("sig_delay_ms".into(), *r.pick(&[0i64, 0, 1, 5, 30, 200, 1000, 3000]));
    p.latency_us = [r.range(200, 40_000), r.range(200, 40_000)];
    p.sched = Sched { rng_seed: r.next(), defer_pct: if r.chance(60) { 0 } else { r.range(1, 30) as u8 } };
    p.heal_at_ms = 0;
    // in a quarter of the runs the answerer sends its answer first and applies it locally later - possibly only
    // after the transports are up
    if r.chance(25) {
        p.knobs.insert("ans_late_ms".into(), *r.pick(&[1i64, 40, 400, 3000, 9000]));
    }
    // the two ends may run different SDP compatibility modes (direct RTP / SRTP modes)
    if p.knob("mode", 0) != 0 && r.chance(20) {
        p.knobs.insert("compat_mix".into(), 1);
    }
    // how the data channels come about (only read by configurations that have one)
    p.knobs.insert("dc_inband".into(), *r.pick(&[0i64, 0, 1, 2, 2, 3]));
    // ---- ICE-TCP share of the quick tier (drawn last: the plans of all other runs keep their earlier draws).
    // A fifth of the sampled runs is moved onto an ICE-TCP point: WebRtc mode, no ICE-lite / UDP mux / latching;
    // the media mix, bundle and rtcp-mux policy and the offerer of the sampled point are kept.
    let force_tcp = p.knob("tcp", 0) == 0 && !(tier == Tier::Thorough && (idx as usize) < pts.len()) && r.chance(20);
    if force_tcp {
        for (k, v) in [("mode", 0i64), ("lite", 0), ("udpmux", 0), ("latch", 0), ("compat", 0)] {
            p.knobs.insert(k.into(), v);
        }
        p.knobs.remove("compat_mix");
        p.knobs.insert("tcp".into(), *r.pick(&[1i64, 1, 2, 3, 4, 4, 5, 6]));
        let mut n = 0u64;
        for (k, card) in DIMS.iter().rev() {
            n = n * *card as u64 + p.knob(k, 0) as u64;
        }
        p.knobs.insert("point".into(), n as i64);
    }
    if p.knob("tcp", 0) != 0 {
        // what a healthy TCP connection may do to a byte stream (net_tcp.rs): segmentation, coalescing, short reads,
        // WouldBlock / Pending writes (io_yield_pct) - none of them is a fault
        p.knobs.insert("tcp_mss".into(), *r.pick(&[0i64, 0, 1448, 536, 100, 7]));
        p.knobs.insert("tcp_recut_pct".into(), *r.pick(&[0i64, 10, 50, 100]));
        p.knobs.insert("tcp_gap_us".into(), *r.pick(&[0i64, 0, 1, 300, 20_000]));
        p.knobs.insert("tcp_coalesce".into(), r.below(2) as i64);
        p.knobs.insert("tcp_short_read_pct".into(), *r.pick(&[0i64, 0, 20, 90]));
        p.knobs.insert("tcp_short_write_pct".into(), *r.pick(&[0i64, 0, 0, 15, 60]));
        p.knobs.insert("io_yield_pct".into(), *r.pick(&[0i64, 5, 20, 50, 80]));
        // data channel and media flow at the same time from several tasks
        p.knobs.insert("conc".into(), 1);
        p.knobs.insert("conc_msgs".into(), *r.pick(&[10i64, 40, 120]));
        p.knobs.insert("conc_samples".into(), *r.pick(&[10i64, 40, 100]));
    }
    p
}

pub fn budget(_prop: &str, tier: Tier) -> u64 {
    match tier {
        Tier::Quick => 8000,
        Tier::Thorough => compatible_points().len() as u64 + 100_000,
    }
}

pub async fn run(ctx: &Ctx) {
    let k = PcKnobs::from_plan(&ctx.plan);
    if let Err(why) = k.compatible() {
        ctx.ev("excluded", why);
        ctx.stat("excluded", 1);
        return;
    }
    ctx.net.install_binder();
    let mut a = Peer::new(ctx, &k, 0);
    let mut b = Peer::new(ctx, &k, 1);
    let dc_inband = ctx.plan.knob("dc_inband", 0);
    // channels announced to each application (PeerConnectionEvent::DataChannel)
    let announced: [Arc<Mutex<Vec<Arc<rustrtc::transports::sctp::DataChannel>>>>; 2] = [Arc::new(Mutex::new(Vec::new())), Arc::new(Mutex::new(Vec::new()))];
    let mut ev_tasks = Vec::new();
    if dc_inband != 0 {
        for (i, p) in [&a, &b].into_iter().enumerate() {
            let pc = p.pc.clone();
            let list = announced[i].clone();
            ev_tasks.push(tokio::spawn(vh::wrap_task(async move {
                while let Some(ev) = pc.recv().await {
                    if let rustrtc::PeerConnectionEvent::DataChannel(dc) = ev {
                        list.lock().unwrap().push(dc);
                    }
                }
            })));
        }
    }
    let fail = |what: String| ctx.violate("C10.connect", format!("{what} [mode={} mix={} bundle={} mux={} lite={} udpmux={} latch={} compat={} offerer={} sig_delay_ms={} ans_late_ms={} dc_inband={} compat_mix={} tcp={} tcp_knobs={:?}]", k.mode, k.mix, k.bundle, k.mux, k.lite, k.udpmux, k.latch, k.compat, k.offerer, ctx.plan.knob("sig_delay_ms", 0), ctx.plan.knob("ans_late_ms", 0), ctx.plan.knob("dc_inband", 0), ctx.plan.knob("compat_mix", 0), k.tcp, tcp_knobs(&ctx.plan)));
    {
        let (off, ans) = if k.offerer == 0 { (&mut a, &mut b) } else { (&mut b, &mut a) };
        if k.has_dc() {
            // dc_inband: 0 both sides pre-negotiate stream 0; 1 only the offerer opens a channel (in-band, DCEP);
            // 2 both open an in-band channel, the answerer between applying the offer and creating its answer;
            // 3 both in-band, the answerer once connected
            if dc_inband == 0 {
                off.add_dc(true);
                ans.add_dc(true);
            } else {
                off.add_dc(false);
            }
        }
        // concurrent phase (knob conc): its own pre-negotiated channel (stream 1) on both ends
        let conc = ctx.plan.knob("conc", 0) != 0;
        if conc && k.has_dc() {
            off.add_more_dcs(1);
            ans.add_more_dcs(1);
        }
        off.add_media(&k);
        match negotiate(off, ans, &k, ctx).await {
            Ok(_) => {}
            Err(e) => {
                fail(format!("offer/answer exchange failed: {e}"));
                finish(ctx, a, b).await;
                return;
            }
        }
    }
    // both Connected within the configured timeouts (ICE connection timeout is the governing one: 120 s)
    let t0 = ctx.now_ms();
    let ok = tokio::time::timeout(Duration::from_secs(130), async {
        let ra = a.pc.wait_for_connected().await;
        let rb = b.pc.wait_for_connected().await;
        (ra.is_ok(), rb.is_ok())
    })
    .await;
    match ok {
        Ok((true, true)) => ctx.ev("connected both", &format!("after {} ms", ctx.now_ms() - t0)),
        other => {
            fail(format!("wait_for_connected did not succeed on both ends within the configured timeouts: {other:?}"));
            finish(ctx, a, b).await;
            return;
        }
    }
    // in-band channels: each application sends on the channel it opened; the peer must have been told about that
    // channel (same stream id) and receive the message intact on it
    if k.has_dc() && dc_inband != 0 {
        if dc_inband == 3 {
            let ans = if k.offerer == 0 { &mut b } else { &mut a };
            ans.add_dc(false);
        }
        let openers: Vec<usize> = if dc_inband == 1 { vec![k.offerer as usize] } else { vec![0, 1] };
        let peers = [&a, &b];
        let ids: Vec<Option<u16>> = peers.iter().map(|p| p.dc.as_ref().map(|d| d.id)).collect();
        if openers.len() == 2 && ids[0].is_some() && ids[0] == ids[1] {
            fail(format!("both applications were given the same stream id {} for the channels they opened themselves", ids[0].unwrap()));
        }
        for &x in &openers {
            let y = 1 - x;
            let tag = if x == 0 { "A>B" } else { "B>A" };
            let Some(dtx) = peers[x].dc.clone() else {
                fail(format!("create_data_channel (in-band) failed on {}", peers[x].name));
                continue;
            };
            let msg = format!("hello in-band {tag} {}", ctx.plan.seed).into_bytes();
            let list = announced[y].clone();
            let txpc = &peers[x].pc;
            let r = tokio::time::timeout(Duration::from_secs(60), async {
                while dtx.state.load(std::sync::atomic::Ordering::SeqCst) != rustrtc::DataChannelState::Open as usize {
                    tokio::time::sleep(Duration::from_millis(10)).await;
                }
                txpc.send_data(dtx.id, &msg).await.map_err(|e| format!("send_data: {e}"))?;
                let drx = loop {
                    if let Some(d) = list.lock().unwrap().iter().find(|d| d.id == dtx.id).cloned() {
                        break d;
                    }
                    tokio::time::sleep(Duration::from_millis(10)).await;
                };
                loop {
                    match drx.recv().await {
                        Some(DataChannelEvent::Message(m)) => return Ok(m.to_vec()),
                        Some(_) => {}
                        None => return Err("receiver channel closed".to_string()),
                    }
                }
            })
            .await;
            match r {
                Ok(Ok(m)) if m == msg => ctx.ev(&format!("dc in-band {tag} ok"), ""),
                Ok(Ok(m)) => fail(format!("in-band data-channel message {tag} arrived altered ({} vs {} bytes)", m.len(), msg.len())),
                Ok(Err(e)) => fail(format!("in-band data-channel exchange {tag}: {e}")),
                Err(_) => fail(format!("in-band data-channel message {tag} (stream {}) did not arrive on a channel announced to {} within 60 s (announced streams: {:?})", dtx.id, peers[y].name, announced[y].lock().unwrap().iter().map(|d| d.id).collect::<Vec<_>>())),
            }
        }
    }
    for t in ev_tasks {
        t.abort();
    }
    // data channel: one message per direction, intact
    if k.has_dc() && dc_inband == 0 {
        for (tx, rx, tag) in [(&a, &b, "A>B"), (&b, &a, "B>A")] {
            let (Some(dtx), Some(drx)) = (tx.dc.clone(), rx.dc.clone()) else {
                fail("create_data_channel failed".into());
                continue;
            };
            let msg = format!("hello over {tag} {}", ctx.plan.seed).into_bytes();
            let txpc = &tx.pc;
            let r = tokio::time::timeout(Duration::from_secs(60), async {
                // the sender waits until its channel is open, as an application would (the Open event itself may
                // already have been read from this channel's event stream while it acted as the receiver)
                while dtx.state.load(std::sync::atomic::Ordering::SeqCst) != rustrtc::DataChannelState::Open as usize {
                    tokio::time::sleep(Duration::from_millis(10)).await;
                }
                txpc.send_data(dtx.id, &msg).await.map_err(|e| format!("send_data: {e}"))?;
                loop {
                    match drx.recv().await {
                        Some(DataChannelEvent::Message(m)) => return Ok(m.to_vec()),
                        Some(_) => {}
                        None => return Err("receiver channel closed".to_string()),
                    }
                }
            })
            .await;
            match r {
                Ok(Ok(m)) if m == msg => ctx.ev(&format!("dc {tag} ok"), ""),
                Ok(Ok(m)) => fail(format!("data-channel message {tag} arrived altered ({} vs {} bytes)", m.len(), msg.len())),
                Ok(Err(e)) => fail(format!("data-channel exchange {tag}: {e}")),
                Err(_) => fail(format!("data-channel message {tag} did not arrive within 60 s")),
            }
        }
    }
    // media: packets in each direction arrive intact
    if k.has_audio() {
        for (tx, rx, tag) in [(&a, &b, "A>B"), (&b, &a, "B>A")] {
            for (kind, kname, kid) in [(MediaKind::Audio, "audio", 0u8), (MediaKind::Video, "video", 1u8)] {
                if kind == MediaKind::Video && !k.has_video() {
                    continue;
                }
                let Some(tr) = rx.pc.get_transceivers().into_iter().find(|t| t.kind() == kind) else {
                    fail(format!("receiver has no {kname} transceiver"));
                    continue;
                };
                let Some(recv) = tr.receiver() else {
                    fail(format!("receiver {kname} transceiver has no receiver"));
                    continue;
                };
                let track = recv.track();
                let got: Arc<Mutex<Vec<Vec<u8>>>> = Arc::new(Mutex::new(Vec::new()));
                let g2 = got.clone();
                let reader = tokio::spawn(vh::wrap_task(async move {
                    while let Ok(s) = track.recv().await {
                        let d = match s {
                            MediaSample::Audio(f) => f.data.to_vec(),
                            MediaSample::Video(f) => f.data.to_vec(),
                        };
                        g2.lock().unwrap().push(d);
                    }
                }));
                let mut sent = Vec::new();
                for i in 0..12u32 {
                    let ok = if kid == 0 { tx.send_audio(i) } else { tx.send_video(i) };
                    if ok {
                        sent.push(media_payload(tx.name, kid, i));
                    }
                    tokio::time::sleep(Duration::from_millis(20)).await;
                }
                tokio::time::sleep(Duration::from_millis(600)).await;
                reader.abort();
                let got = got.lock().unwrap().clone();
                let intact = got.iter().filter(|g| sent.contains(g)).count();
                let foreign = got.iter().filter(|g| !sent.contains(g)).count();
                ctx.ev(&format!("media {tag} {kname}"), &format!("sent={} got={} intact={intact}", sent.len(), got.len()));
                if sent.is_empty() {
                    fail(format!("{kname} source of {} refused every sample", tx.name));
                } else if intact == 0 {
                    fail(format!("no {kname} RTP packet sent {tag} arrived intact (sent {}, received {}, of which {} altered/foreign)", sent.len(), got.len(), foreign));
                } else if foreign > 0 {
                    fail(format!("{foreign} {kname} packet(s) {tag} arrived altered"));
                }
            }
        }
    }
    // which kind of pair ICE selected (probes), and the concurrent phase: everything at once from several tasks
    if k.tcp != 0 {
        let sel: Vec<Option<String>> = [&a, &b].iter().map(|p| p.pc.ice_transport().get_selected_pair().map(|x| x.local.transport.clone())).collect();
        let all_tcp = sel.iter().all(|s| s.as_deref() == Some("tcp"));
        ctx.ev(&format!("selected pair transports {sel:?}"), "");
        ctx.stat(if all_tcp { "probe.c10.tcp_pair_selected" } else { "probe.c10.tcp_offered_udp_selected" }, 1);
        ctx.stat(&format!("probe.c10.tcp_cfg.{}{}", k.tcp, if all_tcp { ".tcp" } else { ".udp" }), 1);
        if matches!(k.tcp, 1 | 2 | 4 | 5 | 6) && !all_tcp {
            fail(format!("a TCP-only end is connected, yet the selected pairs are {sel:?}"));
        }
    }
    if ctx.plan.knob("conc", 0) != 0 {
        concurrent_phase(ctx, &k, &a, &b, &fail).await;
    }
    // DTLS roles complementary and SRTP/record keys identical (WebRtc mode)
    if k.mode == 0 {
        match (a.pc.verif_dtls_transport(), b.pc.verif_dtls_transport()) {
            (Some(da), Some(db)) => match (da.get_state(), db.get_state()) {
                (DtlsState::Connected(ca, pa), DtlsState::Connected(cb, pb)) => {
                    if ca.keys != cb.keys || pa != pb {
                        fail("the two ends hold different DTLS keys or SRTP profiles".into());
                    }
                    let xa = da.export_keying_material("EXTRACTOR-dtls_srtp", 60).ok();
                    let xb = db.export_keying_material("EXTRACTOR-dtls_srtp", 60).ok();
                    if xa.is_none() || xa != xb {
                        fail("exported SRTP keying material differs between the two ends".into());
                    }
                }
                _ => fail("DTLS is not Connected on both ends although the PeerConnections report Connected".into()),
            },
            _ => fail("no DTLS transport on a connected WebRtc PeerConnection".into()),
        }
    }
    ctx.stat("nontrivial", 1);
    finish(ctx, a, b).await;
}

/// the TCP behaviour knobs of a plan, for violation details
fn tcp_knobs(p: &Plan) -> Vec<(String, i64)> {
    p.knobs.iter().filter(|(k, _)| k.starts_with("tcp_") || *k == "io_yield_pct" || k.starts_with("conc")).map(|(k, v)| (k.clone(), *v)).collect()
}

fn conc_message(tag: u8, i: usize, seed: u64) -> Vec<u8> {
    // sizes: mostly small, some near one MTU, now and then a message that SCTP has to fragment
    let len = match i % 10 {
        0 => 1150,
        3 => 5,
        7 if i % 40 == 7 => 20_000,
        _ => 20 + (i * 37) % 300,
    };
    let mut v = vec![0u8; len];
    Rng::new(mix(seed ^ tag as u64, i as u64)).fill(&mut v);
    v[0] = tag;
    v[1..5].copy_from_slice(&(i as u32).to_be_bytes());
    v
}

/// Phase "everything at once" (knob conc = 1, set for the ICE-TCP configurations): per direction one task sends
/// `conc_msgs` data-channel messages back to back on a pre-negotiated channel while one task per track feeds
/// `conc_samples` samples, 5 ms apart - so that on each end the SCTP/DTLS send path, the audio and the video RTP
/// senders, the RTCP loops and the STUN keepalives write to the selected socket at the same time. Oracle C10.connect:
/// every data-channel message arrives intact and in order (the channel is reliable and ordered); no media packet
/// arrives altered; a healthy share (half) of the burst's samples arrives; and of three further samples sent per stream
/// AFTER the burst at least one arrives - a stream that lost its framing during the burst never delivers again.
async fn concurrent_phase(ctx: &Ctx, k: &PcKnobs, a: &Peer, b: &Peer, fail: &dyn Fn(String)) {
    let n_msgs = ctx.plan.knob("conc_msgs", 40).clamp(1, 2000) as usize;
    let n_samples = ctx.plan.knob("conc_samples", 40).clamp(1, 2000) as u32;
    let seed = ctx.plan.seed;
    ctx.ev("concurrent phase", &format!("msgs={n_msgs} samples={n_samples}"));
    ctx.stat("probe.c10.conc_runs", 1);
    let mut tasks: Vec<tokio::task::JoinHandle<()>> = Vec::new();
    // ---- data channel: sender + receiver task per direction
    type Got = Arc<Mutex<Vec<Vec<u8>>>>;
    let mut dc_results: Vec<(&'static str, u8, Got, Arc<Mutex<Option<String>>>)> = Vec::new();
    if k.has_dc() {
        for (tx, rx, tag, t) in [(a, b, "A>B", b'a'), (b, a, "B>A", b'b')] {
            let (Some(dtx), Some(drx)) = (tx.more_dcs.first().cloned(), rx.more_dcs.first().cloned()) else {
                fail(format!("create_data_channel (second pre-negotiated channel) failed {tag}"));
                continue;
            };
            let got: Got = Arc::new(Mutex::new(Vec::new()));
            let err: Arc<Mutex<Option<String>>> = Arc::new(Mutex::new(None));
            let (pc, e2) = (tx.pc.clone(), err.clone());
            tasks.push(tokio::spawn(vh::wrap_task(async move {
                while dtx.state.load(std::sync::atomic::Ordering::SeqCst) != rustrtc::DataChannelState::Open as usize {
                    tokio::time::sleep(Duration::from_millis(10)).await;
                }
                for i in 0..n_msgs {
                    if let Err(e) = pc.send_data(dtx.id, &conc_message(t, i, seed)).await {
                        *e2.lock().unwrap() = Some(format!("send_data #{i}: {e}"));
                        return;
                    }
                    if i % 8 == 7 {
                        tokio::time::sleep(Duration::from_millis(3)).await;
                    }
                }
            })));
            let g2 = got.clone();
            tasks.push(tokio::spawn(vh::wrap_task(async move {
                while g2.lock().unwrap().len() < n_msgs {
                    match drx.recv().await {
                        Some(DataChannelEvent::Message(m)) => g2.lock().unwrap().push(m.to_vec()),
                        Some(_) => {}
                        None => return,
                    }
                }
            })));
            dc_results.push((tag, t, got, err));
        }
    }
    // ---- media: feeder + reader task per stream and direction
    struct Stream {
        tag: &'static str,
        kname: &'static str,
        name: &'static str,
        kid: u8,
        src: Arc<rustrtc::media::track::SampleStreamSource>,
        got: Got,
        accepted: Arc<Mutex<Vec<u32>>>,
    }
    let mut streams: Vec<Stream> = Vec::new();
    let mut readers: Vec<tokio::task::JoinHandle<()>> = Vec::new();
    if k.has_audio() {
        for (tx, rx, tag) in [(a, b, "A>B"), (b, a, "B>A")] {
            for (kind, kname, kid) in [(MediaKind::Audio, "audio", 0u8), (MediaKind::Video, "video", 1u8)] {
                if kind == MediaKind::Video && !k.has_video() {
                    continue;
                }
                let src = if kid == 0 { tx.audio.clone() } else { tx.video.clone() };
                let Some(src) = src else { continue };
                let Some(track) = rx.pc.get_transceivers().into_iter().find(|t| t.kind() == kind).and_then(|t| t.receiver()).map(|r| r.track()) else { continue };
                let got: Got = Arc::new(Mutex::new(Vec::new()));
                let g2 = got.clone();
                readers.push(tokio::spawn(vh::wrap_task(async move {
                    while let Ok(s) = track.recv().await {
                        let d = match s {
                            MediaSample::Audio(f) => f.data.to_vec(),
                            MediaSample::Video(f) => f.data.to_vec(),
                        };
                        g2.lock().unwrap().push(d);
                    }
                })));
                let accepted = Arc::new(Mutex::new(Vec::new()));
                let (s2, acc2, name) = (src.clone(), accepted.clone(), tx.name);
                tasks.push(tokio::spawn(vh::wrap_task(async move {
                    for i in 0..n_samples {
                        if s2.send(conc_sample(name, kid, 1000 + i)).is_ok() {
                            acc2.lock().unwrap().push(1000 + i);
                        }
                        tokio::time::sleep(Duration::from_millis(5)).await;
                    }
                })));
                streams.push(Stream { tag, kname, name: tx.name, kid, src, got, accepted });
            }
        }
    }
    ctx.stat("probe.c10.conc_tasks", tasks.len() as u64);
    // ---- let the burst run; the data channel gets a generous bound (reliable delivery, 20 KB messages, latency)
    let all = futures::future::join_all(tasks.iter_mut());
    let done = tokio::time::timeout(Duration::from_secs(90), all).await.is_ok();
    for t in &tasks {
        t.abort();
    }
    // ---- after the burst: three more samples per stream
    tokio::time::sleep(Duration::from_millis(300)).await;
    for i in 0..3u32 {
        for s in &streams {
            if s.src.send(conc_sample(s.name, s.kid, 5000 + i)).is_ok() {
                s.accepted.lock().unwrap().push(5000 + i);
            }
        }
        tokio::time::sleep(Duration::from_millis(20)).await;
    }
    tokio::time::sleep(Duration::from_millis(1200)).await;
    for r in &readers {
        r.abort();
    }
    // ---- verdicts
    for (tag, t, got, err) in dc_results {
        let got = got.lock().unwrap().clone();
        let expected: Vec<Vec<u8>> = (0..n_msgs).map(|i| conc_message(t, i, seed)).collect();
        ctx.ev(&format!("conc dc {tag}"), &format!("sent={n_msgs} got={}", got.len()));
        if let Some(e) = err.lock().unwrap().clone() {
            fail(format!("concurrent phase: data channel {tag}: {e}"));
        } else if got != expected {
            let first_bad = got.iter().zip(expected.iter()).position(|(g, e)| g != e).unwrap_or(got.len().min(expected.len()));
            fail(format!(
                "concurrent phase: data-channel messages {tag} while media flows: {} of {n_msgs} arrived{}, first missing/different message is #{first_bad}",
                got.len(),
                if done { "" } else { " within 90 s" }
            ));
        }
    }
    for s in &streams {
        let got = s.got.lock().unwrap().clone();
        let acc = s.accepted.lock().unwrap().clone();
        let sent: Vec<Vec<u8>> = acc.iter().map(|i| media_payload(s.name, s.kid, *i)).collect();
        let burst = acc.iter().filter(|i| **i < 5000).count();
        let burst_intact = acc.iter().filter(|i| **i < 5000).filter(|i| got.contains(&media_payload(s.name, s.kid, **i))).count();
        let post = acc.iter().filter(|i| **i >= 5000).count();
        let post_intact = acc.iter().filter(|i| **i >= 5000).filter(|i| got.contains(&media_payload(s.name, s.kid, **i))).count();
        // samples of the earlier one-stream-at-a-time phase may still trickle in: only packets that are neither those nor ours are foreign
        let foreign = got.iter().filter(|g| !sent.contains(g) && !(0..12u32).any(|i| **g == media_payload(s.name, s.kid, i))).count();
        ctx.ev(&format!("conc media {} {}", s.tag, s.kname), &format!("burst={burst} intact={burst_intact} post={post} intact={post_intact} foreign={foreign}"));
        if foreign > 0 {
            fail(format!("concurrent phase: {foreign} {} packet(s) {} arrived altered", s.kname, s.tag));
        } else if burst > 0 && burst_intact * 2 < burst {
            fail(format!("concurrent phase: only {burst_intact} of {burst} {} samples {} sent while data and other media flowed arrived", s.kname, s.tag));
        } else if post > 0 && post_intact == 0 {
            fail(format!("concurrent phase: none of the {post} {} samples {} sent after the burst arrived ({burst_intact} of {burst} during it): the stream is dead", s.kname, s.tag));
        }
    }
}

fn conc_sample(name: &str, kid: u8, i: u32) -> MediaSample {
    use rustrtc::media::frame::{AudioFrame, VideoFrame};
    let data = bytes::Bytes::from(media_payload(name, kid, i));
    if kid == 0 {
        MediaSample::Audio(AudioFrame { rtp_timestamp: 1000 + i * 960, data, ..Default::default() })
    } else {
        MediaSample::Video(VideoFrame { rtp_timestamp: 5000 + i * 3000, data, is_last_packet: true, ..Default::default() })
    }
}

async fn finish(ctx: &Ctx, a: Peer, b: Peer) {
    a.pc.close();
    b.pc.close();
    drop(a);
    drop(b);
    tokio::time::sleep(Duration::from_millis(200)).await;
    let now = ctx.now_ms();
    ctx.stat("virt_ms", now);
}
