//! Scenario `pc_connect` (C10): two PeerConnections with a compatible configuration drawn from
//! the lattice mode x media mix x bundle x rtcp-mux x ICE-lite x UDP mux x latching x compat x
//! offerer, on a fault-free simulated network. Oracle C10.connect.
use super::Tier;
use crate::plan::*;
use crate::rig_pc::{media_payload, negotiate, PcKnobs, Peer};
use crate::sim::Ctx;
use rustrtc::media::frame::MediaSample;
use rustrtc::media::MediaStreamTrack;
use rustrtc::transports::dtls::DtlsState;
use rustrtc::transports::sctp::DataChannelEvent;
use rustrtc::verif_hooks as vh;
use rustrtc::MediaKind;
use std::sync::{Arc, Mutex};
use std::time::Duration;

const DIMS: &[(&str, i64)] = &[("mode", 3), ("mix", 5), ("bundle", 3), ("mux", 2), ("lite", 3), ("udpmux", 2), ("latch", 3), ("compat", 2), ("offerer", 2)];

fn decode(mut n: u64) -> Vec<(String, i64)> {
    let mut v = Vec::new();
    for (k, card) in DIMS {
        v.push((k.to_string(), (n % *card as u64) as i64));
        n /= *card as u64;
    }
    v
}
fn lattice_size() -> u64 {
    DIMS.iter().map(|d| d.1 as u64).product()
}
/// all compatible lattice points, in index order
pub fn compatible_points() -> Vec<u64> {
    (0..lattice_size())
        .filter(|n| {
            let mut p = Plan::default();
            for (k, v) in decode(*n) {
                p.knobs.insert(k, v);
            }
            PcKnobs::from_plan(&p).compatible().is_ok()
        })
        .collect()
}

pub fn generate(prop: &str, seed: u64, idx: u64, tier: Tier) -> Plan {
    let mut r = Rng::new(mix(mix(seed, idx), fnv(FNV0, prop.as_bytes())));
    let mut p = Plan { prop: prop.into(), scenario: "pc_connect".into(), seed: r.next(), ..Default::default() };
    let pts = compatible_points();
    // thorough: every compatible point once (then seeded repeats with other latencies/schedules);
    // quick: a seeded sample
    let point = if tier == Tier::Thorough && (idx as usize) < pts.len() { pts[idx as usize] } else { pts[r.below(pts.len() as u64) as usize] };
    for (k, v) in decode(point) {
        p.knobs.insert(k, v);
    }
    p.knobs.insert("point".into(), point as i64);
    // signaling is not instantaneous: the offer and the answer take time, and so does the answering application
    p.knobs.insert("sig_delay_ms".into(), *r.pick(&[0i64, 0, 1, 5, 30, 200, 1000, 3000]));
    p.latency_us = [r.range(200, 40_000), r.range(200, 40_000)];
    p.sched = Sched { rng_seed: r.next(), defer_pct: if r.chance(60) { 0 } else { r.range(1, 30) as u8 } };
    p.heal_at_ms = 0;
    // in a quarter of the runs the answerer sends its answer first and applies it locally later - possibly only
    // after the transports are up
    if r.chance(25) {
        p.knobs.insert("ans_late_ms".into(), *r.pick(&[1i64, 40, 400, 3000, 9000]));
    }
    // the two ends may run different SDP compatibility modes (direct RTP / SRTP modes)
    if p.knob("mode", 0) != 0 && r.chance(20) {
        p.knobs.insert("compat_mix".into(), 1);
    }
    // how the data channels come about (only read by configurations that have one)
    p.knobs.insert("dc_inband".into(), *r.pick(&[0i64, 0, 1, 2, 2, 3]));
    p
}

pub fn budget(_prop: &str, tier: Tier) -> u64 {
    match tier {
        Tier::Quick => 8000,
        Tier::Thorough => compatible_points().len() as u64 + 100_000,
    }
}

pub async fn run(ctx: &Ctx) {
    let k = PcKnobs::from_plan(&ctx.plan);
    if let Err(why) = k.compatible() {
        ctx.ev("excluded", why);
        ctx.stat("excluded", 1);
        return;
    }
    ctx.net.install_binder();
    let mut a = Peer::new(ctx, &k, 0);
    let mut b = Peer::new(ctx, &k, 1);
    let dc_inband = ctx.plan.knob("dc_inband", 0);
    // channels announced to each application (PeerConnectionEvent::DataChannel)
    let announced: [Arc<Mutex<Vec<Arc<rustrtc::transports::sctp::DataChannel>>>>; 2] = [Arc::new(Mutex::new(Vec::new())), Arc::new(Mutex::new(Vec::new()))];
    let mut ev_tasks = Vec::new();
    if dc_inband != 0 {
        for (i, p) in [&a, &b].into_iter().enumerate() {
            let pc = p.pc.clone();
            let list = announced[i].clone();
            ev_tasks.push(tokio::spawn(vh::wrap_task(async move {
                while let Some(ev) = pc.recv().await {
                    if let rustrtc::PeerConnectionEvent::DataChannel(dc) = ev {
                        list.lock().unwrap().push(dc);
                    }
                }
            })));
        }
    }
    let fail = |what: String| ctx.violate("C10.connect", format!("{what} [mode={} mix={} bundle={} mux={} lite={} udpmux={} latch={} compat={} offerer={} sig_delay_ms={} ans_late_ms={} dc_inband={} compat_mix={}]", k.mode, k.mix, k.bundle, k.mux, k.lite, k.udpmux, k.latch, k.compat, k.offerer, ctx.plan.knob("sig_delay_ms", 0), ctx.plan.knob("ans_late_ms", 0), ctx.plan.knob("dc_inband", 0), ctx.plan.knob("compat_mix", 0)));
    {
        let (off, ans) = if k.offerer == 0 { (&mut a, &mut b) } else { (&mut b, &mut a) };
        if k.has_dc() {
            // dc_inband: 0 both sides pre-negotiate stream 0; 1 only the offerer opens a channel (in-band, DCEP);
            // 2 both open an in-band channel, the answerer between applying the offer and creating its answer;
            // 3 both in-band, the answerer once connected
            if dc_inband == 0 {
                off.add_dc(true);
                ans.add_dc(true);
            } else {
                off.add_dc(false);
            }
        }
        off.add_media(&k);
        match negotiate(off, ans, &k, ctx).await {
            Ok(_) => {}
            Err(e) => {
                fail(format!("offer/answer exchange failed: {e}"));
                finish(ctx, a, b).await;
                return;
            }
        }
    }
    // both Connected within the configured timeouts (ICE connection timeout is the governing one: 120 s)
    let t0 = ctx.now_ms();
    let ok = tokio::time::timeout(Duration::from_secs(130), async {
        let ra = a.pc.wait_for_connected().await;
        let rb = b.pc.wait_for_connected().await;
        (ra.is_ok(), rb.is_ok())
    })
    .await;
    match ok {
        Ok((true, true)) => ctx.ev("connected both", &format!("after {} ms", ctx.now_ms() - t0)),
        other => {
            fail(format!("wait_for_connected did not succeed on both ends within the configured timeouts: {other:?}"));
            finish(ctx, a, b).await;
            return;
        }
    }
    // in-band channels: each application sends on the channel it opened; the peer must have been told about that
    // channel (same stream id) and receive the message intact on it
    if k.has_dc() && dc_inband != 0 {
        if dc_inband == 3 {
            let ans = if k.offerer == 0 { &mut b } else { &mut a };
            ans.add_dc(false);
        }
        let openers: Vec<usize> = if dc_inband == 1 { vec![k.offerer as usize] } else { vec![0, 1] };
        let peers = [&a, &b];
        let ids: Vec<Option<u16>> = peers.iter().map(|p| p.dc.as_ref().map(|d| d.id)).collect();
        if openers.len() == 2 && ids[0].is_some() && ids[0] == ids[1] {
            fail(format!("both applications were given the same stream id {} for the channels they opened themselves", ids[0].unwrap()));
        }
        for &x in &openers {
            let y = 1 - x;
            let tag = if x == 0 { "A>B" } else { "B>A" };
            let Some(dtx) = peers[x].dc.clone() else {
                fail(format!("create_data_channel (in-band) failed on {}", peers[x].name));
                continue;
            };
            let msg = format!("hello in-band {tag} {}", ctx.plan.seed).into_bytes();
            let list = announced[y].clone();
            let txpc = &peers[x].pc;
            let r = tokio::time::timeout(Duration::from_secs(60), async {
                while dtx.state.load(std::sync::atomic::Ordering::SeqCst) != rustrtc::DataChannelState::Open as usize {
                    tokio::time::sleep(Duration::from_millis(10)).await;
                }
                txpc.send_data(dtx.id, &msg).await.map_err(|e| format!("send_data: {e}"))?;
                let drx = loop {
                    if let Some(d) = list.lock().unwrap().iter().find(|d| d.id == dtx.id).cloned() {
                        break d;
                    }
                    tokio::time::sleep(Duration::from_millis(10)).await;
                };
                loop {
                    match drx.recv().await {
                        Some(DataChannelEvent::Message(m)) => return Ok(m.to_vec()),
                        Some(_) => {}
                        None => return Err("receiver channel closed".to_string()),
                    }
                }
            })
            .await;
            match r {
                Ok(Ok(m)) if m == msg => ctx.ev(&format!("dc in-band {tag} ok"), ""),
                Ok(Ok(m)) => fail(format!("in-band data-channel message {tag} arrived altered ({} vs {} bytes)", m.len(), msg.len())),
                Ok(Err(e)) => fail(format!("in-band data-channel exchange {tag}: {e}")),
                Err(_) => fail(format!("in-band data-channel message {tag} (stream {}) did not arrive on a channel announced to {} within 60 s (announced streams: {:?})", dtx.id, peers[y].name, announced[y].lock().unwrap().iter().map(|d| d.id).collect::<Vec<_>>())),
            }
        }
    }
    for t in ev_tasks {
        t.abort();
    }
    // data channel: one message per direction, intact
    if k.has_dc() && dc_inband == 0 {
        for (tx, rx, tag) in [(&a, &b, "A>B"), (&b, &a, "B>A")] {
            let (Some(dtx), Some(drx)) = (tx.dc.clone(), rx.dc.clone()) else {
                fail("create_data_channel failed".into());
                continue;
            };
            let msg = format!("hello over {tag} {}", ctx.plan.seed).into_bytes();
            let txpc = &tx.pc;
            let r = tokio::time::timeout(Duration::from_secs(60), async {
                // the sender waits until its channel is open, as an application would (the Open event itself may
                // already have been read from this channel's event stream while it acted as the receiver)
                while dtx.state.load(std::sync::atomic::Ordering::SeqCst) != rustrtc::DataChannelState::Open as usize {
                    tokio::time::sleep(Duration::from_millis(10)).await;
                }
                txpc.send_data(dtx.id, &msg).await.map_err(|e| format!("send_data: {e}"))?;
                loop {
                    match drx.recv().await {
                        Some(DataChannelEvent::Message(m)) => return Ok(m.to_vec()),
                        Some(_) => {}
                        None => return Err("receiver channel closed".to_string()),
                    }
                }
            })
            .await;
            match r {
                Ok(Ok(m)) if m == msg => ctx.ev(&format!("dc {tag} ok"), ""),
                Ok(Ok(m)) => fail(format!("data-channel message {tag} arrived altered ({} vs {} bytes)", m.len(), msg.len())),
                Ok(Err(e)) => fail(format!("data-channel exchange {tag}: {e}")),
                Err(_) => fail(format!("data-channel message {tag} did not arrive within 60 s")),
            }
        }
    }
    // media: packets in each direction arrive intact
    if k.has_audio() {
        for (tx, rx, tag) in [(&a, &b, "A>B"), (&b, &a, "B>A")] {
            for (kind, kname, kid) in [(MediaKind::Audio, "audio", 0u8), (MediaKind::Video, "video", 1u8)] {
                if kind == MediaKind::Video && !k.has_video() {
                    continue;
                }
                let Some(tr) = rx.pc.get_transceivers().into_iter().find(|t| t.kind() == kind) else {
                    fail(format!("receiver has no {kname} transceiver"));
                    continue;
                };
                let Some(recv) = tr.receiver() else {
                    fail(format!("receiver {kname} transceiver has no receiver"));
                    continue;
                };
                let track = recv.track();
                let got: Arc<Mutex<Vec<Vec<u8>>>> = Arc::new(Mutex::new(Vec::new()));
                let g2 = got.clone();
                let reader = tokio::spawn(vh::wrap_task(async move {
                    while let Ok(s) = track.recv().await {
                        let d = match s {
                            MediaSample::Audio(f) => f.data.to_vec(),
                            MediaSample::Video(f) => f.data.to_vec(),
                        };
                        g2.lock().unwrap().push(d);
                    }
                }));
                let mut sent = Vec::new();
                for i in 0..12u32 {
                    let ok = if kid == 0 { tx.send_audio(i) } else { tx.send_video(i) };
                    if ok {
                        sent.push(media_payload(tx.name, kid, i));
                    }
                    tokio::time::sleep(Duration::from_millis(20)).await;
                }
                tokio::time::sleep(Duration::from_millis(600)).await;
                reader.abort();
                let got = got.lock().unwrap().clone();
                let intact = got.iter().filter(|g| sent.contains(g)).count();
                let foreign = got.iter().filter(|g| !sent.contains(g)).count();
                ctx.ev(&format!("media {tag} {kname}"), &format!("sent={} got={} intact={intact}", sent.len(), got.len()));
                if sent.is_empty() {
                    fail(format!("{kname} source of {} refused every sample", tx.name));
                } else if intact == 0 {
                    fail(format!("no {kname} RTP packet sent {tag} arrived intact (sent {}, received {}, of which {} altered/foreign)", sent.len(), got.len(), foreign));
                } else if foreign > 0 {
                    fail(format!("{foreign} {kname} packet(s) {tag} arrived altered"));
                }
            }
        }
    }
    // DTLS roles complementary and SRTP/record keys identical (WebRtc mode)
    if k.mode == 0 {
        match (a.pc.verif_dtls_transport(), b.pc.verif_dtls_transport()) {
            (Some(da), Some(db)) => match (da.get_state(), db.get_state()) {
                (DtlsState::Connected(ca, pa), DtlsState::Connected(cb, pb)) => {
                    if ca.keys != cb.keys || pa != pb {
                        fail("the two ends hold different DTLS keys or SRTP profiles".into());
                    }
                    let xa = da.export_keying_material("EXTRACTOR-dtls_srtp", 60).ok();
                    let xb = db.export_keying_material("EXTRACTOR-dtls_srtp", 60).ok();
                    if xa.is_none() || xa != xb {
                        fail("exported SRTP keying material differs between the two ends".into());
                    }
                }
                _ => fail("DTLS is not Connected on both ends although the PeerConnections report Connected".into()),
            },
            _ => fail("no DTLS transport on a connected WebRtc PeerConnection".into()),
        }
    }
    ctx.stat("nontrivial", 1);
    finish(ctx, a, b).await;
}

async fn finish(ctx: &Ctx, a: Peer, b: Peer) {
    a.pc.close();
    b.pc.close();
    drop(a);
    drop(b);
    tokio::time::sleep(Duration::from_millis(200)).await;
    let now = ctx.now_ms();
    ctx.stat("virt_ms", now);
}
