// (included into hostile.rs) rigs 1 and 2: PeerConnection pairs (WebRtc with dc+audio+video / plain RTP with audio+video).
mod pcrig {
    use super::*;
    pub use crate::rig_pc::{make_config, media_payload, PcKnobs, Peer};
    use rustrtc::media::depacketizer::{Depacketizer, DepacketizerFactory, H264Depacketizer};
    pub use rustrtc::media::frame::MediaSample;
    pub use rustrtc::media::MediaStreamTrack;
    pub use rustrtc::transports::sctp::DataChannelEvent;
    pub use rustrtc::{RtpCodecParameters, SdpType, SessionDescription};

    #[derive(Debug)]
    pub struct H264Factory;
    impl DepacketizerFactory for H264Factory {
        fn create(&self, _kind: rustrtc::media::frame::MediaKind) -> Box<dyn Depacketizer> {
            Box::new(H264Depacketizer::new())
        }
    }

    /// transport addresses a description announces: ICE candidates, else c= / m= port
    pub fn addrs_of(sdp: &str) -> Vec<SocketAddr> {
        let mut out = Vec::new();
        let mut ip: Option<String> = None;
        for l in sdp.lines() {
            let l = l.trim();
            if let Some(c) = l.strip_prefix("a=candidate:") {
                let f: Vec<&str> = c.split_whitespace().collect();
                if f.len() >= 6 && f[2].eq_ignore_ascii_case("udp") {
                    if let Ok(a) = format!("{}:{}", f[4], f[5]).parse() {
                        out.push(a);
                    }
                }
            }
            if let Some(c) = l.strip_prefix("c=IN IP4 ") {
                ip = Some(c.trim().to_string());
            }
        }
        if out.is_empty() {
            let mut cur_ip = None;
            let mut pending: Vec<u16> = Vec::new();
            for l in sdp.lines() {
                let l = l.trim();
                if let Some(c) = l.strip_prefix("c=IN IP4 ") {
                    cur_ip = Some(c.trim().to_string());
                    for p in pending.drain(..) {
                        if let Ok(a) = format!("{}:{p}", c.trim()).parse() {
                            out.push(a);
                        }
                    }
                }
                if let Some(m) = l.strip_prefix("m=") {
                    let f: Vec<&str> = m.split_whitespace().collect();
                    if let Some(p) = f.get(1).and_then(|p| p.parse::<u16>().ok()) {
                        if p != 0 && p != 9 {
                            match cur_ip.as_ref().or(ip.as_ref()) {
                                Some(i) => {
                                    if let Ok(a) = format!("{i}:{p}").parse() {
                                        out.push(a);
                                    }
                                }
                                None => pending.push(p),
                            }
                        }
                    }
                }
            }
        }
        out.dedup();
        out
    }

    pub fn dc_open(p: &Peer) -> bool {
        p.dc.as_ref().map(|d| d.state.load(std::sync::atomic::Ordering::SeqCst) == rustrtc::DataChannelState::Open as usize).unwrap_or(false)
    }
    pub fn pc_state(p: &Peer) -> String {
        format!("{:?} reason={:?}", *p.pc.subscribe_peer_state().borrow(), p.pc.disconnect_reason())
    }
}

async fn run_pc(ctx: &Ctx) {
    use pcrig::*;
    use rustrtc::verif_hooks as vh;
    use std::sync::atomic::{AtomicU32, Ordering};
    let plan = &ctx.plan;
    let rig = plan.knob("rig", 1);
    let mut kp = plan.clone();
    kp.knobs.insert("mode".into(), if rig == 1 { 0 } else { 2 });
    kp.knobs.insert("mix".into(), if rig == 1 { plan.knob("mix", 4) } else { 2 });
    let k = PcKnobs::from_plan(&kp);
    if let Err(e) = k.compatible() {
        ctx.violate("HARNESS.scenario", format!("hostile: incompatible PeerConnection configuration: {e}"));
        return;
    }
    ctx.net.install_binder();
    let mut eng = Engine::new(ctx, ["10.0.0.1", "10.0.0.2"]);
    eng.hub.lock().unwrap().video_pts = vec![96];
    eng.plain_rtp = rig == 2;
    let h264 = plan.knob("h264", if rig == 2 { 1 } else { 0 }) == 1;
    let mk = |side: usize| {
        let mut cfg = make_config(&k, side, plan);
        if h264 {
            cfg.depacketizer_strategy.factory = Arc::new(H264Factory);
        }
        if plan.knob("rtx", 1) == 1 {
            // negotiate RFC 4588 retransmission (payload type 97) so that the RTX unwrap path is live
            let mut caps = cfg.media_capabilities.clone().unwrap_or_default();
            caps.video = vec![if h264 { rustrtc::config::VideoCapability { rtx_payload_type: Some(97), ..rustrtc::config::VideoCapability::h264() } } else { rustrtc::config::VideoCapability::vp8_with_rtx(97) }];
            cfg.media_capabilities = Some(caps);
        }
        let mut p = Peer::with_config(if side == 0 { "A" } else { "B" }, cfg);
        if h264 {
            p.video_codec = Some(RtpCodecParameters { payload_type: 96, name: "H264".into(), clock_rate: 90000, channels: 0 });
        }
        p
    };
    let mut a = mk(0);
    let mut b = mk(1);
    if k.has_dc() {
        a.add_dc(true);
        b.add_dc(true);
    }
    // keys for the wire monitor as soon as the DTLS transports exist (roles are decided inside rustrtc)
    let mut helpers = Vec::new();
    if rig == 1 {
        for (pc, ip) in [(a.pc.clone(), "10.0.0.1"), (b.pc.clone(), "10.0.0.2")] {
            let keys = ctx.keys.clone();
            helpers.push(tokio::spawn(vh::wrap_task(async move {
                loop {
                    if let Some(d) = pc.verif_dtls_transport() {
                        keys.lock().unwrap().push(KeySrc { host: ip.parse().unwrap(), dtls: d, is_client: true, role_unknown: true });
                        break;
                    }
                    tokio::time::sleep(Duration::from_millis(1)).await;
                }
            })));
        }
    }
    // data-channel echo + counters
    let pongs: [Arc<AtomicU32>; 2] = [Arc::new(AtomicU32::new(0)), Arc::new(AtomicU32::new(0))];
    for (side, p) in [&a, &b].into_iter().enumerate() {
        if let Some(dc) = p.dc.clone() {
            let pc = p.pc.clone();
            let pg = pongs[side].clone();
            let sh = ctx.sh.clone();
            helpers.push(tokio::spawn(vh::wrap_task(async move {
                loop {
                    match dc.recv().await {
                        Some(DataChannelEvent::Message(m)) => {
                            if m.starts_with(b"PING") {
                                let mut r = b"PONG".to_vec();
                                r.extend_from_slice(&m[4..]);
                                let _ = pc.send_data(dc.id, &r).await;
                            } else if m.starts_with(b"PONG") {
                                pg.fetch_add(1, Ordering::SeqCst);
                            }
                        }
                        Some(DataChannelEvent::Open) => sh.lock().unwrap().event(&format!("app {} dc Open", ["A", "B"][side]), ""),
                        Some(DataChannelEvent::Close) => sh.lock().unwrap().event(&format!("app {} dc Close", ["A", "B"][side]), ""),
                        None => break,
                    }
                }
            })));
        }
    }
    // ---- signaling, first half: both sides have their local description (sockets bound), the offerer has no answer yet
    eng.set_phase(PH_PRE);
    let offerer = (plan.knob("offerer", 0) & 1) as usize;
    let neg1: Result<(String, String, SessionDescription), String> = async {
        let (off, ans) = if offerer == 0 { (&mut a, &mut b) } else { (&mut b, &mut a) };
        off.add_media(&k);
        let _ = off.pc.create_offer().await.map_err(|e| format!("create_offer: {e}"))?;
        off.pc.wait_for_gathering_complete().await;
        let offer = off.pc.create_offer().await.map_err(|e| format!("create_offer(2): {e}"))?;
        let offer_s = offer.to_sdp_string();
        off.pc.set_local_description(offer).map_err(|e| format!("set_local(offer): {e}"))?;
        let offer_rx = SessionDescription::parse(SdpType::Offer, &offer_s).map_err(|e| format!("offer re-parse: {e}"))?;
        ans.pc.set_remote_description(offer_rx).await.map_err(|e| format!("set_remote(offer): {e}"))?;
        ans.add_media(&k);
        let _ = ans.pc.create_answer().await.map_err(|e| format!("create_answer: {e}"))?;
        ans.pc.wait_for_gathering_complete().await;
        let answer = ans.pc.create_answer().await.map_err(|e| format!("create_answer(2): {e}"))?;
        let answer_s = answer.to_sdp_string();
        ans.pc.set_local_description(answer).map_err(|e| format!("set_local(answer): {e}"))?;
        let answer_rx = SessionDescription::parse(SdpType::Answer, &answer_s).map_err(|e| format!("answer re-parse: {e}"))?;
        Ok((offer_s, answer_s, answer_rx))
    }
    .await;
    let (offer_s, answer_s, answer_rx) = match neg1 {
        Ok(x) => x,
        Err(e) => {
            ctx.violate("HARNESS.negotiate", format!("hostile rig {rig}: genuine negotiation failed: {e}"));
            return;
        }
    };
    if plan.knob("dump_sdp", 0) == 1 {
        ctx.ev("offer", &offer_s);
        ctx.ev("answer", &answer_s);
    }
    let (sdp_a, sdp_b) = if offerer == 0 { (&offer_s, &answer_s) } else { (&answer_s, &offer_s) };
    let (ad_a, ad_b) = (addrs_of(sdp_a), addrs_of(sdp_b));
    if ad_a.is_empty() || ad_b.is_empty() {
        ctx.violate("HARNESS.addrs", format!("no transport address found in the descriptions: A {ad_a:?} B {ad_b:?}"));
        return;
    }
    {
        let mut h = eng.hub.lock().unwrap();
        if h.last_pair[0].is_none() {
            h.last_pair[0] = Some((ad_b[0], ad_a[0]));
        }
        if h.last_pair[1].is_none() {
            h.last_pair[1] = Some((ad_a[0], ad_b[0]));
        }
    }
    ctx.ev("addresses", &format!("A {ad_a:?} B {ad_b:?}"));
    let t0 = ctx.now_ms();
    eng.run_timed(PH_PRE, t0).await;
    // ---- phase 1: the answer reaches the offerer: ICE checks, DTLS, SCTP, DCEP (plain RTP: nothing to shake hands)
    eng.set_phase(PH_HS);
    {
        let off = if offerer == 0 { &a } else { &b };
        if let Err(e) = off.pc.set_remote_description(answer_rx).await {
            ctx.violate("HARNESS.negotiate", format!("hostile rig {rig}: set_remote(answer) failed: {e}"));
            return;
        }
    }
    let t1 = ctx.now_ms();
    let conn = [Arc::new(AtomicU32::new(0)), Arc::new(AtomicU32::new(0))];
    for (side, p) in [&a, &b].into_iter().enumerate() {
        let pc = p.pc.clone();
        let c = conn[side].clone();
        helpers.push(tokio::spawn(vh::wrap_task(async move {
            c.store(if pc.wait_for_connected().await.is_ok() { 1 } else { 2 }, Ordering::SeqCst);
        })));
    }
    let has_dc = k.has_dc();
    let (pa, pb) = (&a, &b);
    let (c0, c1) = (conn[0].clone(), conn[1].clone());
    let mut established = eng.serve(60_000, || c0.load(Ordering::SeqCst) != 0 && c1.load(Ordering::SeqCst) != 0 && (!has_dc || (dc_open(pa) && dc_open(pb)) || c0.load(Ordering::SeqCst) == 2 || c1.load(Ordering::SeqCst) == 2)).await;
    established = established && conn[0].load(Ordering::SeqCst) == 1 && conn[1].load(Ordering::SeqCst) == 1;
    eng.run_timed(PH_HS, t1).await;
    ctx.ev(&format!("established={established}"), &format!("A: {} B: {}", pc_state(&a), pc_state(&b)));

    // media receivers (tracks of the receiving transceivers)
    let got: [Arc<Mutex<Vec<Vec<u8>>>>; 2] = [Arc::new(Mutex::new(Vec::new())), Arc::new(Mutex::new(Vec::new()))];
    for (side, p) in [&a, &b].into_iter().enumerate() {
        for tr in p.pc.get_transceivers() {
            if let Some(rx) = tr.receiver() {
                let track = rx.track();
                let g = got[side].clone();
                helpers.push(tokio::spawn(vh::wrap_task(async move {
                    while let Ok(s) = track.recv().await {
                        let d = match s {
                            MediaSample::Audio(f) => f.data.to_vec(),
                            MediaSample::Video(f) => f.data.to_vec(),
                        };
                        let mut g = g.lock().unwrap();
                        if g.len() < 4096 {
                            g.push(d);
                        }
                    }
                })));
            }
        }
    }
    // rig 2: rewrite bridge from the victim B to a third PeerConnection C (whose peer is D)
    let bridge = rig == 2 && plan.knob("bridge", 0) == 1;
    let mut extra: Vec<Peer> = Vec::new();
    let c_sent = Arc::new(AtomicU32::new(0));
    if bridge && established {
        let mkx = |ip: &str, name: &'static str| {
            let mut cfg = make_config(&k, 0, plan);
            cfg.bind_ip = Some(ip.into());
            cfg.ssrc_start = 30_000;
            Peer::with_config(name, cfg)
        };
        let mut c = mkx("10.0.0.3", "C");
        let mut d = mkx("10.0.0.4", "D");
        let kk = PcKnobs { mix: 1, ..k.clone() };
        c.add_media(&kk);
        match crate::rig_pc::negotiate(&mut c, &mut d, &kk, ctx).await {
            Ok(_) => {
                let _ = tokio::time::timeout(Duration::from_secs(10), async {
                    let _ = c.pc.wait_for_connected().await;
                })
                .await;
                let rules = [rustrtc::transports::rtp::RtpRewriteRule { match_payload_type: None, fixed_out_ssrc: None, ssrc_offset: plan.knob("bridge_ssrc_offset", 7) as u32, out_payload_type: None, sdes_mid_extension_id: Some(plan.knob("bridge_mid_ext", 1).clamp(0, 255) as u8), sdes_mid: Some("0".into()) }];
                let opts = rustrtc::transports::rtp::RtpRewriteBridgeOptions { strip_extensions: plan.knob("bridge_strip", 0) == 1, ..Default::default() };
                match b.pc.bridge_rtp_with_rewrite_rules(&c.pc, opts, &rules) {
                    Ok(()) => ctx.ev("bridge B->C installed", ""),
                    Err(e) => ctx.violate("HARNESS.bridge", format!("bridge install failed: {e}")),
                }
            }
            Err(e) => ctx.violate("HARNESS.bridge", format!("C/D negotiation failed: {e}")),
        }
        extra.push(c);
        extra.push(d);
        let _ = &c_sent;
    }
    {
        let (pa2, pb2) = (a.pc.clone(), b.pc.clone());
        eng.probes.push(("rtp_transport_accepted_hostile_rtp".into(), Box::new(move || pa2.received_rtp_packets() + pb2.received_rtp_packets())));
        if rig == 1 {
            let (pa3, pb3) = (a.pc.clone(), b.pc.clone());
            eng.probes.push(("sctp_layer_saw_hostile_packet".into(), Box::new(move || pa3.sctp_link_stats().map(|s| s.bytes_received).unwrap_or(0) + pb3.sctp_link_stats().map(|s| s.bytes_received).unwrap_or(0))));
        }
        let hub = eng.hub.clone();
        eng.probes.push(("victim_answered_attacker".into(), Box::new(move || hub.lock().unwrap().to_attacker)));
        if bridge {
            let hub = eng.hub.clone();
            eng.probes.push(("bridge_forwarded_hostile_rtp".into(), Box::new(move || hub.lock().unwrap().from_c)));
        }
    }
    let mut alive_judged = false;
    if established {
        eng.set_phase(PH_EST);
        let nmsg = plan.knob("msgs", 6).clamp(0, 200) as u32;
        let gap = plan.knob("msg_gap_ms", 20).clamp(1, 1000) as u64;
        let t2 = ctx.now_ms();
        // workload: media samples (and dc messages) both ways
        let mut sent: [Vec<Vec<u8>>; 2] = [Vec::new(), Vec::new()];
        let mut i = 0u32;
        let est_ms = plan.knob("est_ms", 200).clamp(50, 20_000) as u64;
        // the timed ops of this phase run interleaved with the workload: one workload step, then whatever is due
        let mut next_step = t2;
        loop {
            let now = ctx.now_ms();
            if now >= next_step && i < nmsg {
                for (side, p) in [&a, &b].into_iter().enumerate() {
                    if p.send_audio(i) {
                        sent[side].push(media_payload(p.name, 0, i));
                    }
                    if p.send_video(i) {
                        sent[side].push(media_payload(p.name, 1, i));
                    }
                    if let Some(dc) = p.dc.as_ref() {
                        let _ = p.pc.send_data(dc.id, format!("W{i}").as_bytes()).await;
                    }
                }
                i += 1;
                next_step = now + gap;
            }
            // due timed op?
            let due = { let h = eng.hub.lock().unwrap(); h.ops.iter().filter(|o| !o.fired && o.class < 0 && o.phase == PH_EST).map(|o| t2 + o.at_ms).min() };
            if let Some(d) = due {
                if d <= ctx.now_ms() + 1 {
                    eng.run_timed_one(PH_EST, t2).await;
                    continue;
                }
            }
            eng.drain_jobs().await;
            let all_fired = eng.hub.lock().unwrap().ops.iter().all(|o| o.fired || o.phase != PH_EST);
            if (i >= nmsg && all_fired && ctx.now_ms() >= t2 + 60) || ctx.now_ms() >= t2 + est_ms {
                break;
            }
            let wake = eng.wake.clone();
            let _ = tokio::time::timeout(Duration::from_millis(2), wake.notified()).await;
        }
        eng.drain_jobs().await;
        // ---- C07.alive (no op fires while the genuine exchange runs)
        eng.set_phase(PH_PROBE);
        if crate::sim::panic_count() > 0 {
            ctx.stat("escape.alive_not_judged_after_panic", 1);
        } else if eng.may_end {
            ctx.stat("escape.alive_not_judged_input_may_end", 1);
        } else {
            alive_judged = true;
            for (side, p) in [&a, &b].into_iter().enumerate() {
                let st = *p.pc.subscribe_peer_state().borrow();
                if st != rustrtc::PeerConnectionState::Connected {
                    ctx.violate("C07.alive", format!("connection {} left the Connected state ({}) although genuine traffic was never harmed and no hostile input was one a peer may end the connection with", ["A", "B"][side], pc_state(p)));
                }
            }
            if has_dc {
                let (p0, p1) = (pongs[0].load(Ordering::SeqCst), pongs[1].load(Ordering::SeqCst));
                let ra = a.pc.send_data(a.dc.as_ref().unwrap().id, b"PING from A").await;
                let rb = b.pc.send_data(b.dc.as_ref().unwrap().id, b"PING from B").await;
                let (q0, q1) = (pongs[0].clone(), pongs[1].clone());
                if !eng.serve(30_000, || q0.load(Ordering::SeqCst) > p0 && q1.load(Ordering::SeqCst) > p1).await {
                    ctx.violate("C07.alive", format!("after the hostile phase a genuine data-channel round trip did not complete within 30 s (send A ok={}, send B ok={}, echo at A={}, echo at B={}); A: {} B: {}; sctp A: {:?} sctp B: {:?}", ra.is_ok(), rb.is_ok(), pongs[0].load(Ordering::SeqCst) > p0, pongs[1].load(Ordering::SeqCst) > p1, pc_state(&a), pc_state(&b), a.pc.sctp_diagnostic_info(), b.pc.sctp_diagnostic_info()));
                }
            }
            if k.has_audio() {
                // one fresh audio sample each way must arrive intact (through the bridge: leave C towards D)
                let from_c0 = eng.hub.lock().unwrap().from_c;
                let mut want: [Vec<Vec<u8>>; 2] = [Vec::new(), Vec::new()];
                for j in 0..6u32 {
                    for (side, p) in [&a, &b].into_iter().enumerate() {
                        if p.send_audio(1000 + j) {
                            want[side].push(media_payload(p.name, 0, 1000 + j));
                        }
                    }
                    tokio::time::sleep(Duration::from_millis(20)).await;
                }
                let (g0, g1) = (got[0].clone(), got[1].clone());
                let (w0, w1) = (want[0].clone(), want[1].clone());
                let hubc = eng.hub.clone();
                let ok = eng
                    .serve(10_000, || {
                        let a_got = g0.lock().unwrap().iter().any(|x| w1.contains(x));
                        let b_got = if bridge { hubc.lock().unwrap().from_c > from_c0 } else { g1.lock().unwrap().iter().any(|x| w0.contains(x)) };
                        a_got && b_got
                    })
                    .await;
                if !ok {
                    let a_got = got[0].lock().unwrap().iter().any(|x| want[1].contains(x));
                    let b_got = if bridge { eng.hub.lock().unwrap().from_c > from_c0 } else { got[1].lock().unwrap().iter().any(|x| want[0].contains(x)) };
                    ctx.violate("C07.alive", format!("after the hostile phase genuine audio no longer arrives intact within 10 s: B->A received={a_got}, A->B {}={b_got} (samples accepted for sending: A {}, B {}); A: {} B: {}", if bridge { "relayed by the bridge" } else { "received" }, want[0].len(), want[1].len(), pc_state(&a), pc_state(&b)));
                }
            }
            if alive_judged {
                ctx.ev("alive judged", "");
            }
        }
        let _ = sent;
        // ---- phase 3: closing
        if plan.knob("close", 1) == 1 {
            eng.set_phase(PH_CLOSING);
            let closer = if plan.knob("closer", 0) == 0 { &a } else { &b };
            ctx.ev(&format!("api {} close", closer.name), "");
            closer.pc.close();
            let t3 = ctx.now_ms();
            eng.run_timed(PH_CLOSING, t3).await;
            eng.serve(300, || false).await;
        }
    } else if crate::sim::panic_count() > 0 {
        ctx.stat("escape.alive_not_judged_after_panic", 1);
    } else if eng.may_end || eng.raced {
        ctx.stat("escape.handshake_not_completed_after_unauthenticated_handshake_input", 1);
    } else {
        alive_judged = true;
        ctx.violate("C07.alive", format!("the connection was not established within 60 s although genuine traffic was never harmed and no hostile input was an unauthenticated handshake message; A: {} B: {}", pc_state(&a), pc_state(&b)));
    }
    if alive_judged {
        ctx.stat("alive_judged", 1);
    }
    eng.finish_stats();
    drop(eng);
    for h in helpers {
        h.abort();
    }
    ctx.keys.lock().unwrap().clear();
    a.pc.close();
    b.pc.close();
    for p in extra.iter() {
        p.pc.close();
    }
    drop(a);
    drop(b);
    drop(extra);
    tokio::time::sleep(Duration::from_millis(100)).await;
}
