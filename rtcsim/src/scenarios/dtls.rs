//! Scenario `dtls_layer`: two layer-rig endpoints (IceConn -> DtlsTransport), handshake and
//! application data under faults, on-path rewriting and third-party injection.
//! Serves C11 (agree/data/converge), C02 (auth/fail-closed), C03 (accept/state/wire).
use super::Tier;
use crate::monitor::{dtls_records, DtlsRecord, WireOracle};
use crate::net::{addr, Rewriter, Shared};
use crate::plan::*;
use crate::rig::{dtls_state_name, layer_ep, layer_ep_chain};
use crate::sim::{cert_der, Ctx};
use bytes::Bytes;
use rustrtc::transports::dtls::{DtlsState, DtlsTransport};
use rustrtc::verif_hooks as vh;
use sha2::{Digest, Sha256};
use std::collections::{BTreeMap, HashSet};
use std::net::SocketAddr;
use std::sync::{Arc, Mutex};
use std::time::Duration;

const DEADLINE_MS: u64 = 30_000;

pub fn fp_of(der: &[u8]) -> String {
    let mut h = Sha256::new();
    h.update(der);
    h.finalize().iter().map(|b| format!("{:02X}", b)).collect::<Vec<_>>().join(":")
}

pub fn payload(side: usize, idx: u32, len: usize) -> Vec<u8> {
    let mut v = vec![0u8; len];
    let mut r = Rng::new(mix(side as u64 + 77, idx as u64 + 5));
    r.fill(&mut v);
    if len >= 8 {
        v[0] = 0xD7;
        v[1] = side as u8;
        v[2..6].copy_from_slice(&idx.to_be_bytes());
        v[6..8].copy_from_slice(&(len as u16).to_be_bytes());
    }
    v
}

// ---------------------------------------------------------------------------
// on-path rewriting of DTLS handshake datagrams
// ---------------------------------------------------------------------------
fn hs_record(template: &DtlsRecord<'_>, seq_add: u64, body: &[u8]) -> Vec<u8> {
    let mut out = Vec::with_capacity(13 + body.len());
    out.extend_from_slice(&template.header[..5]);
    let seq = template.seq + seq_add;
    out.extend_from_slice(&seq.to_be_bytes()[2..]);
    out.extend_from_slice(&(body.len() as u16).to_be_bytes());
    out.extend_from_slice(body);
    out
}

fn hs_msg(ty: u8, msg_seq: u16, total: usize, off: usize, frag: &[u8]) -> Vec<u8> {
    let mut m = vec![ty];
    m.extend_from_slice(&(total as u32).to_be_bytes()[1..]);
    m.extend_from_slice(&msg_seq.to_be_bytes());
    m.extend_from_slice(&(off as u32).to_be_bytes()[1..]);
    m.extend_from_slice(&(frag.len() as u32).to_be_bytes()[1..]);
    m.extend_from_slice(frag);
    m
}

pub struct DtlsRewriter;
impl Rewriter for DtlsRewriter {
    fn rewrite(&mut self, name: &str, a: &[i64], _from: SocketAddr, _to: SocketAddr, data: &[u8]) -> Vec<Vec<u8>> {
        let recs = dtls_records(data);
        let arg = |i: usize| a.get(i).copied().unwrap_or(0);
        if name == "bitflip_fan" {
            // the genuine datagram, then single-bit flips (every `stride`-th bit) and truncations of it
            let stride = arg(0).max(1) as usize;
            let mut out = vec![data.to_vec()];
            let mut bit = (arg(1).max(0) as usize) % stride;
            while bit < data.len() * 8 {
                let mut d = data.to_vec();
                d[bit / 8] ^= 1 << (bit % 8);
                out.push(d);
                bit += stride;
            }
            let tstride = (stride / 8).max(1);
            let mut n = 0;
            while n < data.len() {
                out.push(data[..n].to_vec());
                n += tstride;
            }
            return out;
        }
        // handshake-message rewrites operate on the first plaintext handshake record of the datagram
        let Some(r) = recs.iter().find(|r| r.ct == 22 && r.epoch == 0 && r.body.len() >= 12) else {
            return vec![data.to_vec()];
        };
        let ty = r.body[0];
        let msg_seq = u16::from_be_bytes([r.body[4], r.body[5]]);
        let body = &r.body[12..];
        match name {
            "split" | "split_drop" | "split_dup" | "split_rev" => {
                // a[0] = number of fragments, a[1] = which fragment the second fault hits
                let parts = arg(0).clamp(2, 4) as usize;
                let total = body.len();
                let step = total.div_ceil(parts).max(1);
                let mut out = Vec::new();
                let mut off = 0;
                let mut k = 0u64;
                while off < total {
                    let end = (off + step).min(total);
                    out.push(hs_record(r, 0x10000 * k, &hs_msg(ty, msg_seq, total, off, &body[off..end])));
                    off = end;
                    k += 1;
                }
                if out.is_empty() {
                    out.push(data.to_vec());
                }
                // fragments travel as separate datagrams, so the network can lose, duplicate or reorder them
                let k = (arg(1).max(0) as usize) % out.len();
                match name {
                    "split_drop" => {
                        out.remove(k);
                    }
                    "split_dup" => {
                        let d = out[k].clone();
                        out.insert(k, d);
                    }
                    "split_rev" => out.reverse(),
                    _ => {}
                }
                out
            }
            "replace_cert" => {
                let der = cert_der(arg(0) as usize);
                let mut b = Vec::new();
                b.extend_from_slice(&((der.len() + 3) as u32).to_be_bytes()[1..]);
                b.extend_from_slice(&(der.len() as u32).to_be_bytes()[1..]);
                b.extend_from_slice(&der);
                vec![hs_record(r, 0, &hs_msg(ty, msg_seq, b.len(), 0, &b))]
            }
            "append_cert" | "prepend_cert" => {
                // a certificate list of two entries: the sender's own certificate(s) plus certificate a[0] of the pool
                // (a public certificate anyone can copy) after / before them; only meaningful on a Certificate message
                if ty != 11 || body.len() < 3 {
                    return vec![data.to_vec()];
                }
                let own = &body[3..];
                let der = cert_der(arg(0) as usize);
                let mut extra = Vec::new();
                extra.extend_from_slice(&(der.len() as u32).to_be_bytes()[1..]);
                extra.extend_from_slice(&der);
                let mut list = Vec::new();
                if name == "append_cert" {
                    list.extend_from_slice(own);
                    list.extend_from_slice(&extra);
                } else {
                    list.extend_from_slice(&extra);
                    list.extend_from_slice(own);
                }
                let mut b = Vec::new();
                b.extend_from_slice(&(list.len() as u32).to_be_bytes()[1..]);
                b.extend_from_slice(&list);
                vec![hs_record(r, 0, &hs_msg(ty, msg_seq, b.len(), 0, &b))]
            }
            "empty_cert" => {
                let b = vec![0u8, 0, 0];
                vec![hs_record(r, 0, &hs_msg(ty, msg_seq, b.len(), 0, &b))]
            }
            "flip_body_bit" => {
                let mut b = body.to_vec();
                if !b.is_empty() {
                    let bit = (arg(0).max(0) as usize) % (b.len() * 8);
                    b[bit / 8] ^= 1 << (bit % 8);
                }
                vec![hs_record(r, 0, &hs_msg(ty, msg_seq, b.len(), 0, &b))]
            }
            "truncate_body" => {
                let n = (arg(0).max(0) as usize).min(body.len());
                vec![hs_record(r, 0, &hs_msg(ty, msg_seq, n, 0, &body[..n]))]
            }
            "garbage_body" => {
                let mut b = body.to_vec();
                let mut rg = Rng::new(arg(0) as u64);
                rg.fill(&mut b);
                vec![hs_record(r, 0, &hs_msg(ty, msg_seq, b.len(), 0, &b))]
            }
            _ => vec![data.to_vec()],
        }
    }
}

// ---------------------------------------------------------------------------
// C03.wire oracle
// ---------------------------------------------------------------------------
struct WireSt {
    /// virtual time (ms) at which each host first sent ChangeCipherSpec: its keys certainly exist from then on
    ccs_at: BTreeMap<String, f64>,
    seen: HashSet<(String, u16, u64)>,
    app_records: u64,
    max_plain: usize,
}
struct DtlsWire(Arc<Mutex<WireSt>>);
impl WireOracle for DtlsWire {
    fn on_dtls_record(&mut self, from: &str, rec: &DtlsRecord<'_>, plain: Option<&[u8]>, dgram_len: usize, sh: &mut Shared) {
        if (from != "A" && from != "B") || sh.cur_injected {
            return;
        }
        let mut st = self.0.lock().unwrap();
        if rec.ct == 20 {
            let now = sh.now_ms();
            st.ccs_at.entry(from.to_string()).or_insert(now);
        }
        if rec.ct == 23 {
            st.app_records += 1;
            if rec.epoch == 0 {
                sh.violate("C03.wire", format!("{from} emitted application data in an epoch-0 (cleartext) record, {} bytes", rec.body.len()));
                return;
            }
            match plain {
                None => sh.violate("C03.wire", format!("{from} emitted an application-data record (epoch {}, seq {}) that does not open under its negotiated write key", rec.epoch, rec.seq)),
                Some(p) => {
                    st.max_plain = st.max_plain.max(p.len());
                    if p.len() > 1200 {
                        sh.violate("C03.wire", format!("{from} emitted an application-data record with {} plaintext bytes (> 1200)", p.len()));
                    }
                }
            }
            if dgram_len > 1237 {
                sh.violate("C03.wire", format!("{from} emitted an application-data datagram of {dgram_len} bytes (> 1237)"));
            }
        }
        if rec.epoch >= 1 && rec.ct != 20 {
            // a retransmitted flight legitimately repeats (epoch, seq) of its Finished; application data and alerts must not
            if rec.ct != 22 && !st.seen.insert((from.to_string(), rec.epoch, rec.seq)) {
                sh.violate("C03.wire", format!("{from} sent two protected records (type {}) with the same (epoch {}, sequence {}) — nonce reuse", rec.ct, rec.epoch, rec.seq));
            }
        }
    }
}

// ---------------------------------------------------------------------------
// scenario
// ---------------------------------------------------------------------------
struct Recv {
    got: Vec<Vec<u8>>,
}

fn pieces(p: &[u8]) -> Vec<Vec<u8>> {
    if p.is_empty() {
        // an empty payload produces no record at all
        return Vec::new();
    }
    p.chunks(1200).map(|c| c.to_vec()).collect()
}

fn keys_of(t: &DtlsTransport) -> Option<(Vec<u8>, Vec<u8>, Vec<u8>, Vec<u8>, Vec<u8>, Vec<u8>, Vec<u8>, Option<u16>)> {
    if let DtlsState::Connected(c, p) = t.get_state() {
        let k = &c.keys;
        Some((k.master_secret.clone(), k.client_random.clone(), k.server_random.clone(), k.client_write_key.clone(), k.server_write_key.clone(), k.client_write_iv.clone(), k.server_write_iv.clone(), p))
    } else {
        None
    }
}

pub async fn run(ctx: &Ctx) {
    let plan = &ctx.plan;
    let prop = plan.prop.as_str();
    let cert_a = plan.knob("cert_a", 0) as usize;
    let cert_b = plan.knob("cert_b", 1) as usize;
    let other = 2usize;
    let fp_for = |mode: i64, peer_cert: usize| -> Option<String> {
        match mode {
            1 => Some(fp_of(&cert_der(peer_cert))),
            2 => Some(fp_of(&cert_der(other))),
            // "claimed": the fingerprint signaling promised, held by a different key than the peer's
            3 => Some(fp_of(&cert_der(plan.knob("claimed_cert", 3) as usize))),
            // a fingerprint value shorter than the digest (SDP parsing does not insist on 32 octets): the leading
            // `fp_trunc` octets of the peer's real fingerprint - the digest does not EQUAL it
            4 => {
                let full = fp_of(&cert_der(peer_cert));
                let k = plan.knob("fp_trunc", 1).clamp(0, 31) as usize;
                Some(if k == 0 { String::new() } else { full[..(3 * k - 1).min(full.len())].to_string() })
            }
            _ => None,
        }
    };
    let fp_a = fp_for(plan.knob("fp_a", 0), cert_b);
    let fp_b = fp_for(plan.knob("fp_b", 0), cert_a);

    let wire = Arc::new(Mutex::new(WireSt { ccs_at: BTreeMap::new(), seen: HashSet::new(), app_records: 0, max_plain: 0 }));
    {
        let mut m = crate::monitor::StdMonitor::new(ctx.keys.clone());
        m.oracles.push(Box::new(DtlsWire(wire.clone())));
        ctx.net.set_monitor(Box::new(m));
    }
    ctx.net.set_rewriter(Some(Box::new(DtlsRewriter)));

    let mut ea = layer_ep(ctx, "A", "B", true, cert_a, fp_a.clone()).await;
    // chain_b: the (impostor) server presents [own, claimed] (1) or [claimed, own] (2) - the claimed certificate is public,
    // anyone can copy it into a Certificate message; only its private key is out of reach
    let chain_b = match plan.knob("chain_b", 0) {
        1 => Some((plan.knob("claimed_cert", 3) as usize, false)),
        2 => Some((plan.knob("claimed_cert", 3) as usize, true)),
        _ => None,
    };
    let mut eb = layer_ep_chain(ctx, "B", "A", false, cert_b, chain_b, fp_b.clone()).await;
    let dt = [ea.dtls.clone(), eb.dtls.clone()];
    let names = ["A", "B"];

    // receivers
    let recv: Arc<Mutex<[Recv; 2]>> = Arc::new(Mutex::new([Recv { got: vec![] }, Recv { got: vec![] }]));
    let mut tasks = Vec::new();
    for (side, ep) in [&mut ea, &mut eb].into_iter().enumerate() {
        let mut rx = ep.incoming.take().unwrap();
        let recv = recv.clone();
        let sh = ctx.sh.clone();
        tasks.push(tokio::spawn(vh::wrap_task(async move {
            while let Some(b) = rx.recv().await {
                sh.lock().unwrap().event(&format!("app {} data", names[side]), &format!("len={} h={:08x}", b.len(), fnv(FNV0, &b) as u32));
                recv.lock().unwrap()[side].got.push(b.to_vec());
            }
        })));
    }
    // state observers + agreement oracle at every transition
    let trans: Arc<Mutex<Vec<(usize, String, u64)>>> = Arc::new(Mutex::new(Vec::new()));
    for side in 0..2 {
        let mut rx = dt[side].subscribe_state();
        let sh = ctx.sh.clone();
        let dt2 = dt.clone();
        let trans = trans.clone();
        tasks.push(tokio::spawn(vh::wrap_task(async move {
            loop {
                let name = dtls_state_name(&dt2[side]);
                {
                    let mut s = sh.lock().unwrap();
                    let now = s.now_ms() as u64;
                    s.event(&format!("state {} {}", names[side], name), "");
                    trans.lock().unwrap().push((side, name.to_string(), now));
                }
                if name == "Connected" {
                    if let (Some(ka), Some(kb)) = (keys_of(&dt2[0]), keys_of(&dt2[1])) {
                        if ka != kb {
                            sh.lock().unwrap().violate("C11.agree", "both endpoints are Connected with different master secret / randoms / record keys / SRTP profile".into());
                        } else {
                            let xa = dt2[0].export_keying_material("EXTRACTOR-dtls_srtp", 60).ok();
                            let xb = dt2[1].export_keying_material("EXTRACTOR-dtls_srtp", 60).ok();
                            if xa.is_none() || xa != xb {
                                sh.lock().unwrap().violate("C11.agree", "both endpoints are Connected but exported keying material differs or is unavailable".into());
                            }
                        }
                    }
                }
                if rx.changed().await.is_err() {
                    break;
                }
            }
        })));
    }

    // workload
    let mut sent: [Vec<Vec<u8>>; 2] = [Vec::new(), Vec::new()];
    let mut per_task: BTreeMap<(usize, i64), Vec<(u64, Vec<u8>)>> = BTreeMap::new();
    let mut idx = [0u32; 2];
    for op in plan.ops.iter().filter(|o| o.kind == "send") {
        let side = op.arg(0) as usize & 1;
        let p = payload(side, idx[side], op.arg(1).max(0) as usize);
        idx[side] += 1;
        sent[side].push(p.clone());
        per_task.entry((side, op.arg(2))).or_default().push((op.at_ms, p));
    }
    let accepted: Arc<Mutex<[Vec<Vec<u8>>; 2]>> = Arc::new(Mutex::new([Vec::new(), Vec::new()]));
    let mut senders = Vec::new();
    for ((side, _t), list) in per_task {
        let d = dt[side].clone();
        let sh = ctx.sh.clone();
        let accepted = accepted.clone();
        senders.push(tokio::spawn(vh::wrap_task(async move {
            let mut rx = d.subscribe_state();
            loop {
                let n = dtls_state_name(&d);
                if n == "Connected" {
                    break;
                }
                if n == "Failed" || n == "Closed" {
                    return;
                }
                if rx.changed().await.is_err() {
                    return;
                }
            }
            let t0 = sh.lock().unwrap().t0;
            for (at, p) in list {
                tokio::time::sleep_until(t0 + Duration::from_millis(at)).await;
                let r = d.send(Bytes::from(p.clone())).await;
                sh.lock().unwrap().event(&format!("api {} send {}", names[side], if r.is_ok() { "ok" } else { "err" }), &format!("len={}", p.len()));
                if r.is_ok() {
                    accepted.lock().unwrap()[side].push(p);
                }
            }
        })));
    }
    // knob eager = 1: per side one more sender that does not wait for the state notification but polls send() every
    // 500 virtual microseconds from the start (an application thread retrying until the transport accepts data); together
    // with the preemption points inside the handshake's completion it reaches the instants at which the transport
    // already reports Connected but has not finished switching its record sequencing
    if plan.knob("eager", 0) == 1 {
        for side in 0..2usize {
            let d = dt[side].clone();
            let sh = ctx.sh.clone();
            let accepted = accepted.clone();
            let ps: Vec<Vec<u8>> = (0..3).map(|k| payload(side, 9000 + k, 40 + 10 * k as usize)).collect();
            sent[side].extend(ps.iter().cloned());
            senders.push(tokio::spawn(vh::wrap_task(async move {
                let t_end = tokio::time::Instant::now() + Duration::from_secs(20);
                for p in ps {
                    loop {
                        let r = d.send(Bytes::from(p.clone())).await;
                        if r.is_ok() {
                            sh.lock().unwrap().event(&format!("api {} eager send ok", names[side]), &format!("len={}", p.len()));
                            accepted.lock().unwrap()[side].push(p);
                            break;
                        }
                        if tokio::time::Instant::now() > t_end || matches!(dtls_state_name(&d), "Failed" | "Closed") {
                            return;
                        }
                        tokio::time::sleep(Duration::from_micros(500)).await;
                    }
                }
            })));
        }
    }
    // injections and closes, in plan order
    let m_addr = addr("M", 6666);
    let mut closes = 0;
    let mut injected = 0u64;
    let mut timeline: Vec<&Op> = plan.ops.iter().filter(|o| o.kind != "send").collect();
    timeline.sort_by_key(|o| o.at_ms);
    for op in timeline {
        ctx.sleep_until_ms(op.at_ms).await;
        match op.kind.as_str() {
            "close" => {
                let side = op.arg(0) as usize & 1;
                ctx.ev(&format!("api {} close", names[side]), "");
                dt[side].close();
                closes += 1;
            }
            "inject" => {
                // a=[target side, kind, p1, p2]; source is the third host M unless p2 == 1 (spoofed peer address)
                let target = op.arg(0) as usize & 1;
                let to = addr(names[target], 5000);
                let from = if op.arg(3) == 1 { addr(names[1 - target], 5000) } else { m_addr };
                let mut r = Rng::new(mix(plan.seed, op.at_ms ^ (op.arg(1) as u64) << 20));
                let seq = r.below(1 << 40);
                let rec = |ct: u8, epoch: u16, body: &[u8]| {
                    let mut d = vec![ct, 0xfe, 0xfd];
                    d.extend_from_slice(&epoch.to_be_bytes());
                    d.extend_from_slice(&seq.to_be_bytes()[2..]);
                    d.extend_from_slice(&(body.len() as u16).to_be_bytes());
                    d.extend_from_slice(body);
                    d
                };
                let junk = {
                    let mut j = vec![0u8; op.arg(2).clamp(0, 1400) as usize];
                    r.fill(&mut j);
                    j
                };
                let d = match op.arg(1) {
                    0 => rec(23, 0, &junk),                       // plaintext application data
                    1 => rec(21, 0, &[1, 0]),                     // plaintext close_notify
                    2 => rec(21, 0, &[2, 40]),                    // plaintext fatal handshake_failure
                    3 => rec(20, 0, &[1]),                        // plaintext ChangeCipherSpec
                    4 => rec(22, 0, &junk),                       // plaintext handshake garbage
                    5 => rec(23, 1, &junk),                       // epoch-1 record not made with the session keys
                    6 => rec(21, 1, &junk),                       // epoch-1 alert not made with the session keys
                    7 => rec(23, 2, &junk),                       // future epoch
                    8 => {
                        // a Finished-looking plaintext handshake message
                        let mut b = vec![20u8, 0, 0, 12, 0, 9, 0, 0, 0, 0, 0, 12];
                        b.extend_from_slice(&junk[..junk.len().min(12)]);
                        rec(22, 0, &b)
                    }
                    10 | 11 => {
                        // a well-formed cleartext handshake message of a type and message_seq the target may be waiting
                        // for (or have just passed): p1 selects type and message_seq, the body is junk of a plausible size
                        const TYPES: [u8; 8] = [20, 11, 2, 1, 3, 16, 12, 14];
                        let p1 = op.arg(2).max(0) as usize;
                        let ty = TYPES[p1 % 8];
                        let mseq = ((p1 / 8) % 8) as u16;
                        let blen = match ty {
                            20 => 12,
                            3 => 3 + 20,
                            14 => 0,
                            _ => 40 + (p1 % 3) * 100,
                        };
                        let mut body = vec![0u8; blen];
                        r.fill(&mut body);
                        if ty == 3 {
                            body[0] = 0xfe;
                            body[1] = 0xfd;
                            body[2] = 20;
                        }
                        rec(22, 0, &hs_msg(ty, mseq, blen, 0, &body))
                    }
                    _ => junk.clone(),
                };
                if op.arg(1) == 10 || op.arg(1) == 11 {
                    // Before the target has keys a cleartext handshake message is ordinary protocol input (anyone on the
                    // path can race a handshake; the statement starts "once keys are negotiated"), and a forged one can
                    // legitimately break the handshake later on - so these forgeries are only sent to a target that has
                    // already emitted its own ChangeCipherSpec.
                    let keyed = wire.lock().unwrap().ccs_at.contains_key(names[target]);
                    if !keyed {
                        ctx.stat("probe.hs_forgery_skipped_prekey", 1);
                        continue;
                    }
                    ctx.stat(if dtls_state_name(&dt[target]) == "Connected" { "probe.hs_forgery_connected" } else { "probe.hs_forgery_transient" }, 1);
                }
                ctx.net.inject(from, to, &d);
                injected += 1;
            }
            _ => {}
        }
    }

    // wait for the outcome
    let last_op = plan.ops.iter().map(|o| o.at_ms).max().unwrap_or(0);
    let settle = DEADLINE_MS.max(last_op).max(plan.heal_at_ms) + 3_000;
    // finish early when both are Connected, all senders are done and data has drained
    loop {
        let now = ctx.now_ms();
        let both = dtls_state_name(&dt[0]) == "Connected" && dtls_state_name(&dt[1]) == "Connected";
        let done = senders.iter().all(|h| h.is_finished());
        if both && done && now > last_op.max(plan.heal_at_ms) + 500 {
            break;
        }
        if now >= settle {
            break;
        }
        tokio::time::sleep(Duration::from_millis(100)).await;
    }
    tokio::time::sleep(Duration::from_millis(400)).await;

    let st = [dtls_state_name(&dt[0]), dtls_state_name(&dt[1])];
    let first_connected = |side: usize| trans.lock().unwrap().iter().find(|(s, n, _)| *s == side && n == "Connected").map(|x| x.2);
    ctx.ev(&format!("final A={} B={}", st[0], st[1]), "");

    // ---- C11 ----
    if prop == "C11" {
        // converge: faults stopped early enough and nobody closed => both Connected before the deadline
        // (the statement covers loss, duplication, reordering and re-fragmentation; a datagram whose bits were
        // changed in flight may legitimately make both sides fail, so corruption is an escape for liveness only)
        let corrupted = ctx.sh.lock().unwrap().fired.iter().any(|r| matches!(r.action, Action::FlipBit { .. } | Action::Truncate { .. }));
        if corrupted {
            ctx.stat("escape.corruption", 1);
        }
        if plan.heal_at_ms + 5_000 <= DEADLINE_MS && closes == 0 && !corrupted {
            for side in 0..2 {
                match first_connected(side) {
                    Some(t) if t <= DEADLINE_MS + 50 => {}
                    other => ctx.violate(
                        "C11.converge",
                        format!("network healed at {} ms but endpoint {} did not reach Connected before the {} ms handshake deadline (first Connected: {:?}, final state {}; peer final state {})", plan.heal_at_ms, names[side], DEADLINE_MS, other, st[side], st[1 - side]),
                    ),
                }
            }
        }
    }
    // data: what a side received must be pieces of what the peer accepted for sending (all properties)
    {
        let acc = accepted.lock().unwrap();
        let rc = recv.lock().unwrap();
        for side in 0..2 {
            let peer_pieces: Vec<Vec<u8>> = sent[1 - side].iter().flat_map(|p| pieces(p)).collect();
            let set: HashSet<&Vec<u8>> = peer_pieces.iter().collect();
            for g in rc[side].got.iter() {
                if !set.contains(g) {
                    let o = if prop == "C11" { "C11.data" } else if prop == "C02" { "C02.fail-closed" } else { "C03.accept" };
                    ctx.violate(o, format!("endpoint {} handed {} bytes to the upper layer that no authenticated peer record carried (h={:08x}, first bytes {:02x?})", names[side], g.len(), fnv(FNV0, g) as u32, &g[..g.len().min(8)]));
                }
            }
            // fault-free network (only forged extras): everything accepted must arrive exactly, in order per sender task
            if prop == "C03" && plan.knob("lossless", 0) == 1 && closes == 0 {
                let want: Vec<Vec<u8>> = acc[1 - side].iter().flat_map(|p| pieces(p)).collect();
                let mut got_sorted = rc[side].got.clone();
                let mut want_sorted = want.clone();
                got_sorted.sort();
                want_sorted.sort();
                if got_sorted != want_sorted {
                    ctx.violate("C03.accept", format!("endpoint {}: upper layer received {} records but the keyed peer sent {} (multiset differs) although no genuine datagram was harmed", names[side], got_sorted.len(), want_sorted.len()));
                }
            }
        }
    }
    // ---- C03.state ----
    if prop == "C03" && plan.knob("lossless", 0) == 1 && closes == 0 {
        // no genuine datagram was harmed and nobody closed: the only way to see Closed/Failed, even transiently,
        // is a state change caused by a record that did not authenticate
        // ("once keys are negotiated": judged from the moment the endpoint sent its own ChangeCipherSpec; before
        // that, DTLS alerts are cleartext by design and the statement makes no claim)
        let ccs_at = wire.lock().unwrap().ccs_at.clone();
        for (side, name, at) in trans.lock().unwrap().iter() {
            let keyed = ccs_at.get(names[*side]).map(|t| (*at as f64) > *t).unwrap_or(false);
            if keyed && (name == "Closed" || name == "Failed") {
                ctx.violate("C03.state", format!("endpoint {} published state {} at {} ms although only unauthenticated third-party records were added to an otherwise fault-free exchange", names[*side], name, at));
                break;
            }
        }
        for side in 0..2 {
            if st[side] != "Connected" {
                ctx.violate("C03.state", format!("endpoint {} ended in state {} although only unauthenticated third-party records were added to an otherwise fault-free exchange", names[side], st[side]));
            }
        }
    }
    // ---- C02 ----
    if prop == "C02" {
        for victim in 0..2usize {
            let expected = if victim == 0 { &fp_a } else { &fp_b };
            let Some(expected) = expected else { continue };
            let peer_cert = if victim == 0 { cert_b } else { cert_a };
            let authentic_peer = *expected == fp_of(&cert_der(peer_cert));
            let connected = st[victim] == "Connected";
            if connected {
                let same_secret = match (keys_of(&dt[victim]), keys_of(&dt[1 - victim])) {
                    (Some(a), Some(b)) => a.0 == b.0,
                    _ => false,
                };
                if !authentic_peer {
                    ctx.violate(
                        "C02.auth",
                        format!("endpoint {} (role {}) reached Connected although the peer's key belongs to a certificate whose SHA-256 is not the expected fingerprint", names[victim], if victim == 0 { "client" } else { "server" }),
                    );
                } else if !same_secret {
                    ctx.violate("C02.auth", format!("endpoint {} is Connected but does not share its master secret with the fingerprint's owner", names[victim]));
                }
            }
            if !authentic_peer {
                if st[victim] != "Failed" && ctx.now_ms() >= DEADLINE_MS + 1000 {
                    ctx.violate("C02.fail-closed", format!("endpoint {} faced a peer that cannot match the expected fingerprint but ended in state {} instead of Failed", names[victim], st[victim]));
                }
                if !recv.lock().unwrap()[victim].got.is_empty() {
                    ctx.violate("C02.fail-closed", format!("endpoint {} accepted application data from an unauthenticated peer", names[victim]));
                }
                if dt[victim].export_keying_material("EXTRACTOR-dtls_srtp", 60).is_ok() {
                    ctx.violate("C02.fail-closed", format!("endpoint {} exports SRTP keying material for an unauthenticated peer", names[victim]));
                }
            }
        }
    }
    {
        let mut sh = ctx.sh.lock().unwrap();
        let now = sh.now_ms() as u64;
        sh.stat("virt_ms", now);
        sh.stat("injected", injected);
        let w = wire.lock().unwrap();
        sh.stat("wire.app_records", w.app_records);
        sh.stat_max("wire.max_plain", w.max_plain as u64);
        let both = st[0] == "Connected" && st[1] == "Connected";
        sh.stat(if both { "outcome.both_connected" } else { "outcome.not_both" }, 1);
        let fired = sh.fired.len() as u64;
        if fired > 0 || injected > 0 {
            sh.stat("nontrivial", 1);
        }
    }
    for h in senders {
        h.abort();
    }
    for t in tasks {
        t.abort();
    }
    ctx.net.set_rewriter(None);
    dt[0].close();
    dt[1].close();
    ea.abort_all();
    eb.abort_all();
    tokio::time::sleep(Duration::from_millis(5)).await;
}

// ---------------------------------------------------------------------------
// generators
// ---------------------------------------------------------------------------
const A_CLASSES: &[&str] = &["DTLS:hs:client_hello", "DTLS:hs:client_key_exchange", "DTLS:ccs", "DTLS:hs:finished"];
const B_CLASSES: &[&str] = &["DTLS:hs:server_hello", "DTLS:hs:certificate", "DTLS:hs:server_key_exchange", "DTLS:hs:server_hello_done", "DTLS:ccs", "DTLS:hs:finished"];

fn c11_actions() -> Vec<Action> {
    vec![
        Action::Drop,
        Action::Dup { delay_ms: 30, copies: 1 },
        Action::Dup { delay_ms: 2500, copies: 2 },
        Action::Hold { n: 1 },
        Action::Delay { ms: 700 },
        Action::Delay { ms: 6000 },
        Action::Rewrite { name: "split".into(), a: vec![2] },
        Action::Rewrite { name: "split".into(), a: vec![3] },
        Action::Rewrite { name: "split_drop".into(), a: vec![2, 1] },
        Action::Rewrite { name: "split_drop".into(), a: vec![3, 0] },
        Action::Rewrite { name: "split_dup".into(), a: vec![2, 0] },
        Action::Rewrite { name: "split_dup".into(), a: vec![3, 2] },
        Action::Rewrite { name: "split_rev".into(), a: vec![2] },
        Action::Rewrite { name: "split_rev".into(), a: vec![3] },
    ]
}

/// every single fault: (sender, class, ordinal in {0,1}) x action
pub fn c11_singles() -> Vec<Rule> {
    let mut v = Vec::new();
    for (from, classes) in [("A", A_CLASSES), ("B", B_CLASSES)] {
        for c in classes.iter() {
            for ord in 0..2u32 {
                for a in c11_actions() {
                    if let Action::Rewrite { .. } = a {
                        if *c == "DTLS:ccs" || *c == "DTLS:hs:finished" {
                            continue; // encrypted / not a handshake message: nothing legal to split
                        }
                    }
                    v.push(Rule { from: from.into(), class: c.to_string(), ordinal: ord, action: a });
                }
            }
        }
    }
    v
}

fn base(prop: &str, r: &mut Rng) -> Plan {
    let mut p = Plan { prop: prop.into(), scenario: "dtls_layer".into(), seed: r.next(), ..Default::default() };
    p.latency_us = [r.range(200, 60_000), r.range(200, 60_000)];
    p.sched = Sched { rng_seed: r.next(), defer_pct: if r.chance(50) { 0 } else { r.range(1, 40) as u8 } };
    p
}

pub fn generate(prop: &str, seed: u64, idx: u64, tier: Tier) -> Plan {
    let mut r = Rng::new(mix(mix(seed, idx), fnv(FNV0, prop.as_bytes())));
    let mut p = base(prop, &mut r);
    match prop {
        "C11" => {
            let singles = c11_singles();
            let ns = singles.len() as u64;
            let sends = |p: &mut Plan, r: &mut Rng| {
                for k in 0..r.range(1, 4) {
                    p.ops.push(Op::new(200 + k * 50, "send", &[r.below(2) as i64, *r.pick(&[1i64, 100, 1200, 1201, 3000]), 0]));
                }
            };
            if idx < ns {
                p.faults.push(singles[idx as usize].clone());
                p.knobs.insert("enum".into(), 1);
                p.heal_at_ms = 20_000;
            } else if (tier == Tier::Thorough && idx < ns + ns * ns) || (tier == Tier::Quick && idx < ns + 1500) {
                // pairs: thorough enumerates all ordered pairs; quick takes a seeded sample of them
                let (i, j) = if tier == Tier::Thorough { ((idx - ns) / ns, (idx - ns) % ns) } else { (r.below(ns), r.below(ns)) };
                p.faults.push(singles[i as usize].clone());
                p.faults.push(singles[j as usize].clone());
                p.knobs.insert("enum".into(), 2);
                p.heal_at_ms = 20_000;
            } else {
                // random multi-fault histories
                let n = r.range(1, 6);
                for _ in 0..n {
                    p.faults.push(r.pick(&singles).clone());
                }
                if r.chance(50) {
                    p.bg = Background { drop_pm: *r.pick(&[50, 150, 300]) as u32, dup_pm: *r.pick(&[0, 50, 150]) as u32, delay_pm: *r.pick(&[0, 100, 200]) as u32, delay_max_ms: *r.pick(&[50, 800, 3000]), flip_pm: 0, subseed: r.next(), class: "DTLS".into() };
                }
                p.heal_at_ms = *r.pick(&[3_000u64, 10_000, 20_000, 24_000, 28_000]);
                if r.chance(10) {
                    p.faults.clear();
                    p.bg = Background::default();
                    p.heal_at_ms = 0;
                }
            }
            sends(&mut p, &mut r);
        }
        "C02" => {
            // systematic core first, then random combinations
            let rewrites: Vec<Option<(String, Vec<i64>)>> = vec![
                None,
                Some(("replace_cert".into(), vec![3])),
                Some(("replace_cert".into(), vec![2])),
                Some(("append_cert".into(), vec![3])),
                Some(("prepend_cert".into(), vec![3])),
                Some(("empty_cert".into(), vec![])),
                Some(("truncate_body".into(), vec![40])),
                Some(("flip_body_bit".into(), vec![77])),
                Some(("garbage_body".into(), vec![5])),
                Some(("drop".into(), vec![])),
                Some(("split".into(), vec![3])),
            ];
            let targets = ["DTLS:hs:certificate", "DTLS:hs:server_key_exchange", "DTLS:hs:server_hello", "DTLS:hs:server_hello_done", "DTLS:hs:client_key_exchange"];
            // dims: victim role (0 client, 1 server) x fp mode (0 none,1 match,2 mismatch,3 claimed-by-impostor,
            // 4 truncated prefix of the peer's real fingerprint) x rewrite x target
            let core = 2 * 5 * rewrites.len() as u64 * targets.len() as u64;
            let k = if idx < core { idx } else { r.below(core) };
            let victim = k % 2;
            let fpm = (k / 2) % 5;
            let rw = &rewrites[((k / 10) % rewrites.len() as u64) as usize];
            let tg = targets[((k / 10 / rewrites.len() as u64) % targets.len() as u64) as usize];
            if fpm == 4 {
                p.knobs.insert("fp_trunc".into(), *[1i64, 2, 8, 16, 31, 0].get(((k / 10) % 6) as usize).unwrap());
            }
            // Server-role victims are exercised only in combinations where the handshake is authentic:
            // the server never authenticates its client (known finding F-dtls-server-noauth), and one
            // always-reachable defect must not end every run.
            let fpm = if victim == 1 && fpm >= 2 { 1 } else { fpm };
            p.knobs.insert(if victim == 0 { "fp_a" } else { "fp_b" }.into(), fpm as i64);
            p.knobs.insert("victim".into(), victim as i64);
            if fpm == 3 {
                // signaling promised cert 3's fingerprint; the actual peer holds another key; optionally an on-path
                // party substitutes cert 3 into the Certificate message
                p.knobs.insert("claimed_cert".into(), 3);
                if victim == 0 {
                    // the impostor may also present the claimed (public) certificate next to its own
                    let c = if idx < core { (k / 10) % 3 } else { r.below(3) };
                    if c > 0 {
                        p.knobs.insert("chain_b".into(), c as i64);
                    }
                }
            }
            if let Some((name, a)) = rw {
                let from = if tg == "DTLS:hs:client_key_exchange" { "A" } else { "B" };
                let action = if name == "drop" { Action::Drop } else { Action::Rewrite { name: name.clone(), a: a.clone() } };
                for ord in 0..(if idx < core { 40 } else { r.range(1, 40) as u32 }) {
                    p.faults.push(Rule { from: from.into(), class: tg.into(), ordinal: ord, action: action.clone() });
                }
            }
            if idx >= core {
                // random extra bit flips in other handshake messages
                for _ in 0..r.below(3) {
                    let tg2 = *r.pick(&targets);
                    p.faults.push(Rule { from: if tg2 == "DTLS:hs:client_key_exchange" { "A".into() } else { "B".into() }, class: tg2.into(), ordinal: r.below(3) as u32, action: Action::Rewrite { name: "flip_body_bit".into(), a: vec![r.below(4000) as i64] } });
                }
            }
            p.heal_at_ms = 60_000;
            p.ops.push(Op::new(300, "send", &[0, 100, 0]));
            p.ops.push(Op::new(300, "send", &[1, 100, 0]));
        }
        _ => {
            // C03
            p.knobs.insert("lossless".into(), 1);
            p.latency_us = [r.range(200, 20_000), r.range(200, 20_000)];
            let nsend = r.range(1, if tier == Tier::Thorough { 40 } else { 16 });
            let ntasks = *r.pick(&[1i64, 1, 2, 4, 8]);
            if ntasks > 1 && r.chance(70) {
                // sends of concurrent tasks overlap only if a send can be suspended half-way
                p.knobs.insert("io_yield_pct".into(), *r.pick(&[10i64, 30, 60, 100]));
            }
            let t0 = r.range(150, 600);
            for _ in 0..nsend {
                let len = if r.chance(40) { *r.pick(&[0i64, 1, 1199, 1200, 1201, 2400, 2401, 5000]) } else { r.below(5000) as i64 };
                p.ops.push(Op::new(t0 + r.below(200), "send", &[r.below(2) as i64, len, r.below(ntasks as u64) as i64]));
            }
            // third-party injections before, during and after the handshake
            for _ in 0..r.range(1, 12) {
                let at = if r.chance(30) { r.below(150) } else { r.range(150, 1500) };
                p.ops.push(Op::new(at, "inject", &[r.below(2) as i64, r.below(10) as i64, r.below(200) as i64, r.below(2) as i64]));
            }
            // cleartext handshake forgeries (type x message_seq) aimed at an endpoint that already has keys: a volley
            // right after the handshake starts (to land between its ChangeCipherSpec and Connected) and some later
            if r.chance(70) {
                let t = r.below(2) as i64;
                let start = r.below(120);
                let step = r.range(1, 12);
                for i in 0..r.range(2, 14) {
                    p.ops.push(Op::new(start + i * step, "inject", &[t, 10, r.below(64) as i64, r.below(2) as i64]));
                }
                for _ in 0..r.below(6) {
                    p.ops.push(Op::new(r.range(150, 1500), "inject", &[r.below(2) as i64, 10, r.below(64) as i64, r.below(2) as i64]));
                }
            }
            // bit-flip / truncation fans of genuine application records
            if r.chance(60) {
                let stride = if tier == Tier::Thorough { *r.pick(&[1i64, 3, 7]) } else { *r.pick(&[13i64, 37, 101]) };
                p.faults.push(Rule { from: r.pick(&["A", "B"]).to_string(), class: "DTLS:app".into(), ordinal: r.below(4) as u32, action: Action::Rewrite { name: "bitflip_fan".into(), a: vec![stride, r.below(stride as u64) as i64] } });
            }
            if r.chance(20) {
                p.faults.push(Rule { from: r.pick(&["A", "B"]).to_string(), class: "DTLS:hs:finished".into(), ordinal: 0, action: Action::Rewrite { name: "bitflip_fan".into(), a: vec![29, 3] } });
            }
            if r.chance(30) {
                // an orderly close after the traffic: its close_notify record is subject to the wire rules too
                let side = r.below(2) as i64;
                let at = t0 + 300 + r.below(500);
                p.ops.push(Op::new(at, "close", &[side]));
                if r.chance(50) {
                    // the other application closes too, after (or while) the first close_notify arrives
                    p.ops.push(Op::new(at + r.below(120), "close", &[1 - side]));
                }
            }
            p.heal_at_ms = 60_000;
        }
    }
    // thread-style interleavings at the end of the handshake (drawn from their own stream, so that every other choice of
    // the plan stays what it was): in 15 % of the C03 / C11 runs each side has an eager sender (polls send() from the
    // start) and the handshake task is descheduled at rustrtc's named preemption points for 0.6 / 2 / 20 virtual ms
    if prop == "C03" || prop == "C11" {
        let mut rs = Rng::new(mix(mix(seed, idx), 0x7072_6565_6d70_74));
        if rs.chance(15) {
            p.knobs.insert("eager".into(), 1);
            p.knobs.insert("preempt_pct".into(), *rs.pick(&[50i64, 100]));
            p.knobs.insert("preempt_us".into(), *rs.pick(&[600i64, 2000, 20_000]));
            p.knobs.insert("preempt_only".into(), rs.below(3) as i64);
        }
    }
    p
}

pub fn budget(prop: &str, tier: Tier) -> u64 {
    let ns = c11_singles().len() as u64;
    match (prop, tier) {
        ("C11", Tier::Quick) => ns + 1500 + 24_000,
        ("C11", Tier::Thorough) => ns + ns * ns + 600_000,
        ("C02", Tier::Quick) => 550 + 16_000,
        ("C02", Tier::Thorough) => 550 + 400_000,
        ("C03", Tier::Quick) => 16_000,
        (_, _) => 150_000,
    }
}
