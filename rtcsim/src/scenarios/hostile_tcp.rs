//! Scenario `hostile_tcp` (C07, second scenario): hostile bytes on ICE-TCP streams (RFC 4571 framing).
//! World: victim PeerConnection B (10.0.0.2, WebRtc mode, data channel [+ audio], TCP-only with a passive listener
//! from tcp_port_range - knob shared = 1: the process-wide single shared port with demultiplexing by ufrag), its
//! genuine peer A (10.0.0.1, TCP-only active offerer) and an attacker host M (10.0.0.66) that opens its own TCP
//! connections to B's listener and writes what plan.ops say. Genuine traffic is never touched.
//! plan.ops: kind "tcp" a = [phase, shape, n, seed, end]
//!   phase 1 = as soon as B's listener exists (races gathering / checks / DTLS), 2 = both ends Connected
//!   shape 0 n frames of length 0; 1 frames of length 1; 2 one frame announcing 65535 with a full body (random /
//!         STUN-looking / DTLS-looking / RTP-looking first byte by seed); 3 a frame announcing L in {65535, 1500, 100, 2}
//!         with a shorter body; 4 the 2-byte prefix split over two segments, body later; 5 only one prefix byte; 6 garbage
//!         without framing (1..6000 bytes); 7 a well-formed STUN Binding request frame with a USERNAME that names B's
//!         ufrag / a stranger's ufrag / none, without MESSAGE-INTEGRITY, optionally followed by garbage frames; 8 n
//!         connections that send one byte each and stay open; 9 n well-formed frames of random content back to back
//!   end   0 stay open, 1 FIN, 2 RST
//! Probe-only knobs (never generated; for hand-written plans): pc_tcp / pc_tcp_a = the ICE-TCP lattice value of the victim /
//! of the genuine offerer (default 1 = TCP-only), shape 10 = a connection that sends nothing.
//! Oracles: C07.panic (panic hook), C07.hang (settle step over the wall budget while burning CPU), C07.alloc (bytes
//! requested in the input's settle window <= 64 x input bytes + 64 KiB + 72 KiB per opened connection + 2 KiB per complete frame above twice the idle window just before,
//! confirmed by a second delivery; any single request above the whole allowance), C07.alive (afterwards A and B are
//! Connected and a data-channel round trip succeeds).
use super::Tier;
use crate::plan::*;
use crate::rig_pc::{negotiate, PcKnobs, Peer};
use crate::sim::Ctx;
use rustrtc::transports::sctp::DataChannelEvent;
use rustrtc::verif_hooks as vh;
use std::net::SocketAddr;
use std::time::Duration;
use tokio::io::AsyncWriteExt;

const SHAPES: i64 = 10;

pub fn budget(_prop: &str, tier: Tier) -> u64 {
    match tier {
        Tier::Quick => 600,
        Tier::Thorough => 20_000,
    }
}

pub fn generate(prop: &str, seed: u64, idx: u64, _tier: Tier) -> Plan {
    let mut r = Rng::new(mix(mix(seed, idx), fnv(FNV0, prop.as_bytes()) ^ 0x7463_70));
    let mut p = Plan { prop: prop.into(), scenario: "hostile_tcp".into(), seed: r.next(), ..Default::default() };
    p.latency_us = [r.range(200, 20_000), r.range(200, 20_000)];
    p.sched = Sched { rng_seed: r.next(), defer_pct: if r.chance(60) { 0 } else { r.range(1, 30) as u8 } };
    p.heal_at_ms = 0;
    // systematic core: every shape x phase x end x listener kind once, then swarm
    let core = (SHAPES * 2 * 3 * 2) as u64;
    let (shared, ops): (i64, Vec<[i64; 5]>) = if idx < core {
        let i = idx as i64;
        let (shape, phase, end, shared) = (i % SHAPES, 1 + (i / SHAPES) % 2, (i / (SHAPES * 2)) % 3, (i / (SHAPES * 6)) % 2);
        (shared, vec![[phase, shape, *r.pick(&[1i64, 3, 200]), r.below(1 << 30) as i64, end]])
    } else {
        let n = if r.chance(7) { 0 } else { r.range(1, 5) };
        (r.below(2) as i64, (0..n).map(|_| [r.range(1, 2) as i64, r.below(SHAPES as u64) as i64, *r.pick(&[1i64, 2, 5, 50, 400]), r.below(1 << 30) as i64, r.below(3) as i64]).collect())
    };
    for (i, a) in ops.iter().enumerate() {
        p.ops.push(Op::new(i as u64 * r.range(0, 40), "tcp", a));
    }
    p.knobs.insert("shared".into(), shared);
    p.knobs.insert("mix".into(), *r.pick(&[0i64, 3]));
    // what a TCP connection may do to the byte stream anyway
    p.knobs.insert("tcp_mss".into(), *r.pick(&[0i64, 0, 1448, 100, 7]));
    p.knobs.insert("tcp_recut_pct".into(), *r.pick(&[0i64, 20, 100]));
    p.knobs.insert("tcp_gap_us".into(), *r.pick(&[0i64, 1, 5000]));
    p.knobs.insert("tcp_short_read_pct".into(), *r.pick(&[0i64, 30]));
    p
}

fn hostile_bytes(shape: i64, n: i64, seed: u64, b_ufrag: &str) -> Vec<Vec<u8>> {
    // a list of writes (each becomes at least one segment; a pause of 2 ms between them)
    let mut r = Rng::new(seed);
    let n = n.clamp(1, 400) as usize;
    let frame = |body: &[u8]| {
        let mut v = (body.len() as u16).to_be_bytes().to_vec();
        v.extend_from_slice(body);
        v
    };
    let mut rnd = |len: usize, first: Option<u8>| {
        let mut v = vec![0u8; len];
        r.fill(&mut v);
        if let (Some(f), Some(x)) = (first, v.first_mut()) {
            *x = f;
        }
        v
    };
    match shape {
        0 => vec![[0u8, 0].repeat(n)],
        1 => vec![(0..n).flat_map(|i| vec![0u8, 1, [0u8, 1, 22, 128, 200, 255][i % 6]]).collect()],
        2 => {
            let first = [None, Some(0u8), Some(1), Some(22), Some(23), Some(128), Some(200)][(seed % 7) as usize];
            let mut v = vec![0xffu8, 0xff];
            v.extend(rnd(65535, first));
            vec![v]
        }
        3 => {
            let l = [65535usize, 1500, 100, 2][(seed % 4) as usize];
            let have = (seed / 4) as usize % l;
            let mut v = (l as u16).to_be_bytes().to_vec();
            v.extend(rnd(have, Some([0u8, 22, 128][(seed % 3) as usize])));
            vec![v]
        }
        4 => {
            let body = rnd(20 + (seed % 200) as usize, Some(0));
            let f = frame(&body);
            vec![f[..1].to_vec(), f[1..2].to_vec(), f[2..].to_vec()]
        }
        5 => vec![vec![(seed % 256) as u8]],
        6 => vec![rnd(1 + (seed % 6000) as usize, None)],
        7 => {
            // STUN Binding request: type 0x0001, magic cookie, USERNAME attribute
            let user = match seed % 3 {
                0 => format!("{b_ufrag}:mmmm"),
                1 => "nobody:mmmm".to_string(),
                _ => String::new(),
            };
            let mut attrs = Vec::new();
            if !user.is_empty() {
                attrs.extend_from_slice(&0x0006u16.to_be_bytes());
                attrs.extend_from_slice(&(user.len() as u16).to_be_bytes());
                attrs.extend_from_slice(user.as_bytes());
                while attrs.len() % 4 != 0 {
                    attrs.push(0);
                }
            }
            let mut m = vec![0u8, 1];
            m.extend_from_slice(&(attrs.len() as u16).to_be_bytes());
            m.extend_from_slice(&0x2112A442u32.to_be_bytes());
            m.extend(rnd(12, None));
            m.extend(attrs);
            let mut out = vec![frame(&m)];
            for _ in 0..(n.min(20)) {
                out.push(frame(&rnd(1 + (seed % 300) as usize, None)));
            }
            out
        }
        9 => vec![(0..n).flat_map(|i| frame(&rnd(1 + (i * 97 + seed as usize) % 1400, None))).collect()],
        10 => vec![], // the connection alone, not a byte
        _ => vec![vec![0]],
    }
}

/// bytes the allocator may be asked for on behalf of one hostile input: 64 per input byte + 64 KiB, plus 72 KiB per
/// connection the input opens - every accepted ICE-TCP connection gets a read-loop task whose state embeds one
/// maximum-size frame buffer (`[0u8; 65_535]` in run_tcp_read_loop), a fixed cost by design, not a reaction to content
fn alloc_limit(len: usize, conns: usize, frames: usize) -> u64 {
    // each complete frame is one packet for the stack (as one datagram is in the UDP worlds, where every datagram has
    // the 64 KiB base to itself): 2 KiB of handling per frame
    64 * len as u64 + 64 * 1024 + conns as u64 * 72 * 1024 + frames as u64 * 2048
}
/// complete RFC 4571 frames in a byte string
fn count_frames(b: &[u8]) -> usize {
    let (mut o, mut n) = (0usize, 0usize);
    while o + 2 <= b.len() {
        let l = u16::from_be_bytes([b[o], b[o + 1]]) as usize;
        if o + 2 + l > b.len() {
            break;
        }
        o += 2 + l;
        n += 1;
    }
    n
}

struct Attack {
    phase: i64,
    shape: i64,
    n: i64,
    seed: u64,
    end: i64,
    at_ms: u64,
}

async fn deliver(ctx: &Ctx, target: SocketAddr, a: &Attack, b_ufrag: &str) -> usize {
    let m_ip = "10.0.0.66".parse().unwrap();
    let writes = hostile_bytes(a.shape, a.n, a.seed, b_ufrag);
    let total: usize = writes.iter().map(|w| w.len()).sum();
    let conns = if a.shape == 8 { a.n.clamp(1, 100) } else { 1 };
    for _ in 0..conns {
        let Ok(raw) = ctx.net.tcp_connect_from(Some(m_ip), target) else { continue };
        let mut s = vh::TcpStream::from_sim(raw.clone());
        let ok = tokio::time::timeout(Duration::from_secs(5), std::future::poll_fn(|cx| rustrtc::verif_hooks::SimTcpStream::poll_connected(&*raw, cx))).await;
        if !matches!(ok, Ok(Ok(()))) {
            ctx.stat("hostile.tcp.connect_failed", 1);
            continue;
        }
        for (i, w) in writes.iter().enumerate() {
            if i > 0 {
                tokio::time::sleep(Duration::from_millis(2)).await;
            }
            if s.write_all(w).await.is_err() {
                ctx.stat("hostile.tcp.write_refused", 1);
                break;
            }
        }
        match a.end {
            1 => {
                let _ = s.shutdown().await;
                KEEP.with(|k| k.borrow_mut().push(s));
            }
            2 => {
                raw.abort();
                drop(s);
            }
            _ => KEEP.with(|k| k.borrow_mut().push(s)),
        }
    }
    total
}
thread_local! { static KEEP: std::cell::RefCell<Vec<vh::TcpStream>> = const { std::cell::RefCell::new(Vec::new()) }; }

/// one hostile input with its idle / input / repeat windows (C07.alloc, C07.hang)
async fn judged(ctx: &Ctx, target: SocketAddr, a: &Attack, b_ufrag: &str) {
    let settle = Duration::from_millis(300);
    let desc = format!("tcp shape={} n={} seed={} end={} phase={}", a.shape, a.n, a.seed, a.end, a.phase);
    // idle window of the same virtual length
    let a0 = crate::alloc_count::allocated();
    let _ = crate::alloc_count::take_max_single();
    tokio::time::sleep(settle).await;
    let a1 = crate::alloc_count::allocated();
    let idle_single = crate::alloc_count::take_max_single();
    crate::sim::set_last_input(&desc);
    ctx.ev(&format!("hostile tcp shape={} end={} phase={}", a.shape, a.end, a.phase), &desc);
    let panics_before = crate::sim::panic_count();
    let ev0 = ctx.sh.lock().unwrap().events;
    let wall = std::time::Instant::now();
    let len = deliver(ctx, target, a, b_ufrag).await;
    tokio::time::sleep(settle).await;
    let took = wall.elapsed();
    let a2 = crate::alloc_count::allocated();
    let single = crate::alloc_count::take_max_single();
    ctx.stat("nontrivial", 1);
    ctx.stat(&format!("hostile.tcp.shape.{}", a.shape), 1);
    ctx.stat(&format!("hostile.phase.{}", a.phase), 1);
    if crate::sim::panic_count() > panics_before {
        return; // the panic is the finding
    }
    if super::hostile::over_budget(took) {
        ctx.violate("C07.hang", format!("settling after {desc} took {:.1} s of wall clock", took.as_secs_f64()));
    }
    let conns = if a.shape == 8 { a.n.clamp(1, 100) as usize } else { 1 };
    // the simulator's own bookkeeping per TCP segment (queue entry, copies of the bytes, two log strings, counters) is
    // part of the reading: 1 KiB per event logged in the window is the harness' share (a 1200-byte input cut into
    // 7-byte segments costs the simulator more than the victim)
    let harness = 1024 * (ctx.sh.lock().unwrap().events - ev0);
    let frames = count_frames(&hostile_bytes(a.shape, a.n, a.seed, b_ufrag).concat());
    let (idle, cost, limit) = (a1 - a0, a2 - a1, alloc_limit(len, conns, frames) + harness);
    if single > limit && single > 2 * idle_single {
        ctx.violate("C07.alloc", format!("a single allocation request of {single} bytes while handling {desc} ({len} hostile bytes, allowance {limit})"));
    } else if cost > 2 * idle + limit + len as u64 * 8 {
        // the harness' own copies of the input (write buffers, segments, rx queue) are part of `cost`: 8 x len on top
        let b0 = crate::alloc_count::allocated();
        deliver(ctx, target, a, b_ufrag).await;
        tokio::time::sleep(settle).await;
        let cost2 = crate::alloc_count::allocated() - b0;
        if cost2 > 2 * idle + limit + len as u64 * 8 {
            ctx.violate("C07.alloc", format!("{cost} and again {cost2} bytes requested while handling {desc} ({len} hostile bytes; idle window {idle}, allowance {limit})"));
        } else {
            ctx.stat("escape.alloc_not_repeatable", 1);
        }
    }
}

pub async fn run(ctx: &Ctx) {
    super::hostile::mark_run_start_cpu();
    KEEP.with(|k| k.borrow_mut().clear());
    ctx.net.install_binder();
    let shared = ctx.plan.knob("shared", 0);
    let k = PcKnobs { mode: 0, mix: ctx.plan.knob("mix", 0), bundle: 0, mux: 0, lite: 0, udpmux: 0, latch: 0, compat: 0, offerer: 0, tcp: if shared == 1 { 4 } else { ctx.plan.knob("pc_tcp", 1) } };
    // knob pc_tcp_a: the genuine offerer's own ICE-TCP setting when it differs from the victim's (0 = ICE-TCP disabled,
    // the library default: A then only has UDP host candidates)
    let ka = PcKnobs { tcp: ctx.plan.knob("pc_tcp_a", k.tcp), ..k.clone() };
    let mut a = Peer::new(ctx, &ka, 0);
    let mut b = Peer::new(ctx, &k, 1);
    a.add_dc(true);
    b.add_dc(true);
    a.add_media(&k);
    let attacks: Vec<Attack> = ctx.plan.ops.iter().filter(|o| o.kind == "tcp").map(|o| Attack { phase: o.arg(0), shape: o.arg(1), n: o.arg(2), seed: o.arg(3) as u64, end: o.arg(4), at_ms: o.at_ms }).collect();
    // phase 1: the attacker watches for B's listener and strikes while the genuine peers negotiate and connect
    let early: Vec<&Attack> = attacks.iter().filter(|x| x.phase == 1).collect();
    let (bpc, bpc2) = (b.pc.clone(), b.pc.clone());
    let find_target = move || bpc.ice_transport().local_candidates().into_iter().find(|c| c.transport == "tcp" && c.address.port() != 9).map(|c| c.address);
    let early_fut = async {
        if early.is_empty() {
            return;
        }
        let target = loop {
            if let Some(t) = find_target() {
                break t;
            }
            tokio::time::sleep(Duration::from_millis(1)).await;
        };
        let ufrag = bpc2.ice_transport().local_parameters().username_fragment.clone();
        for x in early {
            tokio::time::sleep(Duration::from_millis(x.at_ms)).await;
            judged(ctx, target, x, &ufrag).await;
        }
    };
    let neg_fut = async {
        let r = negotiate(&mut a, &mut b, &k, ctx).await;
        if let Err(e) = &r {
            ctx.ev("negotiation failed", e);
        }
        r.is_ok()
    };
    // both futures borrow a / b: run them on this task, interleaved
    // both run on this task, interleaved (the early attacker only holds clones of B's handle)
    let (neg_ok, _) = tokio::join!(neg_fut, early_fut);
    let connected = neg_ok
        && tokio::time::timeout(Duration::from_secs(130), async { a.pc.wait_for_connected().await.is_ok() && b.pc.wait_for_connected().await.is_ok() }).await.unwrap_or(false);
    if connected {
        ctx.ev("connected both", "");
    }
    // phase 2
    if let Some(target) = b.pc.ice_transport().local_candidates().into_iter().find(|c| c.transport == "tcp" && c.address.port() != 9).map(|c| c.address) {
        let ufrag = b.pc.ice_transport().local_parameters().username_fragment.clone();
        for x in attacks.iter().filter(|x| x.phase != 1) {
            tokio::time::sleep(Duration::from_millis(x.at_ms)).await;
            judged(ctx, target, x, &ufrag).await;
        }
    } else if !attacks.is_empty() {
        ctx.violate("HARNESS.hostile_tcp", "the victim never gathered a TCP listener".into());
    }
    // C07.alive: the genuine pair is connected and a data-channel round trip works (a panic is its own finding)
    crate::sim::set_last_input("");
    if crate::sim::panic_count() == 0 {
        if !connected {
            ctx.violate("C07.alive", format!("the genuine ICE-TCP pair did not connect (negotiation ok: {neg_ok}) with {} hostile TCP input(s) around", attacks.len()));
        } else if let (Some(da), Some(db)) = (a.dc.clone(), b.dc.clone()) {
            let pa = a.pc.clone();
            let r = tokio::time::timeout(Duration::from_secs(60), async {
                while da.state.load(std::sync::atomic::Ordering::SeqCst) != rustrtc::DataChannelState::Open as usize {
                    tokio::time::sleep(Duration::from_millis(10)).await;
                }
                pa.send_data(da.id, b"PING after hostile tcp").await.map_err(|e| e.to_string())?;
                loop {
                    match db.recv().await {
                        Some(DataChannelEvent::Message(m)) if &m[..] == b"PING after hostile tcp" => return Ok::<(), String>(()),
                        Some(_) => {}
                        None => return Err("channel closed".into()),
                    }
                }
            })
            .await;
            match r {
                Ok(Ok(())) => ctx.ev("alive ok", ""),
                other => ctx.violate("C07.alive", format!("data-channel message A>B after the hostile TCP inputs: {other:?}")),
            }
        }
    }
    KEEP.with(|k| k.borrow_mut().clear());
    a.pc.close();
    b.pc.close();
    drop(a);
    drop(b);
    tokio::time::sleep(Duration::from_millis(200)).await;
    ctx.stat("virt_ms", ctx.now_ms());
}
