//! Scenario `hostile` (C07, the part deterministic simulation decides): hostile and mutated input
//! fed to LIVE endpoints in every connection phase. Genuine traffic is never harmed: every mutant
//! is delivered in addition to the genuine datagram (after it, or - `pos` = 1 - while the genuine
//! one is held back by the on-path party for a few milliseconds and released afterwards).
//!
//! knob rig: 0 layer rig IceConn->DTLS->SCTP->DataChannel, 1 PeerConnection pair WebRtc (dc+audio+video),
//!           2 PeerConnection pair plain RTP (audio+video, optional rewrite bridge to a third PC), 3 signaling text.
//! Ops (rigs 0-2), all `a` = [victim (0 = A, 1 = B), phase, class, ordinal, pos, family, seed, count, src]:
//!   fan       mutants (family: hostile_mut::FAMILIES) of the `ordinal`-th genuine datagram of `class`
//!             (CLASSES index) sent to the victim during `phase`
//!   sctp_mut  the same trigger, but the application record is opened with the session keys, the SCTP packet
//!             inside is mutated (family 0-7 as above on the plaintext, 8+v = generated chunk shape v), CRC32c
//!             fixed, sealed with a fresh record sequence number and delivered as if from the peer
//!   garbage   family = first-byte class, random body; src 0 = third host M, 1 = the peer's address
//!   gen       family = 100*proto + variant (proto 0 DTLS, 1 STUN/TURN, 2 RTP, 3 RTCP): generated hostile packets
//!   class -1  = no wire trigger: the op fires `at_ms` after the phase was entered
//! Phases: 0 pre-handshake, 1 handshake in progress, 2 established, 3 closing (close() called).
//! Rig 3 ops: sdp_mut, see hostile_sdp.rs.
use super::hostile_gen::*;
use super::hostile_mut::*;
use super::Tier;
use crate::monitor::{dtls_records, open_record, parse_sctp, seal_record, KeySrc, StdMonitor};
use crate::net::{addr, Monitor, Shared};
use crate::plan::*;
use crate::sim::Ctx;
use rustrtc::transports::dtls::DtlsState;
use std::collections::{BTreeMap, VecDeque};
use std::net::{IpAddr, SocketAddr};
use std::sync::{Arc, Mutex};
use std::time::Duration;

include!("hostile_rig0.rs");
include!("hostile_pc.rs");
include!("hostile_sdp.rs");
include!("hostile_plan.rs");

pub const CLASSES: &[&str] = &[
    "any",
    "DTLS:hs:client_hello",
    "DTLS:hs:hello_verify_request",
    "DTLS:hs:server_hello",
    "DTLS:hs:certificate",
    "DTLS:hs:server_key_exchange",
    "DTLS:hs:server_hello_done",
    "DTLS:hs:client_key_exchange",
    "DTLS:ccs",
    "DTLS:hs:finished",
    "DTLS:app",
    "DTLS:alert",
    "SCTP:INIT",
    "SCTP:INIT_ACK",
    "SCTP:COOKIE_ECHO",
    "SCTP:COOKIE_ACK",
    "SCTP:DATA",
    "SCTP:SACK",
    "SCTP:HB",
    "SCTP:HB_ACK",
    "SCTP:SHUTDOWN",
    "SCTP:SHUTDOWN_ACK",
    "SCTP:ABORT",
    "SCTP:RECONFIG",
    "SCTP:FWD_TSN",
    "STUN:req",
    "STUN:resp",
    "STUN:ind",
    "RTP",
    "RTCP",
];
fn class_idx(tok: &str) -> Option<usize> {
    CLASSES.iter().position(|c| *c == tok)
}
pub fn class_name(i: i64) -> &'static str {
    if i < 0 { "timed" } else { CLASSES.get(i as usize).copied().unwrap_or("?") }
}

const PH_PRE: i64 = 0;
const PH_HS: i64 = 1;
const PH_EST: i64 = 2;
const PH_CLOSING: i64 = 3;
/// the genuine exchange of C07.alive is running: no op fires
const PH_PROBE: i64 = 4;

/// allocation allowance per hostile input: 64 bytes per input byte + 64 KiB
fn alloc_limit(len: usize) -> u64 {
    64 * len as u64 + 64 * 1024
}
/// wall-clock budget of one settle step (harness-only real clock, flags only)
const SETTLE_WALL_BUDGET: Duration = Duration::from_secs(5);

// CPU time of this thread in ms (Linux: utime + stime of /proc/thread-self/stat, 10 ms ticks). The wall clock alone
// would turn a loaded machine into "hangs"; a step that really loops burns CPU, one that merely waits for a core does
// not. Read once at the start of every run and again only when a step's wall time is over the budget; never logged.
thread_local! { static CPU_AT_RUN_START: std::cell::Cell<u64> = const { std::cell::Cell::new(0) }; }
pub(crate) fn thread_cpu_ms() -> u64 {
    let Ok(s) = std::fs::read_to_string("/proc/thread-self/stat") else { return u64::MAX / 4 };
    // fields after the ")" that closes comm: state is #3, utime #14, stime #15
    let Some(rest) = s.rsplit_once(')').map(|x| x.1) else { return u64::MAX / 4 };
    let f: Vec<&str> = rest.split_whitespace().collect();
    let (u, st) = (f.get(11).and_then(|x| x.parse::<u64>().ok()), f.get(12).and_then(|x| x.parse::<u64>().ok()));
    match (u, st) {
        (Some(u), Some(st)) => (u + st) * 10,
        _ => u64::MAX / 4,
    }
}
pub(crate) fn mark_run_start_cpu() {
    CPU_AT_RUN_START.with(|c| c.set(thread_cpu_ms()));
}
/// true when the wall time of a step is over the budget AND this run has burnt at least half the budget of CPU time
/// since it started (a whole run normally costs a few ms of CPU)
pub(crate) fn over_budget(wall: Duration) -> bool {
    if wall <= SETTLE_WALL_BUDGET {
        return false;
    }
    let used = thread_cpu_ms().saturating_sub(CPU_AT_RUN_START.with(|c| c.get()));
    used >= SETTLE_WALL_BUDGET.as_millis() as u64 / 2
}

#[derive(Clone, Debug)]
struct HOp {
    kind: String,
    victim: usize,
    phase: i64,
    class: i64,
    ordinal: u32,
    pos: i64,
    family: i64,
    seed: u64,
    count: usize,
    src: i64,
    at_ms: u64,
    fired: bool,
}

fn parse_ops(plan: &Plan) -> Vec<HOp> {
    plan.ops
        .iter()
        .enumerate()
        .filter(|(_, o)| matches!(o.kind.as_str(), "fan" | "sctp_mut" | "garbage" | "gen"))
        .map(|(_, o)| HOp {
            kind: o.kind.clone(),
            victim: (o.arg(0) & 1) as usize,
            phase: o.arg(1).clamp(0, 3),
            class: o.arg(2).clamp(-1, CLASSES.len() as i64 - 1),
            ordinal: o.arg(3).clamp(0, 1_000_000) as u32,
            pos: o.arg(4) & 1,
            family: o.arg(5).max(0),
            seed: o.arg(6) as u64,
            count: o.arg(7).clamp(1, 64) as usize,
            src: o.arg(8) & 1,
            at_ms: o.at_ms.min(5_000),
            fired: false,
        })
        .collect()
}

pub fn hold_token(o: &[i64]) -> String {
    format!("HOLD:v{}p{}c{}o{}", o[0] & 1, o[1], o[2], o[3])
}

struct Job {
    ops: Vec<usize>,
    from: SocketAddr,
    to: SocketAddr,
    data: Vec<u8>,
    held: bool,
    class: i64,
}

#[derive(Default)]
struct Hub {
    phase: i64,
    ops: Vec<HOp>,
    counts: BTreeMap<(usize, i64, usize), u32>,
    jobs: VecDeque<Job>,
    /// last (peer address, victim address) seen on a genuine datagram towards each victim
    last_pair: [Option<(SocketAddr, SocketAddr)>; 2],
    rtp: [RtpCtx; 2],
    sctp: [SctpCtx; 2],
    tid: [[u8; 12]; 2],
    username: [Vec<u8>; 2],
    genuine_to: [u64; 2],
    ips: [Option<IpAddr>; 2],
    /// RTP payload types that are video (rig knows them from its own configuration)
    video_pts: Vec<u8>,
    /// datagrams an endpoint sent to the attacker host M (answers to hostile input)
    to_attacker: u64,
    /// RTP datagrams leaving host C (the bridge target of rig 2)
    from_c: u64,
}

struct HMon {
    inner: StdMonitor,
    hub: Arc<Mutex<Hub>>,
    wake: Arc<tokio::sync::Notify>,
    keys: crate::monitor::KeyTable,
}

/// open every epoch>=1 application record of `d` sent by `from`: (plaintext, key, iv)
fn open_app(keys: &crate::monitor::KeyTable, from: IpAddr, d: &[u8]) -> Vec<(Vec<u8>, Vec<u8>, Vec<u8>, u64)> {
    let mut out = Vec::new();
    let ks: Vec<KeySrc> = keys.lock().unwrap().iter().filter(|k| k.host == from).cloned().collect();
    for k in ks {
        if let DtlsState::Connected(c, _) = k.dtls.get_state() {
            let cands: Vec<(Vec<u8>, Vec<u8>)> = if k.role_unknown {
                vec![(c.keys.client_write_key.clone(), c.keys.client_write_iv.clone()), (c.keys.server_write_key.clone(), c.keys.server_write_iv.clone())]
            } else if k.is_client {
                vec![(c.keys.client_write_key.clone(), c.keys.client_write_iv.clone())]
            } else {
                vec![(c.keys.server_write_key.clone(), c.keys.server_write_iv.clone())]
            };
            for r in dtls_records(d).iter().filter(|r| r.ct == 23 && r.epoch > 0) {
                for (key, iv) in cands.iter() {
                    if let Some(p) = open_record(key, iv, r) {
                        out.push((p, key.clone(), iv.clone(), r.seq));
                        break;
                    }
                }
            }
        }
        if !out.is_empty() {
            break;
        }
    }
    out
}

impl Monitor for HMon {
    fn classify(&mut self, from: SocketAddr, to: SocketAddr, data: &[u8], sh: &mut Shared) -> Vec<String> {
        let mut toks = self.inner.classify(from, to, data, sh);
        if sh.cur_injected {
            return toks;
        }
        let mut hub = self.hub.lock().unwrap();
        if to.ip() == IpAddr::from([10, 0, 0, 66]) {
            hub.to_attacker += 1;
        }
        if from.ip() == IpAddr::from([10, 0, 0, 3]) && proto_of(data) == Proto::Rtp {
            hub.from_c += 1;
        }
        let Some(victim) = (0..2).find(|v| hub.ips[*v] == Some(to.ip())) else { return toks };
        if hub.ips[1 - victim] != Some(from.ip()) {
            return toks;
        }
        hub.genuine_to[victim] += 1;
        hub.last_pair[victim] = Some((from, to));
        // learn stream parameters for the generators
        match proto_of(data) {
            Proto::Rtp if data.len() >= 12 => {
                let pt = data[1] & 0x7f;
                let ssrc = u32::from_be_bytes([data[8], data[9], data[10], data[11]]);
                let is_video = hub.video_pts.contains(&pt);
                let c = &mut hub.rtp[victim];
                if is_video {
                    c.video_pt = pt;
                    c.video_ssrc = ssrc;
                } else {
                    c.pt = pt;
                    c.ssrc = ssrc;
                }
                c.seq = u16::from_be_bytes([data[2], data[3]]);
                c.ts = u32::from_be_bytes([data[4], data[5], data[6], data[7]]);
            }
            Proto::Stun if data.len() >= 20 => {
                hub.tid[victim].copy_from_slice(&data[8..20]);
                let mut p = 20;
                while p + 4 <= data.len() {
                    let (t, l) = (u16::from_be_bytes([data[p], data[p + 1]]), u16::from_be_bytes([data[p + 2], data[p + 3]]) as usize);
                    if t == 0x0006 && p + 4 + l <= data.len() {
                        hub.username[victim] = data[p + 4..p + 4 + l].to_vec();
                    }
                    p += 4 + ((l + 3) & !3);
                }
            }
            Proto::Dtls => {
                if toks.iter().any(|t| t == "SCTP") {
                    for (p, _, _, _) in open_app(&self.keys, from.ip(), data) {
                        if let Some(pk) = parse_sctp(&p) {
                            let c = &mut hub.sctp[victim];
                            c.src_port = pk.src_port;
                            c.dst_port = pk.dst_port;
                            if pk.vtag != 0 {
                                c.vtag = pk.vtag;
                            }
                            for ch in pk.chunks.iter() {
                                if ch.ty == 0 && ch.value.len() >= 4 {
                                    c.tsn = u32::from_be_bytes([ch.value[0], ch.value[1], ch.value[2], ch.value[3]]);
                                    c.tsn_known = true;
                                }
                                if (ch.ty == 1 || ch.ty == 2) && ch.value.len() >= 16 && !c.tsn_known {
                                    // initial TSN - 1: everything at or below it is "already received" for the victim
                                    c.tsn = u32::from_be_bytes([ch.value[12], ch.value[13], ch.value[14], ch.value[15]]).wrapping_sub(1);
                                    c.tsn_known = true;
                                }
                                if ch.ty == 3 && ch.value.len() >= 4 {
                                    c.cum_ack = u32::from_be_bytes([ch.value[0], ch.value[1], ch.value[2], ch.value[3]]);
                                }
                            }
                        }
                    }
                }
            }
            _ => {}
        }
        // triggers
        let phase = hub.phase;
        let mut hit: Vec<usize> = Vec::new();
        let mut hit_class = -1i64;
        let mut seen: Vec<usize> = Vec::new();
        for t in toks.iter() {
            let Some(ci) = class_idx(t) else { continue };
            if seen.contains(&ci) {
                continue;
            }
            seen.push(ci);
            let e = hub.counts.entry((victim, phase, ci)).or_insert(0);
            let ord = *e;
            *e += 1;
            for (i, o) in hub.ops.iter().enumerate() {
                if !o.fired && o.victim == victim && o.phase == phase && o.class == ci as i64 && o.ordinal == ord && !hit.contains(&i) {
                    hit.push(i);
                    hit_class = ci as i64;
                }
            }
        }
        if !hit.is_empty() {
            let held = hit.iter().any(|i| hub.ops[*i].pos == 1);
            for i in hit.iter() {
                hub.ops[*i].fired = true;
            }
            if held {
                // one token per holding op so that the plan's Drop rule (hold_token) matches
                for i in hit.iter() {
                    let o = &hub.ops[*i];
                    if o.pos == 1 {
                        toks.push(hold_token(&[o.victim as i64, o.phase, o.class, o.ordinal as i64]));
                    }
                }
            }
            hub.jobs.push_back(Job { ops: hit, from, to, data: data.to_vec(), held, class: hit_class });
            self.wake.notify_one();
        }
        toks
    }
    fn on_deliver(&mut self, from: SocketAddr, to: SocketAddr, data: &[u8], sh: &mut Shared) {
        self.inner.on_deliver(from, to, data, sh);
    }
}

/// One hostile input ready for delivery.
struct Input {
    from: SocketAddr,
    to: SocketAddr,
    bytes: Vec<u8>,
    class: String,
    family: String,
    what: String,
    /// the input may legitimately end / desynchronise the connection (see module doc): not counted against C07.alive
    may_end: bool,
    /// the input contains a cleartext (epoch 0) DTLS handshake / CCS / alert record or is a raced STUN message: it may
    /// legitimately break a handshake that is still in progress, but must not harm an established connection
    hs_plain: bool,
}

pub struct Engine<'a> {
    ctx: &'a Ctx,
    hub: Arc<Mutex<Hub>>,
    wake: Arc<tokio::sync::Notify>,
    /// virtual settle window per input
    win: Duration,
    delivered: u64,
    delivered_in_phase: u64,
    may_end: bool,
    raced: bool,
    /// rig 2: plain RTP endpoints accept bare STUN probes by design (ice/mod.rs handle_packet): a STUN request may
    /// legitimately add a remote candidate / move the media destination, so it is not counted against C07.alive
    plain_rtp: bool,
    seq_ctr: u64,
    /// per-input probe hook: returns a counter that advances when the victim's stack accepted / looked at input
    probes: Vec<(String, Box<dyn Fn() -> u64 + 'a>)>,
    /// drained-counter of the victim sockets (rig 0: IceConn::rx_packets), per victim
    rx_counters: [Option<Box<dyn Fn() -> u64 + 'a>>; 2],
}

impl<'a> Engine<'a> {
    fn new(ctx: &'a Ctx, ips: [&str; 2]) -> Engine<'a> {
        let hub = Arc::new(Mutex::new(Hub { ops: parse_ops(&ctx.plan), ..Default::default() }));
        {
            let mut h = hub.lock().unwrap();
            h.ips = [Some(ips[0].parse().unwrap()), Some(ips[1].parse().unwrap())];
        }
        let wake = Arc::new(tokio::sync::Notify::new());
        let m = HMon { inner: StdMonitor::new(ctx.keys.clone()), hub: hub.clone(), wake: wake.clone(), keys: ctx.keys.clone() };
        ctx.net.set_monitor(Box::new(m));
        let lat = ctx.plan.latency_us[0].max(ctx.plan.latency_us[1]).max(1);
        Engine { ctx, hub, wake, win: Duration::from_millis(lat.div_ceil(1000) + 1), delivered: 0, delivered_in_phase: 0, may_end: false, raced: false, plain_rtp: false, seq_ctr: 0, probes: Vec::new(), rx_counters: [None, None] }
    }

    fn set_phase(&self, p: i64) {
        self.hub.lock().unwrap().phase = p;
        self.ctx.ev(&format!("phase {p}"), "");
    }
    fn phase(&self) -> i64 {
        self.hub.lock().unwrap().phase
    }

    /// Deliver one hostile input with the per-input oracles around it.
    async fn deliver(&mut self, inp: Input) {
        let ctx = self.ctx;
        let victim = (0..2).find(|v| self.hub.lock().unwrap().ips[*v] == Some(inp.to.ip())).unwrap_or(0);
        // idle window just before (baseline)
        let g0 = self.hub.lock().unwrap().genuine_to[victim];
        let a0 = crate::alloc_count::allocated();
        let _ = crate::alloc_count::take_max_single();
        tokio::time::sleep(self.win).await;
        let a1 = crate::alloc_count::allocated();
        let idle_single = crate::alloc_count::take_max_single();
        let g1 = self.hub.lock().unwrap().genuine_to[victim];
        let p0: Vec<u64> = self.probes.iter().map(|(_, f)| f()).collect();
        let rx0 = self.rx_counters[victim].as_ref().map(|f| f());
        let note = format!("class={} mutation={} [{}] len={} first48={} to={} from={}", inp.class, inp.family, inp.what, inp.bytes.len(), hex48(&inp.bytes), inp.to, inp.from);
        crate::sim::set_last_input(&note);
        ctx.ev(&format!("HOSTILE {} {} phase{}", inp.class, inp.family, self.phase()), &note);
        let panics0 = crate::sim::panic_count();
        ctx.net.inject(inp.from, inp.to, &inp.bytes);
        let w0 = std::time::Instant::now();
        tokio::time::sleep(self.win).await;
        let wall = w0.elapsed();
        let a2 = crate::alloc_count::allocated();
        let input_single = crate::alloc_count::take_max_single();
        let g2 = self.hub.lock().unwrap().genuine_to[victim];
        self.delivered += 1;
        self.delivered_in_phase += 1;
        if inp.may_end || (inp.hs_plain && self.phase() <= PH_HS) || (self.plain_rtp && inp.bytes.first().map(|b| *b < 2).unwrap_or(false)) {
            self.may_end = true;
        }
        {
            let mut sh = ctx.sh.lock().unwrap();
            sh.stat("hostile.total", 1);
            sh.stat(&format!("hostile.class.{}", inp.class), 1);
            sh.stat(&format!("hostile.family.{}", inp.family), 1);
            sh.stat(&format!("hostile.phase.{}", self.phase()), 1);
            sh.stat("hostile.bytes", inp.bytes.len() as u64);
        }
        for (i, (name, f)) in self.probes.iter().enumerate() {
            if f() > p0[i] {
                ctx.stat(&format!("probe.{name}"), 1);
            }
        }
        // C07.hang (in-run part): the settle step finished (we are here), but did it take absurdly long?
        // (a panic in the window is its own finding; symbolising its backtrace costs seconds of CPU)
        if crate::sim::panic_count() == panics0 && over_budget(wall) {
            ctx.violate("C07.hang", format!("processing after one hostile input kept the run busy for more than {} s of wall-clock time before the virtual clock could advance; input: {note}", SETTLE_WALL_BUDGET.as_secs()));
        }
        // queue drained: the victim's socket consumer counted the datagram (rig 0)
        if let (Some(r0), Some(f)) = (rx0, self.rx_counters[victim].as_ref()) {
            if !inp.bytes.is_empty() && crate::sim::panic_count() == panics0 && f() <= r0 {
                ctx.violate("C07.hang", format!("the victim's receive path did not consume the hostile datagram within the settle window (socket queue not drained); input: {note}"));
            }
        }
        // C07.alloc: bytes allocated in the window of the input, above the idle window just before
        let base = a1 - a0;
        // (the idle window is charged twice: a window that was not idle - workload, timers - is as noisy as it is large)
        let used = (a2 - a1).saturating_sub(2 * base);
        let limit = alloc_limit(inp.bytes.len());
        if crate::sim::panic_count() != panics0 {
            // the panic hook symbolises a backtrace (tens of MB of harness allocation); the panic itself is the finding
            ctx.stat("escape.alloc_window_had_panic", 1);
        } else {
            ctx.sh.lock().unwrap().stat_max("alloc.max_excess_per_input", used);
            for (name, v) in [("input", input_single), ("idle", idle_single)] {
                for (lbl, th) in [("64k", 64u64 << 10), ("256k", 256 << 10), ("1m", 1 << 20), ("4m", 4 << 20)] {
                    if v > th {
                        ctx.stat(&format!("alloc.single_request_gt_{lbl}.{name}_window"), 1);
                    }
                }
            }
            if input_single > limit && input_single > 2 * idle_single {
                // One request larger than the whole allowance: no noise argument applies to a single allocation (the idle
                // window of the same length just before saw nothing comparable), so this needs no second measurement -
                // which a buffer that is sized once from an attacker-controlled field and then kept would escape.
                ctx.violate("C07.alloc", format!("a single allocation request of {input_single} bytes (allowance for the whole input: 64*len + 64 KiB = {limit} bytes; largest request in the idle window just before: {idle_single}) was made while one hostile input of {} bytes was processed; input: {note}", inp.bytes.len()));
            } else if used > limit {
                // The window may have contained work of the endpoint's own (timers, handshake steps) that the idle window
                // did not: the same input is delivered once more with a fresh idle window, and only an excess that shows
                // again is attributed to the input.
                let b0 = crate::alloc_count::allocated();
                tokio::time::sleep(self.win).await;
                let b1 = crate::alloc_count::allocated();
                ctx.ev(&format!("HOSTILE-REPEAT {} {}", inp.class, inp.family), "same input again (allocation re-measurement)");
                ctx.net.inject(inp.from, inp.to, &inp.bytes);
                tokio::time::sleep(self.win).await;
                let b2 = crate::alloc_count::allocated();
                let used2 = (b2 - b1).saturating_sub(2 * (b1 - b0));
                if crate::sim::panic_count() != panics0 {
                    ctx.stat("escape.alloc_window_had_panic", 1);
                } else if used2 > limit {
                    ctx.violate("C07.alloc", format!("more than 64*len + 64 KiB = {limit} bytes were allocated while one hostile input of {} bytes was processed (above the idle window just before; measured twice with the same input); input: {note}", inp.bytes.len()));
                } else {
                    ctx.stat("escape.alloc_excess_not_reproduced_on_repeat", 1);
                }
            }
        }
        let _ = (g0, g1, g2);
    }

    /// Build the inputs of one op for a trigger datagram (or none for timed ops).
    fn build(&mut self, o: &HOp, trig: Option<(&[u8], SocketAddr, SocketAddr)>) -> Vec<Input> {
        let hub = self.hub.lock().unwrap();
        let Some((peer, vaddr)) = trig.map(|t| (t.1, t.2)).or(hub.last_pair[o.victim]) else { return Vec::new() };
        let from = if o.src == 0 && (o.kind == "garbage" || o.kind == "gen") { addr("M", 6666) } else { peer };
        let mut out = Vec::new();
        let mut r = Rng::new(mix(o.seed, 0x686f7374));
        let cls = class_name(o.class).to_string();
        match o.kind.as_str() {
            "fan" => {
                let Some((data, _, _)) = trig else { return out };
                let proto = proto_of(data);
                let epoch0_hs = dtls_records(data).iter().any(|r| r.epoch == 0 && (20..=22).contains(&r.ct));
                for m in fan(proto, data, o.family, o.seed, o.count) {
                    out.push(Input { from: peer, to: vaddr, may_end: false, hs_plain: epoch0_hs || proto == Proto::Stun && o.pos == 1, bytes: m.bytes, class: cls.clone(), family: FAMILIES[o.family.rem_euclid(N_FAMILIES) as usize].to_string(), what: m.what });
                }
            }
            "sctp_mut" => {
                let Some((data, _, _)) = trig else { return out };
                drop(hub);
                let opened = open_app(&self.ctx.keys, peer.ip(), data);
                let hub = self.hub.lock().unwrap();
                for (plain, key, iv, seq) in opened {
                    let muts: Vec<(Mutant, bool, String)> = if o.family < 8 {
                        fan(Proto::Sctp, &plain, o.family, o.seed, o.count).into_iter().map(|m| {
                            let b = sctp_finish(m.bytes);
                            let e = sctp_may_end(&plain, &b);
                            (Mutant { bytes: b, what: m.what }, e, format!("sctp.{}", FAMILIES[o.family as usize]))
                        }).collect()
                    } else {
                        // family 8+v: shape v; from 8+N on the shape advances with every mutant of the op
                        (0..o.count).map(|k| {
                            let v = (o.family - 8) as u64 + if o.family >= 8 + N_SCTP_VARIANTS as i64 { k as u64 } else { 0 };
                            let (m, e) = gen_sctp(v, &mut r, &hub.sctp[o.victim]);
                            (m, e, format!("sctp.gen{}", v % N_SCTP_VARIANTS))
                        }).collect()
                    };
                    for (m, ending, fam) in muts {
                        self.seq_ctr += 1;
                        // a fresh record sequence number the genuine sender will not reach in this run
                        let rec = seal_record(&key, &iv, 23, 1, (seq | (1 << 36)) + self.seq_ctr, &m.bytes);
                        out.push(Input { from: peer, to: vaddr, bytes: rec, class: cls.clone(), family: fam, what: format!("{} | sctp plaintext {} bytes first32={}", m.what, m.bytes.len(), hex48(&m.bytes[..m.bytes.len().min(32)])), may_end: ending, hs_plain: false });
                    }
                    break;
                }
            }
            "garbage" => {
                for _ in 0..o.count {
                    let fb: u8 = match o.family % 8 {
                        0 => r.below(4) as u8,
                        1 => 4 + r.below(16) as u8,
                        2 => 20 + r.below(44) as u8,
                        3 => 64 + r.below(16) as u8,
                        4 => 80 + r.below(48) as u8,
                        5 => 128 + r.below(64) as u8,
                        6 => 192 + r.below(64) as u8,
                        _ => r.next() as u8,
                    };
                    let len = if o.family % 8 == 7 { r.below(2) as usize } else { *r.pick(&[1usize, 2, 3, 4, 8, 11, 12, 13, 19, 20, 21, 24, 25, 28, 60, 200, 1200, 1472, 2047, 2048, 2049, 9000, 65507]) };
                    let mut b = vec![0u8; len];
                    r.fill(&mut b);
                    if len > 0 {
                        b[0] = fb;
                    }
                    // make STUN-looking garbage carry the magic cookie half of the time, DTLS-looking a plausible version
                    if fb < 4 && len >= 20 && r.chance(50) {
                        b[4..8].copy_from_slice(&[0x21, 0x12, 0xa4, 0x42]);
                        if r.chance(50) {
                            let l = (len - 20) as u16;
                            b[2..4].copy_from_slice(&l.to_be_bytes());
                        }
                    }
                    if (20..=25).contains(&fb) && len >= 13 && r.chance(60) {
                        b[1] = 0xfe;
                        b[2] = 0xfd;
                        if r.chance(50) {
                            b[3] = 0;
                            b[4] = r.below(2) as u8;
                            let l = (len - 13) as u16;
                            b[11..13].copy_from_slice(&l.to_be_bytes());
                        }
                    }
                    // a cleartext alert that happens to be close_notify legitimately closes a handshaking endpoint
                    let hs_plain = dtls_records(&b).iter().any(|r| r.epoch == 0 && (20..=22).contains(&r.ct));
                    out.push(Input { from, to: vaddr, bytes: b, class: cls.clone(), family: format!("garbage.b0class{}", o.family % 8), what: format!("random first_byte={fb} len={len}"), may_end: false, hs_plain });
                }
            }
            "gen" => {
                let proto = o.family / 100;
                let v = (o.family % 100) as u64;
                for k in 0..o.count {
                    let m = match proto {
                        0 => gen_dtls(v, &mut r),
                        1 => gen_stun(v, &mut r, &hub.tid[o.victim], &hub.username[o.victim]),
                        2 => gen_rtp(v, &mut r, &hub.rtp[o.victim], k as u16),
                        _ => gen_rtcp(v, &mut r, &hub.rtp[o.victim]),
                    };
                    let hs_plain = dtls_records(&m.bytes).iter().any(|r| r.epoch == 0 && (20..=22).contains(&r.ct));
                    out.push(Input { from, to: vaddr, bytes: m.bytes, class: cls.clone(), family: format!("gen.{}{}", ["dtls", "stun", "rtp", "rtcp"][proto.clamp(0, 3) as usize], v), what: m.what, may_end: false, hs_plain });
                }
            }
            _ => {}
        }
        out
    }

    /// Process every queued job (wire-triggered ops). Returns the number of inputs delivered.
    async fn drain_jobs(&mut self) -> u64 {
        let mut n = 0;
        loop {
            let job = self.hub.lock().unwrap().jobs.pop_front();
            let Some(job) = job else { break };
            let ops: Vec<HOp> = { let h = self.hub.lock().unwrap(); job.ops.iter().map(|i| h.ops[*i].clone()).collect() };
            let mut before = Vec::new();
            let mut after = Vec::new();
            for o in ops.iter() {
                let ins = self.build(o, Some((&job.data, job.from, job.to)));
                if ins.is_empty() {
                    self.ctx.stat("ops_without_input", 1);
                }
                if o.pos == 1 { before.extend(ins) } else { after.extend(ins) }
            }
            if job.held {
                // the on-path party holds the genuine datagram while the victim is still waiting for it
                let plaintext_hs = dtls_records(&job.data).iter().any(|r| r.epoch == 0) || proto_of(&job.data) == Proto::Stun;
                if plaintext_hs && !before.is_empty() {
                    self.raced = true;
                }
                self.ctx.ev(&format!("HOLD {}", class_name(job.class)), &format!("{} mutants first", before.len()));
                for i in before {
                    self.deliver(i).await;
                    n += 1;
                }
                self.ctx.ev(&format!("RELEASE {}", class_name(job.class)), "");
                self.ctx.net.inject(job.from, job.to, &job.data);
                tokio::time::sleep(self.win).await;
            } else {
                after.extend(before);
            }
            for i in after {
                self.deliver(i).await;
                n += 1;
            }
        }
        n
    }

    /// Fire the next timed op (class -1) of `phase`, waiting for its time; false = none left.
    async fn run_timed_one(&mut self, phase: i64, since_ms: u64) -> bool {
        let next = {
            let h = self.hub.lock().unwrap();
            h.ops.iter().enumerate().filter(|(_, o)| !o.fired && o.class < 0 && o.phase == phase).min_by_key(|(i, o)| (o.at_ms, *i)).map(|(i, o)| (i, o.clone()))
        };
        let Some((i, o)) = next else { return false };
        let due = since_ms + o.at_ms;
        if self.ctx.now_ms() < due {
            self.ctx.sleep_until_ms(due).await;
        }
        self.hub.lock().unwrap().ops[i].fired = true;
        let ins = self.build(&o, None);
        if ins.is_empty() {
            self.ctx.stat("ops_without_input", 1);
        }
        for inp in ins {
            self.deliver(inp).await;
        }
        self.drain_jobs().await;
        true
    }
    /// Fire the timed ops (class -1) of the current phase, in time order.
    async fn run_timed(&mut self, phase: i64, since_ms: u64) {
        while self.run_timed_one(phase, since_ms).await {}
    }

    /// Stay in the current phase, serving wire-triggered jobs, until `done()` or `max_ms` of virtual time passed.
    async fn serve<F: FnMut() -> bool>(&mut self, max_ms: u64, mut done: F) -> bool {
        let t_end = self.ctx.now_ms() + max_ms;
        loop {
            self.drain_jobs().await;
            if done() && self.hub.lock().unwrap().jobs.is_empty() {
                return true;
            }
            if self.ctx.now_ms() >= t_end {
                return false;
            }
            let wake = self.wake.clone();
            let _ = tokio::time::timeout(Duration::from_millis(5), wake.notified()).await;
        }
    }

    fn unfired(&self) -> u64 {
        self.hub.lock().unwrap().ops.iter().filter(|o| !o.fired).count() as u64
    }

    fn finish_stats(&self) {
        let ctx = self.ctx;
        ctx.stat("ops_unfired", self.unfired());
        if self.delivered > 0 {
            ctx.stat("nontrivial", 1);
        }
        if self.may_end {
            ctx.stat("escape.input_may_legitimately_end_connection", 1);
        }
        if self.raced {
            ctx.stat("escape.unauthenticated_handshake_raced", 1);
        }
        let now = ctx.now_ms();
        ctx.stat("virt_ms", now);
    }
}

pub async fn run(ctx: &Ctx) {
    mark_run_start_cpu();
    match ctx.plan.knob("rig", 0) {
        0 => run_rig0(ctx).await,
        1 | 2 => run_pc(ctx).await,
        3 => run_sdp(ctx).await,
        other => ctx.violate("HARNESS.scenario", format!("hostile: unknown rig {other}")),
    }
}
