//! Scenario `ice_stun` (C06): two real `IceTransport`s A (10.0.0.1, role = knob `role`) and B
//! (10.0.0.2, the opposite role) on the simulated network, WebRTC mode, UDP host candidates only
//! (knob `mux`=1: A sits behind the single-port shared-UDP mux), plus an attacker host M
//! (10.0.0.66) that puts STUN datagrams on the wire towards A with `SimNet::inject`, from fresh
//! addresses, from B's spoofed address, from the address of a signalled-but-silent candidate of B,
//! or from M with B's port. All attacker bytes are produced by the encoder in this file (own
//! HMAC-SHA1 MESSAGE-INTEGRITY, own table-driven CRC32 FINGERPRINT); every datagram delivered to A
//! is judged by the decoder / verifier in this file, never by rustrtc's.
//!
//! Timeline (all from knobs): t=0 both agents exist and have gathered (A is `New`);
//! `a_start_ms`: A gets B's credentials (+ with `dead`=1 a candidate of B at which nobody listens,
//! so A sits in `Checking` with outstanding transactions); `b_start_ms`: B's real candidate is
//! trickled to A and B is started against A; afterwards both connect and exchange keepalives until
//! `end_ms`. `plan.ops` are the attacker packets (`req` / `resp`), executed not before their `at_ms`.
//!
//! ORACLE FORM (stated as required by the brief): the *invariant* form, sharpened by a local
//! before/after differential. There is no twin pass.
//!  (a) invariants, evaluated after every attacker packet, every 500 ms and at the end, against a
//!      ledger kept by the wire monitor from the datagrams actually *delivered* to A:
//!        I1  every remote-candidate address of A was signalled through the API or is the source of a
//!            delivered request that carried USERNAME "<A-ufrag>:..." and a MESSAGE-INTEGRITY valid
//!            under A's local password ("authenticated request");
//!        I2  A's selected remote address is the destination of a transaction of A for which a
//!            success response with that transaction id was delivered while it could be outstanding,
//!            or the source of an authenticated request;
//!        I3  A is Connected/Completed only if such a matching success response or an authenticated
//!            USE-CANDIDATE request was delivered;
//!        I4  nomination is complete only if (controlled) an authenticated USE-CANDIDATE request or
//!            (controlling) a matching success response to a USE-CANDIDATE transaction of A was delivered.
//!      Genuine B traffic and attacker packets with the right credentials satisfy these by the same
//!      rule, so the escape of Appendix B is built in. A broken invariant is named after the most
//!      recently delivered judged datagram: C06.influence for an unauthenticated request,
//!      C06.response for a response with no outstanding transaction, HARNESS.c06-ledger when no
//!      such datagram was delivered at all (attacker-free control runs).
//!  (b) differential: observables {state, nomination, selected remote address, set of remote
//!      candidate addresses} are sampled immediately before an attacker packet is put on the wire and
//!      a fixed virtual delay after its delivery. If nothing else was delivered to A and no API call
//!      was made on A from 500 ms before the packet until the second sample (the 500 ms cover the
//!      200 ms nomination-grace timers that follow a delivery), then a *forbidden move* (candidate
//!      added, selected remote changed, nomination None->Some, state -> Connected) is
//!      C06.influence for an unauthenticated request and C06.response for a response whose
//!      transaction id is certainly not outstanding (never used by A, already answered, or older than
//!      15 s > every rustrtc transaction lifetime). Responses to possibly-outstanding ids and
//!      authenticated requests are exempt and only counted.
//! Exclusions: TCP candidates, TURN, ICE restarts; the Disconnected state is never entered (B keeps
//! answering keepalives and runs are shorter than the 30 s disconnect threshold).
use super::Tier;
use crate::net::{addr, host_name, Monitor, Shared};
use crate::plan::*;
use crate::sim::Ctx;
use hmac::{Hmac, Mac};
use rustrtc::transports::ice::{IceCandidate, IceRole, IceTransport, IceTransportBuilder, IceTransportState};
use rustrtc::verif_hooks as vh;
use rustrtc::{IceGathererState, RtcConfiguration};
use sha1::Sha1;
use std::collections::{BTreeMap, BTreeSet};
use std::net::SocketAddr;
use std::sync::{Arc, Mutex};
use std::time::Duration;

// ---------------------------------------------------------------------------------------------
// own STUN codec
// ---------------------------------------------------------------------------------------------
const COOKIE: [u8; 4] = [0x21, 0x12, 0xA4, 0x42];
const AT_USERNAME: u16 = 0x0006;
const AT_MI: u16 = 0x0008;
const AT_ERROR: u16 = 0x0009;
const AT_XOR_MAPPED: u16 = 0x0020;
const AT_PRIORITY: u16 = 0x0024;
const AT_USE_CANDIDATE: u16 = 0x0025;
const AT_FINGERPRINT: u16 = 0x8028;
const AT_CONTROLLED: u16 = 0x8029;
const AT_CONTROLLING: u16 = 0x802A;

/// Table-driven CRC-32 (IEEE 802.3, reflected, poly 0xEDB88320).
pub fn crc32(data: &[u8]) -> u32 {
    static TABLE: std::sync::OnceLock<[u32; 256]> = std::sync::OnceLock::new();
    let t = TABLE.get_or_init(|| {
        let mut t = [0u32; 256];
        for i in 0..256u32 {
            let mut c = i;
            for _ in 0..8 {
                c = if c & 1 != 0 { 0xEDB8_8320 ^ (c >> 1) } else { c >> 1 };
            }
            t[i as usize] = c;
        }
        t
    });
    let mut c = !0u32;
    for b in data {
        c = t[((c ^ *b as u32) & 0xff) as usize] ^ (c >> 8);
    }
    !c
}

fn hmac_sha1(key: &[u8], data: &[u8]) -> [u8; 20] {
    let mut mac = <Hmac<Sha1> as hmac::digest::KeyInit>::new_from_slice(key).expect("hmac key");
    mac.update(data);
    let r = mac.finalize().into_bytes();
    let mut o = [0u8; 20];
    o.copy_from_slice(&r);
    o
}

#[derive(Clone, Debug)]
enum MiMode {
    Absent,
    Garbage(Vec<u8>),
    Key(Vec<u8>),
}

fn put_attr(b: &mut Vec<u8>, ty: u16, v: &[u8]) {
    b.extend_from_slice(&ty.to_be_bytes());
    b.extend_from_slice(&(v.len() as u16).to_be_bytes());
    b.extend_from_slice(v);
    while b.len() % 4 != 0 {
        b.push(0);
    }
}
fn set_len(b: &mut [u8], l: usize) {
    b[2..4].copy_from_slice(&(l as u16).to_be_bytes());
}

/// fp: 0 none, 1 valid FINGERPRINT, 2 FINGERPRINT with a wrong value
fn stun_build(msg_type: u16, tx: &[u8; 12], attrs: &[(u16, Vec<u8>)], mi: &MiMode, fp: i64) -> Vec<u8> {
    let mut b = vec![0u8; 20];
    b[0..2].copy_from_slice(&msg_type.to_be_bytes());
    b[4..8].copy_from_slice(&COOKIE);
    b[8..20].copy_from_slice(tx);
    for (t, v) in attrs {
        put_attr(&mut b, *t, v);
    }
    match mi {
        MiMode::Absent => {}
        MiMode::Garbage(g) => put_attr(&mut b, AT_MI, g),
        MiMode::Key(k) => {
            let l = b.len() - 20 + 24;
            set_len(&mut b, l);
            let h = hmac_sha1(k, &b);
            put_attr(&mut b, AT_MI, &h);
        }
    }
    if fp != 0 {
        let l = b.len() - 20 + 8;
        set_len(&mut b, l);
        let mut c = crc32(&b) ^ 0x5354_554e;
        if fp == 2 {
            c ^= 0x0101_0101;
        }
        put_attr(&mut b, AT_FINGERPRINT, &c.to_be_bytes());
    }
    let l = b.len() - 20;
    set_len(&mut b, l);
    b
}

/// An authenticated request with a USE-CANDIDATE attribute appended AFTER its MESSAGE-INTEGRITY (and a fresh, valid
/// FINGERPRINT): what any party on the path can make out of a genuine check without knowing the password.
fn tamper_append_uc(orig: &[u8]) -> Option<Vec<u8>> {
    let v = stun_parse(orig)?;
    let (mi_off, _) = v.mi?;
    let mut b = orig[..mi_off + 24].to_vec();
    put_attr(&mut b, AT_USE_CANDIDATE, &[]);
    let l = b.len() - 20 + 8;
    set_len(&mut b, l);
    let c = crc32(&b) ^ 0x5354_554e;
    put_attr(&mut b, AT_FINGERPRINT, &c.to_be_bytes());
    let l = b.len() - 20;
    set_len(&mut b, l);
    Some(b)
}

fn xor_addr_v4(a: SocketAddr) -> Vec<u8> {
    let mut v = vec![0u8, 1];
    v.extend_from_slice(&(a.port() ^ 0x2112).to_be_bytes());
    if let std::net::IpAddr::V4(ip) = a.ip() {
        for (i, o) in ip.octets().iter().enumerate() {
            v.push(o ^ COOKIE[i]);
        }
    } else {
        v.extend_from_slice(&[0; 4]);
    }
    v
}

#[derive(Clone, Debug, Default)]
struct StunView {
    msg_type: u16,
    tx: [u8; 12],
    username: Option<Vec<u8>>,
    /// offset of the first MESSAGE-INTEGRITY attribute header and its 20-byte value
    mi: Option<(usize, [u8; 20])>,
    /// USE-CANDIDATE inside the integrity-protected part (before MESSAGE-INTEGRITY)
    use_candidate: bool,
    /// USE-CANDIDATE after MESSAGE-INTEGRITY: anybody on the path can have appended it
    uc_unprotected: bool,
}
impl StunView {
    fn is_request(&self) -> bool {
        self.msg_type & 0x0110 == 0x0000
    }
    fn is_success(&self) -> bool {
        self.msg_type & 0x0110 == 0x0100
    }
    fn is_error(&self) -> bool {
        self.msg_type & 0x0110 == 0x0110
    }
}

/// What A's demultiplexer would hand to its STUN handler: first byte < 2 and the header length
/// consistent with the datagram. Anything else cannot be acted on as STUN by A.
fn stun_parse(d: &[u8]) -> Option<StunView> {
    if d.len() < 20 || d[0] >= 2 {
        return None;
    }
    let l = u16::from_be_bytes([d[2], d[3]]) as usize;
    if l + 20 != d.len() {
        return None;
    }
    let mut v = StunView { msg_type: u16::from_be_bytes([d[0], d[1]]), ..Default::default() };
    v.tx.copy_from_slice(&d[8..20]);
    let mut off = 20;
    while off + 4 <= d.len() {
        let ty = u16::from_be_bytes([d[off], d[off + 1]]);
        let len = u16::from_be_bytes([d[off + 2], d[off + 3]]) as usize;
        if off + 4 + len > d.len() {
            break;
        }
        let val = &d[off + 4..off + 4 + len];
        match ty {
            AT_USERNAME if v.username.is_none() && v.mi.is_none() => v.username = Some(val.to_vec()),
            AT_MI if v.mi.is_none() && len == 20 => {
                let mut h = [0u8; 20];
                h.copy_from_slice(val);
                v.mi = Some((off, h));
            }
            // RFC 5389 15.4: attributes after MESSAGE-INTEGRITY (other than FINGERPRINT) are ignored by a
            // verifying agent; a USE-CANDIDATE there is not covered by the integrity check
            AT_USE_CANDIDATE => {
                if v.mi.is_none() {
                    v.use_candidate = true
                } else {
                    v.uc_unprotected = true
                }
            }
            _ => {}
        }
        off += 4 + len;
        off += (4 - (len % 4)) % 4;
    }
    Some(v)
}

fn mi_valid(d: &[u8], v: &StunView, key: &[u8]) -> bool {
    let Some((off, h)) = v.mi else { return false };
    let mut pre = d[..off].to_vec();
    set_len(&mut pre, off - 20 + 24);
    hmac_sha1(key, &pre) == h
}

// ---------------------------------------------------------------------------------------------
// ledger kept by the wire monitor
// ---------------------------------------------------------------------------------------------
#[derive(Clone, Debug)]
struct TxInfo {
    dst: SocketAddr,
    first_ms: f64,
    uc: bool,
    done: bool,
}

/// 15 s: longer than every transaction lifetime in rustrtc (check 5 s, keepalive 5 s, nomination 10 s)
const TX_MAX_AGE_MS: f64 = 15_000.0;

#[derive(Default)]
struct Ledger {
    a_ip: Option<std::net::IpAddr>,
    a_ufrag: String,
    a_pwd: String,
    /// A sits behind the shared-UDP mux: a datagram delivered to the socket reaches A's session only if the
    /// mux routes it there (by USERNAME ufrag or by the learnt source address, which a spoofed request can
    /// re-point), so a delivered response proves nothing about A's transaction table. In that mode a
    /// transaction is never considered finished before TX_MAX_AGE_MS (fewer responses are judged, none wrongly).
    a_mux: bool,
    /// transactions A put on the wire (request class), by id
    a_tx: BTreeMap<[u8; 12], TxInfo>,
    a_tx_order: Vec<[u8; 12]>,
    auth_src: BTreeSet<SocketAddr>,
    auth_uc: bool,
    matched_dst: BTreeSet<SocketAddr>,
    matched_any: bool,
    matched_uc: bool,
    unauth_req_delivered: u64,
    /// kind of the most recently delivered *judged* datagram: Some(true) unauthenticated request,
    /// Some(false) response with no outstanding transaction (used to name the oracle of a broken invariant)
    last_judged_is_req: Option<bool>,
    /// the most recent authenticated request without USE-CANDIDATE delivered to A (source, bytes)
    last_plain_auth_req: Option<(SocketAddr, Vec<u8>)>,
    /// sources of responses that matched an outstanding transaction of A
    matched_src: BTreeSet<SocketAddr>,
    tampered_uc_delivered: u64,
    auth_req_delivered: u64,
    unmatched_resp_delivered: u64,
    deliveries_to_a: u64,
    /// delivery times (ms) of datagrams to A, most recent last (bounded)
    recent: Vec<f64>,
    /// datagrams put on the wire by the attacker and not yet delivered
    inflight: Vec<(SocketAddr, SocketAddr, Vec<u8>)>,
    injected_delivered: u64,
    /// TURN server of the run (knob via_turn): its traffic with A is the allocation's own business, not ICE's
    s_ip: Option<std::net::IpAddr>,
}

impl Ledger {
    fn authenticated(&self, d: &[u8], v: &StunView) -> bool {
        let Some(u) = &v.username else { return false };
        let prefix = format!("{}:", self.a_ufrag);
        u.starts_with(prefix.as_bytes()) && mi_valid(d, v, self.a_pwd.as_bytes())
    }
    /// true iff a response with this id cannot be matching an outstanding transaction of A now
    fn certainly_not_outstanding(&self, tx: &[u8; 12], now: f64) -> bool {
        match self.a_tx.get(tx) {
            None => true,
            Some(t) => t.done || now - t.first_ms > TX_MAX_AGE_MS,
        }
    }
    fn deliveries_since(&self, t_ms: f64) -> usize {
        self.recent.iter().filter(|x| **x >= t_ms).count()
    }
}

struct IceMon(Arc<Mutex<Ledger>>);

impl Monitor for IceMon {
    fn classify(&mut self, from: SocketAddr, to: SocketAddr, d: &[u8], sh: &mut Shared) -> Vec<String> {
        let mut toks = Vec::new();
        let Some(v) = stun_parse(d).filter(|_| d.len() >= 20 && d[4..8] == COOKIE) else {
            toks.push("other".to_string());
            return toks;
        };
        toks.push("STUN".into());
        toks.push(
            if v.is_request() {
                "STUN:req"
            } else if v.is_success() {
                "STUN:resp"
            } else if v.is_error() {
                "STUN:err"
            } else {
                "STUN:ind"
            }
            .into(),
        );
        if v.is_request() && v.use_candidate {
            toks.push("STUN:uc".into());
        }
        let mut l = self.0.lock().unwrap();
        if sh.cur_injected {
            l.inflight.push((from, to, d.to_vec()));
        } else if l.s_ip.is_some() && (Some(to.ip()) == l.s_ip || Some(from.ip()) == l.s_ip) {
            toks.push("TURN".into());
        } else if Some(from.ip()) == l.a_ip && v.is_request() {
            let now = sh.now_ms();
            if !l.a_tx.contains_key(&v.tx) {
                l.a_tx_order.push(v.tx);
                l.a_tx.insert(v.tx, TxInfo { dst: to, first_ms: now, uc: v.use_candidate, done: false });
            }
        }
        toks
    }

    fn on_deliver(&mut self, from: SocketAddr, to: SocketAddr, d: &[u8], sh: &mut Shared) {
        let mut l = self.0.lock().unwrap();
        if let Some(i) = l.inflight.iter().position(|(f, t, b)| *f == from && *t == to && b == d) {
            l.inflight.remove(i);
            l.injected_delivered += 1;
        }
        if Some(to.ip()) != l.a_ip || (l.s_ip.is_some() && Some(from.ip()) == l.s_ip) {
            return;
        }
        let now = sh.now_ms();
        l.deliveries_to_a += 1;
        l.recent.push(now);
        if l.recent.len() > 64 {
            l.recent.remove(0);
        }
        let Some(v) = stun_parse(d) else { return };
        if v.is_request() {
            if l.authenticated(d, &v) {
                l.auth_req_delivered += 1;
                l.auth_src.insert(from);
                if !v.use_candidate && !v.uc_unprotected {
                    l.last_plain_auth_req = Some((from, d.to_vec()));
                }
                if v.uc_unprotected && !v.use_candidate {
                    l.tampered_uc_delivered += 1;
                    l.last_judged_is_req = Some(true);
                }
                if v.use_candidate {
                    l.auth_uc = true;
                }
            } else {
                l.unauth_req_delivered += 1;
                l.last_judged_is_req = Some(true);
            }
        } else if v.is_success() || v.is_error() {
            let live = !l.certainly_not_outstanding(&v.tx, now);
            if live {
                let mux = l.a_mux;
                let t = l.a_tx.get_mut(&v.tx).unwrap();
                if !mux {
                    t.done = true;
                }
                let (dst, uc) = (t.dst, t.uc);
                l.matched_src.insert(from);
                if v.is_success() {
                    l.matched_any = true;
                    l.matched_dst.insert(dst);
                    if uc {
                        l.matched_uc = true;
                    }
                }
            } else {
                l.unmatched_resp_delivered += 1;
                l.last_judged_is_req = Some(false);
            }
        }
    }
}

// ---------------------------------------------------------------------------------------------
// observables
// ---------------------------------------------------------------------------------------------
#[derive(Clone, PartialEq, Debug)]
struct Obs {
    state: IceTransportState,
    nom: Option<bool>,
    sel: Option<SocketAddr>,
    cands: BTreeSet<SocketAddr>,
    /// the agent's current ICE role
    controlled: bool,
}

fn observe(a: &IceTransport) -> Obs {
    Obs {
        controlled: matches!(a.role(), IceRole::Controlled),
        state: a.state(),
        nom: *a.subscribe_nomination_complete().borrow(),
        sel: a.get_selected_pair().map(|p| p.remote.address),
        cands: a.remote_candidates().iter().map(|c| c.address).collect(),
    }
}

fn connectedish(s: IceTransportState) -> bool {
    matches!(s, IceTransportState::Connected | IceTransportState::Completed)
}

struct Names {
    a: SocketAddr,
    b: SocketAddr,
    dead: SocketAddr,
}
impl Names {
    fn n(&self, x: SocketAddr) -> String {
        if x == self.a {
            "A".into()
        } else if x == self.b {
            "B".into()
        } else if x == self.dead {
            "Bdead".into()
        } else if host_name(x.ip()) == "M" {
            if x.port() == self.b.port() { "M:Bport".into() } else { "M".into() }
        } else {
            format!("{}?", host_name(x.ip()))
        }
    }
    fn obs(&self, o: &Obs) -> String {
        let mut c: Vec<String> = o.cands.iter().map(|x| self.n(*x)).collect();
        c.sort();
        format!(
            "state={:?} nom={} sel={} cands=[{}]",
            o.state,
            match o.nom {
                None => "-",
                Some(true) => "ok",
                Some(false) => "failed",
            },
            o.sel.map(|x| self.n(x)).unwrap_or_else(|| "-".into()),
            c.join(",")
        )
    }
}

/// The moves the property forbids as the effect of an unauthenticated request / non-matching response.
fn forbidden_moves(n: &Names, before: &Obs, after: &Obs) -> Vec<String> {
    let mut v = Vec::new();
    for c in after.cands.difference(&before.cands) {
        v.push(format!("candidate-added {}", n.n(*c)));
    }
    if after.sel.is_some() && after.sel != before.sel {
        v.push(format!("pair-selected {} (was {})", n.n(after.sel.unwrap()), before.sel.map(|x| n.n(x)).unwrap_or_else(|| "-".into())));
    }
    if before.nom.is_none() && after.nom.is_some() {
        v.push("nominated".into());
    }
    if connectedish(after.state) && !connectedish(before.state) && before.state != IceTransportState::Disconnected {
        v.push(format!("connected (was {:?})", before.state));
    }
    if after.controlled != before.controlled {
        v.push(format!("role-changed to {}", if after.controlled { "controlled" } else { "controlling" }));
    }
    v
}

// ---------------------------------------------------------------------------------------------
// plan vocabulary
// ---------------------------------------------------------------------------------------------
pub const U_ABSENT: i64 = 0;
pub const U_WRONG: i64 = 1;
pub const U_RIGHT: i64 = 2;
/// "<B-ufrag>:<A-ufrag>" (the order B expects, not A)
pub const U_SWAPPED: i64 = 3;
pub const MI_ABSENT: i64 = 0;
pub const MI_GARBAGE: i64 = 1;
pub const MI_WRONG_KEY: i64 = 2;
pub const MI_RIGHT: i64 = 3;
pub const MI_EMPTY: i64 = 4;
pub const MI_SHORT1: i64 = 5;
pub const MI_SHORT19: i64 = 6;
pub const MI_LONG: i64 = 7;
pub const SRC_FRESH: i64 = 0;
pub const SRC_B: i64 = 1;
pub const SRC_DEAD: i64 = 2;
pub const SRC_M_BPORT: i64 = 3;

fn uname(u: i64) -> &'static str {
    ["absent", "wrong", "right", "swapped"][u.rem_euclid(4) as usize]
}
fn miname(m: i64) -> &'static str {
    ["absent", "garbage", "wrongkey", "right", "empty", "short1", "short19", "long24"][m.rem_euclid(8) as usize]
}
fn srcname(s: i64) -> &'static str {
    ["fresh", "spoofB", "spoofBdead", "M:Bport"][s.rem_euclid(4) as usize]
}
fn state_name(t: i64) -> &'static str {
    ["New", "Checking", "Connected"][t.rem_euclid(3) as usize]
}

/// op `req`:  a = [user, mi, use_candidate, fingerprint(0/1/2), role attr (0 none,1 controlling,2 controlled), priority (0 absent,1 prflx-like,2 max), src]
/// op `resp`: a = [class (0 success, 1 error 401, 2 error 487), txsel (0 random, 1 replay an answered transaction of A, 2 newest transaction of A), src, mi (0 absent, 1 garbage, 2 keyed with a wrong key), pick]
fn req_op(at: u64, user: i64, mi: i64, uc: i64, fp: i64, ctl: i64, prio: i64, src: i64) -> Op {
    Op::new(at, "req", &[user, mi, uc, fp, ctl, prio, src])
}

const SYS_CASES: u64 = 3 * 8 * 2 * 2 * 3 * 2 * 2;

pub fn budget(_prop: &str, tier: Tier) -> u64 {
    match tier {
        Tier::Quick => SYS_CASES + 100_000,
        Tier::Thorough => SYS_CASES * 4 + 2_000_000,
    }
}

/// the instant (ms) at which an attacker packet aimed at state `t` is sent, given the timeline
fn aim(r: &mut Rng, t: i64, a_start: u64, b_start: u64, end: u64) -> u64 {
    match t {
        0 => r.range(60, a_start.saturating_sub(40).max(61)),
        1 => r.range(a_start + 60, b_start.saturating_sub(60).max(a_start + 61)),
        _ => r.range(b_start + 1400, end.saturating_sub(400).max(b_start + 1401)),
    }
}

pub fn generate(prop: &str, seed: u64, idx: u64, tier: Tier) -> Plan {
    let mut r = Rng::new(mix(mix(seed, idx), fnv(FNV0, prop.as_bytes())));
    let mut p = Plan { prop: prop.into(), scenario: "ice_stun".into(), seed: r.next(), ..Default::default() };
    p.sched = Sched { rng_seed: r.next(), defer_pct: 0 };
    p.latency_us = [1000, 1000];
    let sys_rounds = if tier == Tier::Thorough { 4 } else { 1 };
    if idx < SYS_CASES * sys_rounds {
        // systematic core: request variant x A's state x A's role x source, one packet per run
        let mut v = idx % SYS_CASES;
        let mut take = |n: u64| {
            let x = (v % n) as i64;
            v /= n;
            x
        };
        let (user, mi, uc, fp, target, role, src) = (take(3), take(8), take(2), take(2), take(3), take(2), take(2));
        let round = idx / SYS_CASES;
        let (a_start, b_start, end) = (1000u64, 3000u64, 6500u64);
        p.knobs.insert("role".into(), role);
        p.knobs.insert("target".into(), target);
        p.knobs.insert("a_start_ms".into(), a_start as i64);
        p.knobs.insert("b_start_ms".into(), b_start as i64);
        p.knobs.insert("end_ms".into(), end as i64);
        p.knobs.insert("dead".into(), 1);
        p.knobs.insert("attacker".into(), 1);
        p.knobs.insert("sys".into(), 1);
        if round > 0 {
            // later rounds repeat the core with other latencies, mux, early remote parameters and deferral
            p.latency_us = [r.range(100, 30_000), r.range(100, 30_000)];
            p.knobs.insert("mux".into(), (round % 2) as i64);
            p.knobs.insert("rp_early".into(), ((round / 2) % 2) as i64);
            p.sched.defer_pct = if r.chance(50) { 0 } else { r.range(1, 30) as u8 };
        }
        let at = match target {
            0 => 500,
            1 => 2000,
            _ => 5000,
        };
        // the role attribute a peer of A would send; PRIORITY as a peer-reflexive candidate would
        let ctl = if role == 1 { 1 } else { 2 };
        p.ops.push(req_op(at, user, mi, uc, fp, ctl, 1, if src == 0 { SRC_FRESH } else { SRC_B }));
        return p;
    }
    // gathering-stage runs (Binding transaction with a STUN server)
    if r.chance(6) {
        p.knobs.insert("srflx".into(), 1);
        p.knobs.insert("forge".into(), *r.pick(&[0i64, 1, 1, 2, 3]));
        p.knobs.insert("srv_delay_ms".into(), *r.pick(&[0i64, 5, 50, 400, 2000]));
        p.knobs.insert("srv_silent".into(), if r.chance(20) { 1 } else { 0 });
        p.latency_us = [r.range(100, 30_000), r.range(100, 30_000)];
        return p;
    }
    // swarm part
    let role = r.below(2) as i64;
    let target = r.below(3) as i64;
    let a_start = *r.pick(&[200u64, 500, 1000, 1000, 1500]);
    let hold = *r.pick(&[0u64, 300, 1000, 2000, 2000, 2600]);
    // B before A (A still New while B's genuine checks arrive) in a few runs
    let b_start = if r.chance(8) { a_start.saturating_sub(150) } else { a_start + hold };
    let end = b_start.max(a_start) + r.range(3000, 7000);
    p.latency_us = [*r.pick(&[100u64, 1000, 1000, 5000, 20_000, 60_000]), *r.pick(&[100u64, 1000, 1000, 5000, 20_000, 60_000])];
    p.sched.defer_pct = if r.chance(60) { 0 } else { r.range(1, 30) as u8 };
    p.knobs.insert("role".into(), role);
    p.knobs.insert("target".into(), target);
    p.knobs.insert("a_start_ms".into(), a_start as i64);
    p.knobs.insert("b_start_ms".into(), b_start as i64);
    p.knobs.insert("end_ms".into(), end as i64);
    p.knobs.insert("dead".into(), if r.chance(70) { 1 } else { 0 });
    if r.chance(35) {
        p.knobs.insert("mux".into(), 1);
    }
    if r.chance(30) {
        p.knobs.insert("rp_early".into(), 1);
    }
    let control = r.chance(7);
    p.knobs.insert("attacker".into(), if control { 0 } else { 1 });
    if !control {
        let n = r.range(1, 6);
        let authp = *r.pick(&[0u64, 0, 0, 10, 30]);
        for _ in 0..n {
            let t = if r.chance(70) { target } else { r.below(3) as i64 };
            let at = aim(&mut r, t, a_start, b_start.max(a_start + 1), end);
            if r.chance(30) {
                let class = r.below(3) as i64;
                let txsel = *r.pick(&[0i64, 0, 1, 1, 1, 2]);
                let src = *r.pick(&[SRC_FRESH, SRC_B, SRC_B, SRC_DEAD, SRC_M_BPORT]);
                p.ops.push(Op::new(at, "resp", &[class, txsel, src, r.below(3) as i64, r.below(1000) as i64]));
            } else {
                let (user, mi) = if r.chance(authp) {
                    (U_RIGHT, MI_RIGHT)
                } else {
                    loop {
                        let u = *r.pick(&[U_ABSENT, U_WRONG, U_RIGHT, U_RIGHT, U_SWAPPED]);
                        let m = *r.pick(&[MI_ABSENT, MI_GARBAGE, MI_WRONG_KEY, MI_WRONG_KEY, MI_RIGHT, MI_EMPTY, MI_SHORT1, MI_SHORT19, MI_LONG]);
                        if !(u == U_RIGHT && m == MI_RIGHT) {
                            break (u, m);
                        }
                    }
                };
                let uc = r.chance(55) as i64;
                let fp = *r.pick(&[0i64, 1, 1, 2]);
                let ctl = r.below(3) as i64;
                let prio = r.below(3) as i64;
                let src = *r.pick(&[SRC_FRESH, SRC_FRESH, SRC_B, SRC_B, SRC_DEAD, SRC_M_BPORT]);
                p.ops.push(req_op(at, user, mi, uc, fp, ctl, prio, src));
            }
        }
        p.ops.sort_by_key(|o| o.at_ms);
    }
    // network faults on the genuine STUN traffic in a quarter of the runs (never on attacker packets)
    if r.chance(25) {
        let n = r.range(1, 4);
        for _ in 0..n {
            let from = if r.chance(50) { "A" } else { "B" };
            let class = *r.pick(&["STUN:req", "STUN:req", "STUN:resp"]);
            let action = match r.below(5) {
                0 => Action::Drop,
                1 => Action::Dup { delay_ms: r.range(1, 400), copies: 1 },
                2 => Action::Delay { ms: r.range(5, 900) },
                3 => Action::FlipBit { bit: r.below(8 * 100) as u32 },
                _ => Action::Dup { delay_ms: r.range(1000, 6500), copies: 1 },
            };
            p.faults.push(Rule { from: from.into(), class: class.into(), ordinal: r.below(8) as u32, action });
        }
        p.heal_at_ms = end;
    }
    // on-path tampering with B's genuine checks: every genuine nomination (request with USE-CANDIDATE) of B is lost,
    // and the attacker re-sends B's plain checks with USE-CANDIDATE appended behind MESSAGE-INTEGRITY; a controlled A
    // must not consider anything nominated
    if r.chance(12) {
        p.knobs.insert("role".into(), 1);
        for ord in 0..80 {
            p.faults.push(Rule { from: "B".into(), class: "STUN:uc".into(), ordinal: ord, action: Action::Drop });
        }
        let first = b_start.max(a_start) + r.range(20, 400);
        for k in 0..r.range(1, 4) {
            p.ops.push(Op::new(first + k * r.range(5, 300), "tamper", &[]));
        }
        p.ops.sort_by_key(|o| o.at_ms);
        p.heal_at_ms = end;
    }
    // socket kind (drawn from its own stream so that every other choice of the plan stays what it was): in 30 % of the
    // runs A also has a passive ICE-TCP listener (1 = from a port range, 2 = the process-wide shared port with
    // demultiplexing by ufrag) and the attacker's unauthenticated requests travel over its own TCP connections to it
    let mut rs = Rng::new(mix(mix(seed, idx), 0x7463_7073_6f63_6b));
    if p.knob("srflx", 0) == 0 && p.knob("mux", 0) == 0 && rs.chance(30) {
        p.knobs.insert("via_tcp".into(), 1 + rs.below(2) as i64);
    } else if p.knob("srflx", 0) == 0 && p.knob("mux", 0) == 0 && rs.chance(20) {
        // A also holds a TURN allocation (server S played by the harness); the attacker's unauthenticated requests are
        // sent to the relayed address and reach A wrapped in Data indications on its TURN socket
        p.knobs.insert("via_turn".into(), 1);
    }
    p
}

// ---------------------------------------------------------------------------------------------
// run
// ---------------------------------------------------------------------------------------------
fn cfg_tcp(side: usize, mux: bool, seed: u64, tcp: i64) -> RtcConfiguration {
    let mut c = cfg(side, mux, seed);
    if tcp != 0 {
        c.ice_tcp_policy = rustrtc::config::IceTcpPolicy::Enabled;
        let base = 52_000 + (seed % 500) as u16 * 8;
        c.tcp_port_range_start = Some(base);
        c.tcp_port_range_end = Some(if tcp == 2 { base } else { base + 3 });
    }
    c
}

fn cfg(side: usize, mux: bool, seed: u64) -> RtcConfiguration {
    let mut c = RtcConfiguration::default();
    c.bind_ip = Some(if side == 0 { "10.0.0.1".into() } else { "10.0.0.2".into() });
    c.disable_ipv6 = true;
    if mux {
        c.ice_udp_mux = true;
        c.ice_udp_mux_port = Some(7000 + (seed % 1000) as u16);
    }
    c
}

async fn gathered(t: &IceTransport) -> bool {
    let mut rx = t.subscribe_gathering_state();
    tokio::time::timeout(Duration::from_secs(3), async {
        loop {
            if *rx.borrow_and_update() == IceGathererState::Complete {
                return true;
            }
            if rx.changed().await.is_err() {
                return false;
            }
        }
    })
    .await
    .unwrap_or(false)
}

#[derive(Clone, Copy, PartialEq, Debug)]
enum Item {
    AStart,
    BStart,
    Attack(usize),
    Tick,
}

struct Judge<'a> {
    ctx: &'a Ctx,
    names: Names,
    led: Arc<Mutex<Ledger>>,
    signalled: BTreeSet<SocketAddr>,
    role_controlled: bool,
    reported: BTreeSet<String>,
    faults_on_wire: bool,
}

impl Judge<'_> {
    fn report(&mut self, oracle: &str, kind: &str, detail: String) {
        // each kind of forbidden move is reported once per run, under the oracle of its first cause (a broken
        // invariant persists and must not be re-attributed to a later, innocent packet)
        if self.reported.insert(kind.to_string()) {
            self.ctx.violate(oracle, format!("kind={kind} {detail}"));
        }
    }
    /// invariants I1..I4 against the ledger
    fn invariants(&mut self, o: &Obs, at: &str) {
        let (broken, oracle) = {
            let l = self.led.lock().unwrap();
            let mut broken: Vec<(&'static str, String)> = Vec::new();
            for c in o.cands.iter() {
                // (the statement allows a response that matches an outstanding transaction to be honoured, so what an
                // agent learns from the source of such a response is not judged)
                if !self.signalled.contains(c) && !l.auth_src.contains(c) && !l.matched_src.contains(c) {
                    broken.push(("candidate-added", format!("remote candidate {} was neither signalled nor the source of an authenticated request or of a response matching an outstanding transaction", self.names.n(*c))));
                }
            }
            if let Some(s) = o.sel {
                if !l.matched_dst.contains(&s) && !l.auth_src.contains(&s) {
                    broken.push(("pair-selected", format!("selected remote {} never answered a transaction of A and never sent an authenticated request", self.names.n(s))));
                }
            }
            if connectedish(o.state) && !l.matched_any && !l.auth_uc {
                broken.push(("connected", format!("state {:?} although no matching success response and no authenticated USE-CANDIDATE request was delivered to A", o.state)));
            }
            if let Some(ok) = o.nom {
                let legit = if self.role_controlled { l.auth_uc } else if ok { l.matched_uc } else { l.matched_any };
                if !legit {
                    broken.push((
                        "nominated",
                        format!("nomination complete ({ok}) although {}", if self.role_controlled { "no authenticated USE-CANDIDATE request was delivered to A" } else { "no matching response to a USE-CANDIDATE transaction of A was delivered" }),
                    ));
                }
            }
            let oracle = match l.last_judged_is_req {
                Some(true) => "C06.influence",
                Some(false) => "C06.response",
                None => "HARNESS.c06-ledger",
            };
            (broken, oracle)
        };
        for (kind, why) in broken {
            let d = format!("invariant at {at}: {why}; A: {} role={}", self.names.obs(o), if self.role_controlled { "controlled" } else { "controlling" });
            self.report(oracle, kind, d);
        }
    }
}

/// Second sentence of C06 at the gathering stage: the Binding transaction towards a STUN server. A server host S
/// (harness code) answers A's request after `srv_delay_ms` (or never); an off-path party that can spoof S's address
/// sends A's gathering socket responses that match NO outstanding transaction (other transaction id; knob `forge`:
/// 1 success with XOR-MAPPED-ADDRESS = the attacker's address, 2 the same twice, 3 error response) before the genuine
/// answer. A server-reflexive candidate may only come from a response that matches A's transaction.
async fn run_srflx(ctx: &Ctx) {
    let p = &ctx.plan;
    ctx.net.install_binder();
    let s_addr: SocketAddr = addr("10.0.0.50", 3478);
    let evil: SocketAddr = addr("M", 6666);
    let srv = match ctx.net.bind(s_addr) {
        Ok(s) => Arc::new(vh::UdpSocket::from_sim(s)),
        Err(e) => {
            ctx.violate("HARNESS.c06-srflx", format!("bind S: {e}"));
            return;
        }
    };
    let forge = p.knob("forge", 1);
    let delay = p.knob("srv_delay_ms", 50).clamp(0, 4000) as u64;
    let silent = p.knob("srv_silent", 0) == 1;
    let seen: Arc<Mutex<Vec<(SocketAddr, [u8; 12])>>> = Arc::new(Mutex::new(Vec::new()));
    let net = ctx.net.clone();
    let sh = ctx.sh.clone();
    let seen2 = seen.clone();
    let mut arng = Rng::new(mix(p.seed, 0x7372666c78));
    let server = tokio::spawn(vh::wrap_task(async move {
        let mut buf = vec![0u8; 2048];
        loop {
            let Ok((n, from)) = srv.recv_from(&mut buf).await else { break };
            let Some(v) = stun_parse(&buf[..n]) else { continue };
            if !v.is_request() {
                continue;
            }
            seen2.lock().unwrap().push((from, v.tx));
            sh.lock().unwrap().event("S got binding request", &format!("from {from}"));
            // forged responses first (they travel with the attacker's own latency, i.e. at once)
            if forge != 0 {
                let copies = if forge == 2 { 2 } else { 1 };
                for _ in 0..copies {
                    let mut tx = [0u8; 12];
                    arng.fill(&mut tx);
                    let bytes = if forge == 3 {
                        stun_build(0x0111, &tx, &[(AT_ERROR, vec![0, 0, 4, 0, b'B', b'a', b'd'])], &MiMode::Absent, 1)
                    } else {
                        stun_build(0x0101, &tx, &[(AT_XOR_MAPPED, xor_addr_v4(evil))], &MiMode::Absent, 1)
                    };
                    sh.lock().unwrap().event("attack forged response to the gathering socket", &format!("forge={forge} to {from}"));
                    net.inject(s_addr, from, &bytes);
                }
            }
            if !silent {
                tokio::time::sleep(Duration::from_millis(delay)).await;
                let genuine = stun_build(0x0101, &v.tx, &[(AT_XOR_MAPPED, xor_addr_v4(from))], &MiMode::Absent, 1);
                let _ = srv.send_to(&genuine, from).await;
            }
        }
    }));
    let mut c = cfg(0, false, p.seed);
    c.ice_servers = vec![rustrtc::IceServer::new(vec!["stun:10.0.0.50:3478".to_string()])];
    let (a, ra) = IceTransportBuilder::new(c).role(IceRole::Controlling).build();
    let ta = tokio::spawn(vh::wrap_task(ra));
    let ok = tokio::time::timeout(Duration::from_secs(20), gathered(&a)).await.unwrap_or(false);
    tokio::time::sleep(Duration::from_millis(delay + 200)).await;
    let cands = a.local_candidates();
    let asked = seen.lock().unwrap().len();
    ctx.ev(&format!("gathering done ok={ok} asked={asked}"), &format!("{:?}", cands.iter().map(|c| format!("{:?}:{}", c.typ, c.address)).collect::<Vec<_>>()));
    ctx.stat(if asked > 0 { "probe.srflx_server_asked" } else { "probe.srflx_server_not_asked" }, 1);
    for cnd in cands.iter() {
        if cnd.address == evil {
            ctx.violate("C06.response", format!("kind=srflx-from-unmatched-response A advertises the {:?} candidate {} taken from a response whose transaction id matches no request of A (forged from the STUN server's address, forge={forge}); A's requests: {asked}", cnd.typ, cnd.address));
        }
    }
    if forge == 0 && !silent && asked > 0 && !cands.iter().any(|c| c.typ == rustrtc::transports::ice::IceCandidateType::ServerReflexive) {
        ctx.violate("HARNESS.c06-srflx", "attacker-free control: the genuine answer of the STUN server produced no server-reflexive candidate".into());
    }
    if asked > 0 && forge != 0 {
        ctx.stat("nontrivial", 1);
    }
    a.stop();
    server.abort();
    ta.abort();
    let _ = ta.await;
    let _ = server.await;
    drop(a);
    tokio::time::sleep(Duration::from_millis(300)).await;
}

pub async fn run(ctx: &Ctx) {
    let p = &ctx.plan;
    if p.knob("srflx", 0) == 1 {
        run_srflx(ctx).await;
        return;
    }
    let role_controlled = p.knob("role", 1) == 1;
    let mux = p.knob("mux", 0) == 1;
    let target = p.knob("target", 1).rem_euclid(3);
    let a_start = p.knob("a_start_ms", 1000).max(0) as u64;
    let b_start = p.knob("b_start_ms", 3000).max(0) as u64;
    let end_ms = (p.knob("end_ms", 6500).max(0) as u64).clamp(a_start.max(b_start) + 500, 28_000);
    let use_dead = p.knob("dead", 0) == 1;
    let rp_early = p.knob("rp_early", 0) == 1;
    let attacker = p.knob("attacker", 1) == 1;
    let settle_ms = p.knob("settle_ms", 40).clamp(5, 400) as u64;
    let lat_ms = |i: usize| p.latency_us[i].max(1).div_ceil(1000);

    ctx.net.install_binder();
    let led = Arc::new(Mutex::new(Ledger::default()));
    ctx.net.set_monitor(Box::new(IceMon(led.clone())));

    let via_tcp = p.knob("via_tcp", 0).clamp(0, 2);
    let via_turn = via_tcp == 0 && p.knob("via_turn", 0) == 1;
    let s_addr: SocketAddr = addr("10.0.0.50", 3478);
    // the TURN client's own socket address, learnt by the server from the Allocate request
    let turn_client: Arc<Mutex<Option<SocketAddr>>> = Arc::new(Mutex::new(None));
    let mut cfg_a = cfg_tcp(0, mux, p.seed, via_tcp);
    let mut turn_server = None;
    if via_turn {
        led.lock().unwrap().s_ip = Some(s_addr.ip());
        cfg_a.ice_servers = vec![rustrtc::IceServer::new(vec!["turn:10.0.0.50:3478".to_string()]).with_credential("simuser", "simpass")];
        match ctx.net.bind(s_addr) {
            Ok(sock) => {
                let srv = Arc::new(vh::UdpSocket::from_sim(sock));
                let tc = turn_client.clone();
                turn_server = Some(tokio::spawn(vh::wrap_task(async move {
                    use super::hostile_turn as ht;
                    let mut buf = vec![0u8; 2048];
                    loop {
                        let Ok((n, from)) = srv.recv_from(&mut buf).await else { break };
                        let Some(q) = ht::parse(&buf[..n]) else { continue };
                        if q.ty & 0x0110 != 0 {
                            continue; // Send indications: nothing is relayed onwards
                        }
                        let stage = if q.ty == 0x0003 && !q.has_user { 0 } else { 1 };
                        if q.ty == 0x0003 && q.has_user {
                            *tc.lock().unwrap() = Some(from);
                        }
                        let _ = srv.send_to(&ht::genuine(&q, stage), from).await;
                    }
                })));
            }
            Err(e) => ctx.violate("HARNESS.c06-turn", format!("bind S: {e}")),
        }
    }
    let (a, ra) = IceTransportBuilder::new(cfg_a).role(if role_controlled { IceRole::Controlled } else { IceRole::Controlling }).build();
    let (b, rb) = IceTransportBuilder::new(cfg(1, false, p.seed)).role(if role_controlled { IceRole::Controlling } else { IceRole::Controlled }).build();
    let ta = tokio::spawn(vh::wrap_task(ra));
    let tb = tokio::spawn(vh::wrap_task(rb));
    let ok = gathered(&a).await && gathered(&b).await;
    let a_all = a.local_candidates();
    // A's passive ICE-TCP listener (knob via_tcp); B, which has ICE-TCP disabled, is only told A's UDP candidate
    // (A may hold several: the listener that host gathering binds on an ephemeral port and the one from the configured port
    // range; via_tcp = 2 aims at the shared port itself, via_tcp = 1 at either, by plan seed)
    let a_tcp: Option<SocketAddr> = {
        let base = 52_000 + (p.seed % 500) as u16 * 8;
        let all: Vec<SocketAddr> = a_all.iter().filter(|c| c.transport == "tcp" && c.address.port() != 9).map(|c| c.address).collect();
        ctx.stat(&format!("probe.a_tcp_candidates.{}", all.len()), 1);
        match via_tcp {
            2 => all.iter().find(|x| x.port() == base).copied(),
            _ if all.is_empty() => None,
            _ => Some(all[(p.seed / 7) as usize % all.len()]),
        }
    };
    let a_loc: Vec<IceCandidate> = a_all.iter().filter(|c| c.transport != "tcp" && c.typ != rustrtc::transports::ice::IceCandidateType::Relay).cloned().collect();
    if via_turn && (turn_client.lock().unwrap().is_none() || !a_all.iter().any(|c| c.typ == rustrtc::transports::ice::IceCandidateType::Relay)) {
        ctx.violate("HARNESS.c06-turn", format!("via_turn but A holds no relay candidate: {:?}", a_all.iter().map(|c| format!("{:?}/{}", c.typ, c.address)).collect::<Vec<_>>()));
    }
    let b_loc = b.local_candidates();
    if via_tcp != 0 && a_tcp.is_none() {
        ctx.violate("HARNESS.c06-gather", format!("via_tcp={via_tcp} but A gathered no passive TCP candidate: {:?}", a_all.iter().map(|c| format!("{}/{}", c.transport, c.address)).collect::<Vec<_>>()));
    }
    if !ok || a_loc.len() != 1 || b_loc.len() != 1 {
        ctx.violate("HARNESS.c06-gather", format!("gathering: ok={ok} A has {} candidates, B has {}", a_loc.len(), b_loc.len()));
        a.stop();
        b.stop();
        ta.abort();
        tb.abort();
        return;
    }
    let a_addr = a_loc[0].address;
    let b_addr = b_loc[0].address;
    let dead_addr = addr("B", 9);
    let pa = a.local_parameters();
    let pb = b.local_parameters();
    {
        let mut l = led.lock().unwrap();
        l.a_ip = Some(a_addr.ip());
        l.a_ufrag = pa.username_fragment.clone();
        l.a_pwd = pa.password.clone();
        l.a_mux = mux;
    }
    ctx.ev(
        &format!("rig role={} mux={} dead={} rp_early={} target={}", if role_controlled { "controlled" } else { "controlling" }, mux as u8, use_dead as u8, rp_early as u8, state_name(target)),
        &format!("A={a_addr} B={b_addr} a_start={a_start} b_start={b_start} end={end_ms}"),
    );
    if rp_early {
        a.set_remote_parameters(pb.clone());
    }

    let mut j = Judge { ctx, names: Names { a: a_addr, b: b_addr, dead: dead_addr }, led: led.clone(), signalled: BTreeSet::new(), role_controlled, reported: BTreeSet::new(), faults_on_wire: p.has_faults() };

    // timeline
    let mut items: Vec<(u64, u8, Item)> = vec![(a_start, 0, Item::AStart), (b_start, 1, Item::BStart)];
    if attacker {
        for (i, o) in p.ops.iter().enumerate() {
            if o.kind == "req" || o.kind == "resp" || o.kind == "tamper" {
                items.push((o.at_ms.min(end_ms), 2, Item::Attack(i)));
            } else {
                ctx.violate("HARNESS.c06-op", format!("unknown op kind {}", o.kind));
            }
        }
    }
    let mut t = 250;
    while t < end_ms {
        items.push((t, 3, Item::Tick));
        t += 500;
    }
    items.sort_by_key(|x| (x.0, x.1));

    let mut arng = Rng::new(mix(p.seed, 0x61747461636b));
    let mut last_api_ms: f64 = -1e9;
    let mut hit_target = 0u64;
    let mut last_obs = observe(&a);
    let mut a_started = false;
    let mut m_conns: Vec<vh::TcpStream> = Vec::new();

    for (at, _, item) in items {
        ctx.sleep_until_ms(at).await;
        match item {
            Item::AStart => {
                if use_dead {
                    a.add_remote_candidate(IceCandidate::host(dead_addr, 1));
                    j.signalled.insert(dead_addr);
                }
                if let Err(e) = a.start(pb.clone()) {
                    ctx.violate("HARNESS.c06-start", format!("A.start: {e}"));
                }
                a_started = true;
                last_api_ms = ctx.sh.lock().unwrap().now_ms();
                ctx.ev("api A.start", &format!("dead={}", use_dead as u8));
            }
            Item::BStart => {
                for c in b.local_candidates() {
                    j.signalled.insert(c.address);
                    a.add_remote_candidate(c);
                }
                for c in a_loc.iter().cloned() {
                    b.add_remote_candidate(c);
                }
                if let Err(e) = b.start(pa.clone()) {
                    ctx.violate("HARNESS.c06-start", format!("B.start: {e}"));
                }
                last_api_ms = ctx.sh.lock().unwrap().now_ms();
                ctx.ev("api B.start + trickle B->A", "");
            }
            Item::Tick => {
                let o = observe(&a);
                if o != last_obs {
                    ctx.ev(&format!("A {}", j.names.obs(&o)), "");
                    last_obs = o.clone();
                }
                j.invariants(&o, "tick");
            }
            Item::Attack(i) => {
                let op = &p.ops[i];
                let before = observe(&a);
                let t0 = ctx.sh.lock().unwrap().now_ms();
                let fresh = addr("M", 6000 + (i as u16 % 2000));
                let src_of = |s: i64| match s.rem_euclid(4) {
                    SRC_FRESH => fresh,
                    SRC_B => b_addr,
                    SRC_DEAD => dead_addr,
                    _ => addr("M", b_addr.port()),
                };
                let mut tx = [0u8; 12];
                arng.fill(&mut tx);
                let (bytes, from, sem, judged, is_req): (Vec<u8>, SocketAddr, String, bool, bool) = if op.kind == "tamper" {
                    // the on-path party re-sends B's latest genuine check with USE-CANDIDATE appended behind its integrity
                    // attribute; judged by invariant I4 (nomination needs a USE-CANDIDATE inside the protected part)
                    let last = led.lock().unwrap().last_plain_auth_req.clone();
                    match last.and_then(|(src, d)| tamper_append_uc(&d).map(|t| (src, t))) {
                        Some((src, t)) => {
                            ctx.stat("probe.tamper_sent", 1);
                            (t, src, "req genuine+USE-CANDIDATE appended after MESSAGE-INTEGRITY".to_string(), false, true)
                        }
                        None => {
                            ctx.stat("probe.tamper_no_genuine_request_yet", 1);
                            continue;
                        }
                    }
                } else if op.kind == "req" {
                    let (user, mi, uc, fp, ctl, prio, src) = (op.arg(0).rem_euclid(4), op.arg(1).rem_euclid(8), op.arg(2) != 0, op.arg(3).rem_euclid(3), op.arg(4).rem_euclid(3), op.arg(5).rem_euclid(3), op.arg(6));
                    let mut attrs: Vec<(u16, Vec<u8>)> = Vec::new();
                    match user {
                        U_WRONG => attrs.push((AT_USERNAME, b"deadbeefdeadbeef:cafecafecafecafe".to_vec())),
                        U_RIGHT => attrs.push((AT_USERNAME, format!("{}:{}", pa.username_fragment, pb.username_fragment).into_bytes())),
                        U_SWAPPED => attrs.push((AT_USERNAME, format!("{}:{}", pb.username_fragment, pa.username_fragment).into_bytes())),
                        _ => {}
                    }
                    match prio {
                        1 => attrs.push((AT_PRIORITY, 0x6E00_1EFFu32.to_be_bytes().to_vec())),
                        2 => attrs.push((AT_PRIORITY, 0x7FFF_FFFFu32.to_be_bytes().to_vec())),
                        _ => {}
                    }
                    match ctl {
                        1 => attrs.push((AT_CONTROLLING, arng.next().to_be_bytes().to_vec())),
                        2 => attrs.push((AT_CONTROLLED, arng.next().to_be_bytes().to_vec())),
                        _ => {}
                    }
                    if uc {
                        attrs.push((AT_USE_CANDIDATE, Vec::new()));
                    }
                    let mim = match mi {
                        MI_GARBAGE | MI_EMPTY | MI_SHORT1 | MI_SHORT19 | MI_LONG => {
                            // a MESSAGE-INTEGRITY attribute of the regular or of an irregular length, filled with bytes that
                            // no key holder produced
                            let n = match mi {
                                MI_EMPTY => 0,
                                MI_SHORT1 => 1,
                                MI_SHORT19 => 19,
                                MI_LONG => 24,
                                _ => 20,
                            };
                            let mut g = vec![0u8; n];
                            arng.fill(&mut g);
                            MiMode::Garbage(g)
                        }
                        // the key an attacker on the signalling path of B might try: B's own password
                        MI_WRONG_KEY => MiMode::Key(pb.password.clone().into_bytes()),
                        MI_RIGHT => MiMode::Key(pa.password.clone().into_bytes()),
                        _ => MiMode::Absent,
                    };
                    let bytes = stun_build(0x0001, &tx, &attrs, &mim, fp);
                    let authed = user == U_RIGHT && mi == MI_RIGHT;
                    // cross-check the encoder against the verifier (both live in this file, but are written separately)
                    let v = stun_parse(&bytes);
                    let chk = v.as_ref().map(|v| led.lock().unwrap().authenticated(&bytes, v)).unwrap_or(false);
                    if chk != authed {
                        ctx.violate("HARNESS.c06-codec", format!("encoder/verifier disagree: built user={} mi={} but verifier says authenticated={chk}", uname(user), miname(mi)));
                    }
                    (bytes, src_of(src), format!("req user={} mi={} uc={} fp={fp} ctl={ctl} prio={prio} src={}", uname(user), miname(mi), uc as u8, srcname(src)), !authed, true)
                } else {
                    let (class, txsel, src, mi) = (op.arg(0).rem_euclid(3), op.arg(1).rem_euclid(3), op.arg(2), op.arg(3).rem_euclid(3));
                    let pick = op.arg(4).max(0) as usize;
                    let mut how = "random";
                    {
                        let l = led.lock().unwrap();
                        match txsel {
                            1 => {
                                let done: Vec<&[u8; 12]> = l.a_tx_order.iter().filter(|t| l.a_tx[*t].done).collect();
                                if !done.is_empty() {
                                    tx = *done[pick % done.len()];
                                    how = "replay-answered";
                                }
                            }
                            2 => {
                                if let Some(t) = l.a_tx_order.last() {
                                    tx = *t;
                                    how = "newest";
                                }
                            }
                            _ => {}
                        }
                    }
                    let judged = led.lock().unwrap().certainly_not_outstanding(&tx, t0);
                    let mut attrs: Vec<(u16, Vec<u8>)> = Vec::new();
                    let ty = match class {
                        0 => {
                            attrs.push((AT_XOR_MAPPED, xor_addr_v4(a_addr)));
                            0x0101
                        }
                        1 => {
                            attrs.push((AT_ERROR, vec![0, 0, 4, 1, b'U', b'n', b'a', b'u', b't', b'h']));
                            0x0111
                        }
                        _ => {
                            attrs.push((AT_ERROR, vec![0, 0, 4, 87, b'R', b'o', b'l', b'e']));
                            0x0111
                        }
                    };
                    let mim = match mi {
                        1 => {
                            let mut g = vec![0u8; 20];
                            arng.fill(&mut g);
                            MiMode::Garbage(g)
                        }
                        2 => MiMode::Key(b"not-the-password".to_vec()),
                        _ => MiMode::Absent,
                    };
                    let bytes = stun_build(ty, &tx, &attrs, &mim, 1);
                    (bytes, src_of(src), format!("resp class={} tx={how}{} src={}", ["success", "err401", "err487"][class as usize], if judged { "" } else { "(maybe-outstanding)" }, srcname(src)), judged, false)
                };
                let st_before = before.state;
                ctx.ev(&format!("attack {sem} while {:?}", st_before), &format!("from {from} to {a_addr} len={}", bytes.len()));
                let inj0 = led.lock().unwrap().injected_delivered;
                // socket kind: an unauthenticated request may travel as an RFC 4571 frame over the attacker's own TCP
                // connection to A's passive listener (a new connection, or - every other time - the one opened before)
                let over_tcp = judged && (op.kind == "req" || op.kind == "resp") && a_tcp.is_some() && !j.faults_on_wire;
                let mut tcp_ok = false;
                let over_turn = judged && (op.kind == "req" || op.kind == "resp") && via_turn && turn_client.lock().unwrap().is_some();
                if over_turn {
                    // the attacker's datagram to the relayed address, as the relay forwards it: a Data indication from S to
                    // A's TURN socket with XOR-PEER-ADDRESS = the attacker's source and DATA = the request
                    use super::hostile_turn as ht;
                    let mut itx = [0u8; 12];
                    arng.fill(&mut itx);
                    let ind = ht::stun(0x0017, &itx, &[(0x0012, ht::xor_addr(from)), (0x0013, bytes.clone())]);
                    let to = turn_client.lock().unwrap().unwrap();
                    if i % 2 == 0 {
                        ctx.ev("attack travels through the TURN relay", &format!("peer {from} -> relayed address -> Data indication {s_addr} -> {to}"));
                        ctx.net.inject(s_addr, to, &ind);
                    } else {
                        // the same message, bare, from the attacker's (or the server's spoofed) address straight to the TURN
                        // client's own socket: the client does not look at the source of what it receives there
                        let src = if i % 4 == 1 { from } else { s_addr };
                        ctx.ev("attack sent bare to the TURN client socket", &format!("{src} -> {to}"));
                        ctx.net.inject(src, to, &bytes);
                        ctx.stat("probe.bare_on_turn_socket", 1);
                    }
                    let mut l = led.lock().unwrap();
                    if is_req {
                        l.unauth_req_delivered += 1;
                    } else {
                        l.unmatched_resp_delivered += 1;
                    }
                    l.last_judged_is_req = Some(is_req);
                    drop(l);
                    ctx.stat(if is_req { "probe.unauth_req_over_turn" } else { "probe.unmatched_resp_over_turn" }, 1);
                } else if over_tcp {
                    use tokio::io::AsyncWriteExt;
                    let mut f = (bytes.len() as u16).to_be_bytes().to_vec();
                    f.extend_from_slice(&bytes);
                    let mut reuse = i % 2 == 1 && !m_conns.is_empty();
                    // (the victim may have closed a connection it had no use for - the shared port does that to a first frame
                    // it cannot route: a write into it fails, and the attacker simply connects again)
                    for _attempt in 0..2 {
                        if !reuse {
                            if let Ok(raw) = ctx.net.tcp_connect_from(Some(from.ip()), a_tcp.unwrap()) {
                                let okc = tokio::time::timeout(Duration::from_secs(2), std::future::poll_fn(|cx| vh::SimTcpStream::poll_connected(&*raw, cx))).await;
                                if matches!(okc, Ok(Ok(()))) {
                                    m_conns.push(vh::TcpStream::from_sim(raw));
                                } else {
                                    break;
                                }
                            }
                        }
                        if let Some(sck) = m_conns.last_mut() {
                            tcp_ok = sck.write_all(&f).await.is_ok();
                            if let Ok(l) = sck.local_addr() {
                                ctx.ev("attack travels over TCP", &format!("{l} -> {} reuse={} ok={}", a_tcp.unwrap(), reuse as u8, tcp_ok as u8));
                            }
                        }
                        if tcp_ok {
                            break;
                        }
                        m_conns.pop();
                        reuse = false;
                    }
                    ctx.stat(if !tcp_ok { "probe.tcp_delivery_failed" } else if is_req { "probe.unauth_req_over_tcp" } else { "probe.unmatched_resp_over_tcp" }, 1);
                    if tcp_ok {
                        let mut l = led.lock().unwrap();
                        l.last_judged_is_req = Some(is_req);
                    }
                } else {
                    ctx.net.inject(from, a_addr, &bytes);
                }
                tokio::time::sleep(Duration::from_millis(lat_ms(1) + settle_ms)).await;
                let after = observe(&a);
                let t1 = ctx.sh.lock().unwrap().now_ms();
                let (others, delivered) = {
                    let l = led.lock().unwrap();
                    let delivered = if over_tcp { tcp_ok } else { l.injected_delivered > inj0 };
                    (l.deliveries_since(t0 - 500.0).saturating_sub((delivered && !over_tcp && !over_turn) as usize), delivered)
                };
                if !delivered && over_tcp {
                    ctx.stat("probe.tcp_delivery_refused", 1);
                } else if !delivered {
                    ctx.violate("HARNESS.c06-inject", format!("attacker packet not delivered within {} ms", lat_ms(1) + settle_ms));
                }
                let in_target = match target {
                    0 => st_before == IceTransportState::New,
                    1 => st_before == IceTransportState::Checking,
                    _ => connectedish(st_before),
                };
                if in_target && delivered {
                    hit_target += 1;
                }
                ctx.stat(&format!("probe.delivered_in_{:?}", st_before), 1);
                let quiet = others == 0 && t0 - last_api_ms > 500.0 && (t1 - last_api_ms) > 500.0;
                let moves = forbidden_moves(&j.names, &before, &after);
                if after != last_obs {
                    ctx.ev(&format!("A {}", j.names.obs(&after)), "");
                    last_obs = after.clone();
                }
                if judged {
                    ctx.stat(if is_req { "probe.unauth_req" } else { "probe.unmatched_resp" }, 1);
                    if quiet {
                        ctx.stat("probe.differential_judged", 1);
                        if !moves.is_empty() {
                            let oracle = if is_req { "C06.influence" } else { "C06.response" };
                            let kind = moves[0].split(' ').next().unwrap_or("move").to_string();
                            let d = format!(
                                "{} [{sem}] delivered while A was {:?} (role {}, started={}) changed A: {} -> {}; moves: {}",
                                if is_req { "unauthenticated Binding request" } else { "response with no outstanding transaction" },
                                st_before,
                                if role_controlled { "controlled" } else { "controlling" },
                                a_started,
                                j.names.obs(&before),
                                j.names.obs(&after),
                                moves.join("; ")
                            );
                            j.report(oracle, &kind, d);
                        }
                    } else {
                        ctx.stat("probe.differential_ambiguous", 1);
                    }
                } else {
                    ctx.stat(if is_req { "probe.exempt_auth_req" } else { "probe.exempt_maybe_outstanding_resp" }, 1);
                    if quiet && !moves.is_empty() {
                        // positive control: well-formed authenticated packets / live responses do have an effect
                        ctx.stat(if is_req { "probe.auth_req_effect" } else { "probe.live_resp_effect" }, 1);
                    }
                }
                j.invariants(&after, "checkpoint after attacker packet");
            }
        }
    }
    ctx.sleep_until_ms(end_ms).await;
    let fin = observe(&a);
    if fin != last_obs {
        ctx.ev(&format!("A {}", j.names.obs(&fin)), "");
    }
    j.invariants(&fin, "end");
    let fin_b = observe(&b);
    let good = connectedish(fin.state) && fin.sel == Some(b_addr) && connectedish(fin_b.state);
    ctx.ev(&format!("end A {} | B state={:?}", j.names.obs(&fin), fin_b.state), "");
    ctx.stat(if good { "probe.final_connected_to_B" } else { "probe.final_not_connected_to_B" }, 1);
    {
        let l = led.lock().unwrap();
        let clean = l.unauth_req_delivered == 0 && l.unmatched_resp_delivered == 0 && l.injected_delivered == 0;
        // rig self-check: with no attacker packet and no fault the two agents must have connected to each other
        // (B started before A is excluded: `start()` after the peer's nomination puts A back to Checking for good,
        // a rustrtc quirk outside C06 that is only counted)
        if clean && !good && b_start < a_start {
            ctx.stat("probe.start_after_peer_nomination_not_connected", 1);
        }
        if clean && !j.faults_on_wire && !good && b_start >= a_start && end_ms >= b_start + 2500 {
            ctx.violate("HARNESS.c06-noconnect", format!("attacker-free, fault-free run did not connect: A {} B {:?}", j.names.obs(&fin), fin_b.state));
        }
        ctx.stat("probe.auth_req_delivered", l.auth_req_delivered);
        ctx.stat("probe.unauth_req_delivered", l.unauth_req_delivered);
        ctx.stat("probe.unmatched_resp_delivered", l.unmatched_resp_delivered);
        ctx.stat("probe.a_transactions", l.a_tx.len() as u64);
    }
    if !attacker || p.ops.is_empty() {
        ctx.stat("probe.control_runs", 1);
    }
    if hit_target > 0 {
        ctx.stat("nontrivial", 1);
    }
    drop(m_conns);
    if let Some(t) = turn_server {
        t.abort();
    }
    a.stop();
    b.stop();
    tokio::time::sleep(Duration::from_millis(300)).await;
    ta.abort();
    tb.abort();
    let _ = ta.await;
    let _ = tb.await;
    drop(a);
    drop(b);
    tokio::time::sleep(Duration::from_millis(p.knob("tail_ms", 300).clamp(0, 60_000) as u64)).await;
    ctx.stat("probe.live_sockets_at_end", ctx.net.live_sockets().max(0) as u64);
    let now = ctx.now_ms();
    ctx.stat("virt_ms", now);
}
