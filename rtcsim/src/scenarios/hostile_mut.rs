//! C07 mutators: pure functions (bytes, family, seed, count) -> mutants with a description.
//! Own structure walkers (not rustrtc's) locate every length / count / type field of DTLS, STUN,
//! RTP, RTCP and SCTP so that boundary values can be written into them.
use crate::plan::Rng;

#[derive(Clone, Copy, PartialEq, Debug)]
pub enum Proto {
    Dtls,
    Stun,
    Rtp,
    Rtcp,
    Sctp,
    Other,
}

pub fn proto_of(d: &[u8]) -> Proto {
    if d.is_empty() {
        return Proto::Other;
    }
    match d[0] {
        0..=3 => Proto::Stun,
        20..=63 => Proto::Dtls,
        128..=191 => {
            if d.len() >= 2 && (192..=223).contains(&d[1]) {
                Proto::Rtcp
            } else {
                Proto::Rtp
            }
        }
        _ => Proto::Other,
    }
}

/// A numeric field inside a packet: `width` bytes at `off`, big endian; `mask` != 0 restricts a
/// one-byte field to some bits. `rem` = bytes that follow the field's own structure (for length fields).
#[derive(Clone, Debug)]
pub struct Field {
    pub off: usize,
    pub width: usize,
    pub mask: u8,
    pub what: &'static str,
    pub rem: usize,
}
fn f(v: &mut Vec<Field>, d: &[u8], off: usize, width: usize, what: &'static str) {
    if off + width <= d.len() {
        v.push(Field { off, width, mask: 0, what, rem: d.len() - off - width });
    }
}
fn fm(v: &mut Vec<Field>, d: &[u8], off: usize, mask: u8, what: &'static str) {
    if off < d.len() {
        v.push(Field { off, width: 1, mask, what, rem: d.len() - off - 1 });
    }
}
fn be(d: &[u8], off: usize, w: usize) -> usize {
    let mut x = 0usize;
    for i in 0..w {
        x = (x << 8) | *d.get(off + i).unwrap_or(&0) as usize;
    }
    x
}

pub fn read_field(d: &[u8], fl: &Field) -> u32 {
    if fl.mask != 0 {
        ((d[fl.off] & fl.mask) >> fl.mask.trailing_zeros()) as u32
    } else {
        be(d, fl.off, fl.width) as u32
    }
}
pub fn write_field(d: &mut [u8], fl: &Field, v: u32) {
    if fl.mask != 0 {
        let sh = fl.mask.trailing_zeros();
        d[fl.off] = (d[fl.off] & !fl.mask) | (((v << sh) as u8) & fl.mask);
    } else {
        for i in 0..fl.width {
            d[fl.off + i] = (v >> (8 * (fl.width - 1 - i))) as u8;
        }
    }
}
pub fn boundary_values(fl: &Field, cur: u32) -> Vec<u32> {
    let bits = if fl.mask != 0 { fl.mask.count_ones() } else { 8 * fl.width as u32 };
    let max: u32 = if bits >= 32 { u32::MAX } else { (1u32 << bits) - 1 };
    let half = max / 2 + 1;
    let rem = fl.rem as u32;
    let mut v = vec![0, 1, 2, 3, 4, max, max.wrapping_sub(1), half, half.wrapping_sub(1), cur.wrapping_add(1), cur.wrapping_sub(1), cur.wrapping_add(4), cur.wrapping_mul(2), rem, rem.wrapping_add(1), rem.wrapping_sub(1), rem / 4, 15, 16, 255, 256, 65535];
    for x in v.iter_mut() {
        *x &= max;
    }
    v.sort();
    v.dedup();
    v.retain(|x| *x != cur);
    v
}

// ---------------------------------------------------------------------------------------------
// walkers
// ---------------------------------------------------------------------------------------------
fn hello_ext_fields(v: &mut Vec<Field>, d: &[u8], mut p: usize, end: usize) {
    if p + 2 > end {
        return;
    }
    f(v, d, p, 2, "dtls.hello.extensions_len");
    p += 2;
    let mut n = 0;
    while p + 4 <= end && n < 24 {
        f(v, d, p, 2, "dtls.hello.ext_type");
        f(v, d, p + 2, 2, "dtls.hello.ext_len");
        let l = be(d, p + 2, 2);
        // inner list lengths of the common extensions (use_srtp, supported_groups, sig algs, ec point formats)
        if l >= 2 {
            f(v, d, p + 4, 2, "dtls.hello.ext_inner_len16");
            f(v, d, p + 4, 1, "dtls.hello.ext_inner_len8");
        }
        p += 4 + l;
        n += 1;
    }
}

pub fn dtls_fields(d: &[u8]) -> Vec<Field> {
    let mut v = Vec::new();
    let mut off = 0;
    let mut nrec = 0;
    while off + 13 <= d.len() && nrec < 12 {
        let ct = d[off];
        fm(&mut v, d, off, 0xff, "dtls.rec.type");
        f(&mut v, d, off + 1, 2, "dtls.rec.version");
        f(&mut v, d, off + 3, 2, "dtls.rec.epoch");
        f(&mut v, d, off + 5, 2, "dtls.rec.seq_hi");
        f(&mut v, d, off + 11, 2, "dtls.rec.length");
        let len = be(d, off + 11, 2);
        let epoch = be(d, off + 3, 2);
        let end = (off + 13 + len).min(d.len());
        if ct == 22 && epoch == 0 {
            let mut h = off + 13;
            let mut nm = 0;
            while h + 12 <= end && nm < 8 {
                let ty = d[h];
                fm(&mut v, d, h, 0xff, "dtls.hs.type");
                f(&mut v, d, h + 1, 3, "dtls.hs.length");
                f(&mut v, d, h + 4, 2, "dtls.hs.message_seq");
                f(&mut v, d, h + 6, 3, "dtls.hs.fragment_offset");
                f(&mut v, d, h + 9, 3, "dtls.hs.fragment_length");
                let flen = be(d, h + 9, 3);
                let b = h + 12;
                let bend = (b + flen).min(end);
                if be(d, h + 6, 3) == 0 {
                    match ty {
                        1 => {
                            // ClientHello
                            let mut p = b + 34;
                            if p < bend {
                                f(&mut v, d, p, 1, "dtls.ch.session_id_len");
                                p += 1 + d[p] as usize;
                            }
                            if p < bend {
                                f(&mut v, d, p, 1, "dtls.ch.cookie_len");
                                p += 1 + d[p] as usize;
                            }
                            if p + 2 <= bend {
                                f(&mut v, d, p, 2, "dtls.ch.cipher_suites_len");
                                p += 2 + be(d, p, 2);
                            }
                            if p < bend {
                                f(&mut v, d, p, 1, "dtls.ch.compression_len");
                                p += 1 + d[p] as usize;
                            }
                            hello_ext_fields(&mut v, d, p, bend);
                        }
                        2 => {
                            let mut p = b + 34;
                            if p < bend {
                                f(&mut v, d, p, 1, "dtls.sh.session_id_len");
                                p += 1 + d[p] as usize;
                            }
                            f(&mut v, d, p, 2, "dtls.sh.cipher_suite");
                            f(&mut v, d, p + 2, 1, "dtls.sh.compression");
                            hello_ext_fields(&mut v, d, p + 3, bend);
                        }
                        3 => {
                            f(&mut v, d, b + 2, 1, "dtls.hvr.cookie_len");
                        }
                        11 => {
                            f(&mut v, d, b, 3, "dtls.cert.list_len");
                            let mut p = b + 3;
                            let mut nc = 0;
                            while p + 3 <= bend && nc < 4 {
                                f(&mut v, d, p, 3, "dtls.cert.cert_len");
                                // DER outer SEQUENCE length of the certificate itself
                                f(&mut v, d, p + 3, 1, "dtls.cert.der_tag");
                                f(&mut v, d, p + 4, 1, "dtls.cert.der_lenlen");
                                f(&mut v, d, p + 5, 2, "dtls.cert.der_len");
                                p += 3 + be(d, p, 3);
                                nc += 1;
                            }
                        }
                        12 => {
                            f(&mut v, d, b, 1, "dtls.ske.curve_type");
                            f(&mut v, d, b + 1, 2, "dtls.ske.named_curve");
                            f(&mut v, d, b + 3, 1, "dtls.ske.point_len");
                            let p = b + 4 + *d.get(b + 3).unwrap_or(&0) as usize;
                            f(&mut v, d, p, 2, "dtls.ske.sig_alg");
                            f(&mut v, d, p + 2, 2, "dtls.ske.sig_len");
                            f(&mut v, d, p + 4, 1, "dtls.ske.sig_der_tag");
                            f(&mut v, d, p + 5, 1, "dtls.ske.sig_der_len");
                        }
                        16 => {
                            f(&mut v, d, b, 1, "dtls.cke.point_len");
                            f(&mut v, d, b + 1, 1, "dtls.cke.point_format");
                        }
                        _ => {}
                    }
                }
                h = b + flen;
                nm += 1;
            }
        } else if ct == 21 && epoch == 0 {
            f(&mut v, d, off + 13, 1, "dtls.alert.level");
            f(&mut v, d, off + 14, 1, "dtls.alert.description");
        } else if epoch > 0 {
            f(&mut v, d, off + 13, 2, "dtls.rec.explicit_nonce_epoch");
        }
        off += 13 + len;
        nrec += 1;
    }
    v
}

pub fn stun_fields(d: &[u8]) -> Vec<Field> {
    let mut v = Vec::new();
    f(&mut v, d, 0, 2, "stun.type");
    f(&mut v, d, 2, 2, "stun.length");
    f(&mut v, d, 4, 4, "stun.cookie");
    let mut p = 20;
    let mut n = 0;
    while p + 4 <= d.len() && n < 24 {
        let ty = be(d, p, 2);
        let l = be(d, p + 2, 2);
        f(&mut v, d, p, 2, "stun.attr.type");
        f(&mut v, d, p + 2, 2, "stun.attr.length");
        match ty {
            0x0001 | 0x0020 | 0x0012 | 0x0016 | 0x8023 => {
                f(&mut v, d, p + 4, 1, "stun.addr.reserved");
                f(&mut v, d, p + 5, 1, "stun.addr.family");
                f(&mut v, d, p + 6, 2, "stun.addr.port");
            }
            0x0009 => {
                f(&mut v, d, p + 6, 1, "stun.error.class");
                f(&mut v, d, p + 7, 1, "stun.error.number");
            }
            0x000c => f(&mut v, d, p + 4, 2, "stun.channel_number"),
            _ => {}
        }
        p += 4 + ((l + 3) & !3);
        n += 1;
    }
    v
}

pub fn rtp_fields(d: &[u8]) -> Vec<Field> {
    let mut v = Vec::new();
    fm(&mut v, d, 0, 0xc0, "rtp.version");
    fm(&mut v, d, 0, 0x20, "rtp.padding_bit");
    fm(&mut v, d, 0, 0x10, "rtp.extension_bit");
    fm(&mut v, d, 0, 0x0f, "rtp.csrc_count");
    fm(&mut v, d, 1, 0x7f, "rtp.payload_type");
    fm(&mut v, d, 1, 0x80, "rtp.marker");
    f(&mut v, d, 2, 2, "rtp.seq");
    f(&mut v, d, 4, 4, "rtp.timestamp");
    f(&mut v, d, 8, 4, "rtp.ssrc");
    if d.len() < 12 {
        return v;
    }
    let cc = (d[0] & 0x0f) as usize;
    let mut p = 12 + 4 * cc;
    if d[0] & 0x10 != 0 && p + 4 <= d.len() {
        f(&mut v, d, p, 2, "rtp.ext.profile");
        f(&mut v, d, p + 2, 2, "rtp.ext.length_words");
        let profile = be(d, p, 2);
        let el = be(d, p + 2, 2) * 4;
        let end = (p + 4 + el).min(d.len());
        let mut q = p + 4;
        let mut n = 0;
        while q < end && n < 20 {
            if profile == 0xBEDE {
                if d[q] == 0 {
                    q += 1;
                    continue;
                }
                fm(&mut v, d, q, 0xf0, "rtp.ext1.id");
                fm(&mut v, d, q, 0x0f, "rtp.ext1.len");
                q += 2 + (d[q] & 0x0f) as usize;
            } else {
                f(&mut v, d, q, 1, "rtp.ext2.id");
                f(&mut v, d, q + 1, 1, "rtp.ext2.len");
                q += 2 + *d.get(q + 1).unwrap_or(&0) as usize;
            }
            n += 1;
        }
        p = end;
    }
    // first payload bytes (codec payload descriptors: VP8 descriptor / H.264 NAL header, RTX OSN)
    for i in 0..4 {
        f(&mut v, d, p + i, 1, "rtp.payload.byte");
    }
    f(&mut v, d, p + 1, 2, "rtp.payload.len16");
    if !d.is_empty() {
        f(&mut v, d, d.len() - 1, 1, "rtp.last_byte(padding count)");
    }
    v
}

pub fn rtcp_fields(d: &[u8]) -> Vec<Field> {
    let mut v = Vec::new();
    let mut p = 0;
    let mut n = 0;
    while p + 4 <= d.len() && n < 10 {
        fm(&mut v, d, p, 0xc0, "rtcp.version");
        fm(&mut v, d, p, 0x20, "rtcp.padding_bit");
        fm(&mut v, d, p, 0x1f, "rtcp.count");
        f(&mut v, d, p + 1, 1, "rtcp.packet_type");
        f(&mut v, d, p + 2, 2, "rtcp.length_words");
        let pt = d[p + 1];
        let l = (be(d, p + 2, 2) + 1) * 4;
        let end = (p + l).min(d.len());
        match pt {
            202 => {
                // SDES: chunks of SSRC + items
                let mut q = p + 8;
                let mut k = 0;
                while q + 2 <= end && k < 8 {
                    f(&mut v, d, q, 1, "rtcp.sdes.item_type");
                    f(&mut v, d, q + 1, 1, "rtcp.sdes.item_len");
                    if d[q] == 0 {
                        break;
                    }
                    q += 2 + d[q + 1] as usize;
                    k += 1;
                }
            }
            203 => {
                let q = p + 4 + 4 * (d[p] & 0x1f) as usize;
                f(&mut v, d, q, 1, "rtcp.bye.reason_len");
            }
            205 | 206 => {
                f(&mut v, d, p + 12, 2, "rtcp.fb.fci0");
                f(&mut v, d, p + 14, 2, "rtcp.fb.fci1");
                f(&mut v, d, p + 16, 1, "rtcp.fb.remb_num_ssrc");
                f(&mut v, d, p + 17, 1, "rtcp.fb.remb_exp");
            }
            _ => {}
        }
        f(&mut v, d, end.saturating_sub(1), 1, "rtcp.last_byte(padding count)");
        p += l;
        n += 1;
    }
    v
}

pub fn sctp_param_fields(v: &mut Vec<Field>, d: &[u8], mut p: usize, end: usize) {
    let mut n = 0;
    while p + 4 <= end && n < 16 {
        f(v, d, p, 2, "sctp.param.type");
        f(v, d, p + 2, 2, "sctp.param.length");
        let l = be(d, p + 2, 2);
        if l < 4 {
            break;
        }
        p += (l + 3) & !3;
        n += 1;
    }
}

pub fn sctp_fields(d: &[u8]) -> Vec<Field> {
    let mut v = Vec::new();
    f(&mut v, d, 0, 2, "sctp.src_port");
    f(&mut v, d, 2, 2, "sctp.dst_port");
    f(&mut v, d, 4, 4, "sctp.vtag");
    let mut p = 12;
    let mut n = 0;
    while p + 4 <= d.len() && n < 12 {
        let ty = d[p];
        f(&mut v, d, p, 1, "sctp.chunk.type");
        f(&mut v, d, p + 1, 1, "sctp.chunk.flags");
        f(&mut v, d, p + 2, 2, "sctp.chunk.length");
        let l = be(d, p + 2, 2);
        let end = (p + l.max(4)).min(d.len());
        let b = p + 4;
        match ty {
            0 => {
                f(&mut v, d, b, 4, "sctp.data.tsn");
                f(&mut v, d, b + 4, 2, "sctp.data.stream_id");
                f(&mut v, d, b + 6, 2, "sctp.data.ssn");
                f(&mut v, d, b + 8, 4, "sctp.data.ppid");
                if be(d, b + 8, 4) == 50 {
                    f(&mut v, d, b + 12, 1, "dcep.msg_type");
                    f(&mut v, d, b + 13, 1, "dcep.channel_type");
                    f(&mut v, d, b + 14, 2, "dcep.priority");
                    f(&mut v, d, b + 16, 4, "dcep.reliability");
                    f(&mut v, d, b + 20, 2, "dcep.label_len");
                    f(&mut v, d, b + 22, 2, "dcep.protocol_len");
                }
            }
            1 | 2 => {
                f(&mut v, d, b, 4, "sctp.init.tag");
                f(&mut v, d, b + 4, 4, "sctp.init.a_rwnd");
                f(&mut v, d, b + 8, 2, "sctp.init.out_streams");
                f(&mut v, d, b + 10, 2, "sctp.init.in_streams");
                f(&mut v, d, b + 12, 4, "sctp.init.tsn");
                sctp_param_fields(&mut v, d, b + 16, end);
            }
            3 => {
                f(&mut v, d, b, 4, "sctp.sack.cum_tsn");
                f(&mut v, d, b + 4, 4, "sctp.sack.a_rwnd");
                f(&mut v, d, b + 8, 2, "sctp.sack.num_gaps");
                f(&mut v, d, b + 10, 2, "sctp.sack.num_dups");
                f(&mut v, d, b + 12, 2, "sctp.sack.gap_start");
                f(&mut v, d, b + 14, 2, "sctp.sack.gap_end");
            }
            4 | 5 => {
                f(&mut v, d, b, 2, "sctp.hb.info_type");
                f(&mut v, d, b + 2, 2, "sctp.hb.info_len");
            }
            6 | 9 => {
                f(&mut v, d, b, 2, "sctp.cause.code");
                f(&mut v, d, b + 2, 2, "sctp.cause.length");
            }
            7 => f(&mut v, d, b, 4, "sctp.shutdown.cum_tsn"),
            10 => {
                f(&mut v, d, b, 4, "sctp.cookie.word0");
                f(&mut v, d, b + 4, 4, "sctp.cookie.word1");
            }
            130 => {
                f(&mut v, d, b, 2, "sctp.reconfig.param_type");
                f(&mut v, d, b + 2, 2, "sctp.reconfig.param_len");
                f(&mut v, d, b + 4, 4, "sctp.reconfig.req_seq");
                f(&mut v, d, b + 8, 4, "sctp.reconfig.resp_seq_or_result");
                f(&mut v, d, b + 12, 4, "sctp.reconfig.last_tsn");
                f(&mut v, d, b + 16, 2, "sctp.reconfig.stream0");
            }
            192 => {
                f(&mut v, d, b, 4, "sctp.fwd.new_cum_tsn");
                f(&mut v, d, b + 4, 2, "sctp.fwd.stream_id");
                f(&mut v, d, b + 6, 2, "sctp.fwd.ssn");
            }
            _ => {}
        }
        if l < 4 {
            break;
        }
        p += (l + 3) & !3;
        n += 1;
    }
    v
}

pub fn fields_of(proto: Proto, d: &[u8]) -> Vec<Field> {
    match proto {
        Proto::Dtls => dtls_fields(d),
        Proto::Stun => stun_fields(d),
        Proto::Rtp => rtp_fields(d),
        Proto::Rtcp => rtcp_fields(d),
        Proto::Sctp => sctp_fields(d),
        Proto::Other => Vec::new(),
    }
}

/// Split a packet into its top-level units (DTLS records, STUN header + attributes, RTCP packets,
/// SCTP common header + chunks); `None` when the protocol has no such list.
pub fn units(proto: Proto, d: &[u8]) -> Option<(Vec<u8>, Vec<Vec<u8>>)> {
    let mut out = Vec::new();
    match proto {
        Proto::Dtls => {
            let mut off = 0;
            while off + 13 <= d.len() {
                let l = be(d, off + 11, 2);
                let end = (off + 13 + l).min(d.len());
                out.push(d[off..end].to_vec());
                off = end;
            }
            Some((Vec::new(), out))
        }
        Proto::Stun => {
            if d.len() < 20 {
                return None;
            }
            let mut p = 20;
            while p + 4 <= d.len() {
                let l = be(d, p + 2, 2);
                let end = (p + 4 + ((l + 3) & !3)).min(d.len());
                out.push(d[p..end].to_vec());
                p = end;
            }
            Some((d[..20].to_vec(), out))
        }
        Proto::Rtcp => {
            let mut p = 0;
            while p + 4 <= d.len() {
                let l = (be(d, p + 2, 2) + 1) * 4;
                let end = (p + l).min(d.len());
                out.push(d[p..end].to_vec());
                p = end;
            }
            Some((Vec::new(), out))
        }
        Proto::Sctp => {
            if d.len() < 12 {
                return None;
            }
            let mut p = 12;
            while p + 4 <= d.len() {
                let l = be(d, p + 2, 2).max(4);
                let end = (p + ((l + 3) & !3)).min(d.len());
                out.push(d[p..end].to_vec());
                p = end;
            }
            Some((d[..12].to_vec(), out))
        }
        _ => None,
    }
}

fn join(proto: Proto, head: &[u8], us: &[Vec<u8>]) -> Vec<u8> {
    let mut o = head.to_vec();
    for u in us {
        o.extend_from_slice(u);
    }
    if proto == Proto::Stun && o.len() >= 20 {
        let l = (o.len() - 20) as u16;
        o[2..4].copy_from_slice(&l.to_be_bytes());
    }
    o
}

pub const FAMILIES: &[&str] = &["bitflip", "truncate", "extend", "lenfield", "shuffle", "refragment", "byteset", "splice"];
pub const N_FAMILIES: i64 = 8;

pub struct Mutant {
    pub bytes: Vec<u8>,
    pub what: String,
}

fn hs_msg(ty: u8, msg_seq: u16, total: usize, off: usize, frag: &[u8], frag_len_field: usize) -> Vec<u8> {
    let mut m = vec![ty];
    m.extend_from_slice(&(total as u32).to_be_bytes()[1..]);
    m.extend_from_slice(&msg_seq.to_be_bytes());
    m.extend_from_slice(&(off as u32).to_be_bytes()[1..]);
    m.extend_from_slice(&(frag_len_field as u32).to_be_bytes()[1..]);
    m.extend_from_slice(frag);
    m
}
fn rec(ct: u8, epoch: u16, seq: u64, body: &[u8]) -> Vec<u8> {
    let mut d = vec![ct, 0xfe, 0xfd];
    d.extend_from_slice(&epoch.to_be_bytes());
    d.extend_from_slice(&seq.to_be_bytes()[2..]);
    d.extend_from_slice(&(body.len() as u16).to_be_bytes());
    d.extend_from_slice(body);
    d
}

/// legal and illegal re-fragmentation of the first epoch-0 handshake message of a datagram
fn refragment(d: &[u8], r: &mut Rng, k: usize) -> Option<Mutant> {
    if d.len() < 25 || d[0] != 22 || be(d, 3, 2) != 0 {
        return None;
    }
    let rl = be(d, 11, 2);
    let rend = (13 + rl).min(d.len());
    let ty = d[13];
    let total = be(d, 14, 3);
    let mseq = be(d, 17, 2) as u16;
    let flen = be(d, 22, 3);
    let body = &d[25..(25 + flen).min(rend)];
    let seq0 = be(d, 5, 6) as u64;
    let n = body.len();
    let variant = k % 10;
    let mut out = Vec::new();
    let push = |out: &mut Vec<u8>, i: u64, m: Vec<u8>| out.extend_from_slice(&rec(22, 0, seq0 + 0x100 * (i + 1), &m));
    let what;
    match variant {
        0 | 1 => {
            // legal split into 2..5 fragments, in order (0) or reversed (1), all in one datagram
            let parts = 2 + r.below(4) as usize;
            let step = n.div_ceil(parts).max(1);
            let mut frs = Vec::new();
            let mut o = 0;
            while o < n {
                let e = (o + step).min(n);
                frs.push(hs_msg(ty, mseq, total, o, &body[o..e], e - o));
                o = e;
            }
            if variant == 1 {
                frs.reverse();
            }
            for (i, m) in frs.into_iter().enumerate() {
                push(&mut out, i as u64, m);
            }
            what = format!("refragment legal parts={parts} reversed={}", variant == 1);
        }
        2 => {
            // overlapping fragments
            let h = n / 2;
            push(&mut out, 0, hs_msg(ty, mseq, total, 0, &body[..(h + 7).min(n)], (h + 7).min(n)));
            push(&mut out, 1, hs_msg(ty, mseq, total, h.saturating_sub(5), &body[h.saturating_sub(5)..], n - h.saturating_sub(5)));
            what = "refragment overlapping".into();
        }
        3 => {
            // fragment offset beyond total length
            push(&mut out, 0, hs_msg(ty, mseq, total, total + 1 + r.below(70000) as usize, &body[..n.min(20)], n.min(20)));
            what = "refragment offset beyond total".into();
        }
        4 => {
            // huge total length, tiny fragment (reassembly buffer sizing)
            let t = *r.pick(&[0xff_ffffusize, 0x80_0000, 0x01_0000, 65535, n + 1]);
            push(&mut out, 0, hs_msg(ty, mseq, t, 0, &body[..n.min(8)], n.min(8)));
            what = format!("refragment total_length={t} with 8-byte fragment");
        }
        5 => {
            // zero-length fragments, many of them
            for i in 0..(1 + r.below(40)) {
                push(&mut out, i, hs_msg(ty, mseq, total, r.below(total as u64 + 1) as usize, &[], 0));
            }
            what = "refragment zero-length fragments".into();
        }
        6 => {
            // fragment_length field larger than the data present
            push(&mut out, 0, hs_msg(ty, mseq, total, 0, &body[..n / 2], n));
            what = "refragment fragment_length beyond record".into();
        }
        7 => {
            // total_length smaller than fragment_length / inconsistent across fragments
            push(&mut out, 0, hs_msg(ty, mseq, n / 3, 0, &body[..n / 2], n / 2));
            push(&mut out, 1, hs_msg(ty, mseq, n * 2, n / 2, &body[n / 2..], n - n / 2));
            what = "refragment inconsistent total_length".into();
        }
        8 => {
            // first fragment only, then the same message_seq restarted at offset 0 with other content
            push(&mut out, 0, hs_msg(ty, mseq, total, 0, &body[..n / 2], n / 2));
            push(&mut out, 1, hs_msg(ty, mseq, total, 0, &body[..n / 3], n / 3));
            push(&mut out, 2, hs_msg(ty, mseq, total, n / 2, &body[n / 2..], n - n / 2));
            what = "refragment restart at offset 0".into();
        }
        _ => {
            // two handshake messages inside one record, the second cut short
            let mut m = hs_msg(ty, mseq, total, 0, body, n);
            let m2 = hs_msg(ty, mseq.wrapping_add(1), total, 0, body, n);
            m.extend_from_slice(&m2[..(12 + r.below(n as u64 + 1) as usize).min(m2.len())]);
            push(&mut out, 0, m);
            what = "refragment two messages in one record, second truncated".into();
        }
    }
    Some(Mutant { bytes: out, what })
}

/// `count` mutants of `data` of one family; deterministic in (data, family, seed).
pub fn fan(proto: Proto, data: &[u8], family: i64, seed: u64, count: usize) -> Vec<Mutant> {
    let mut r = Rng::new(seed ^ 0x6d75_7461_6e74);
    let mut out = Vec::new();
    if data.is_empty() {
        return out;
    }
    let n = data.len();
    let fam = family.rem_euclid(N_FAMILIES);
    let flds = fields_of(proto, data);
    let start = r.below(1 << 30) as usize;
    for k in 0..count {
        let m = match fam {
            0 => {
                // single bit flips, positions spread over the packet with a bias to the first 64 bytes
                let bit = if k % 3 == 0 { (start + k * 7) % (n.min(64) * 8) } else { (start + k * 131) % (n * 8) };
                let mut d = data.to_vec();
                d[bit / 8] ^= 1 << (bit % 8);
                Mutant { bytes: d, what: format!("bitflip bit={bit}") }
            }
            1 => {
                let l = (start + k) % n;
                Mutant { bytes: data[..l].to_vec(), what: format!("truncate to={l}") }
            }
            2 => {
                let target = [1500usize, 9000, 65507, n + 1, n + 3, 2048, 2049, 1200][(start + k) % 8];
                let mut d = data.to_vec();
                let mode = (start / 8 + k) % 3;
                while d.len() < target {
                    match mode {
                        0 => d.push(0),
                        1 => d.push(r.next() as u8),
                        _ => {
                            let c = data[d.len() % n];
                            d.push(c)
                        }
                    }
                }
                Mutant { bytes: d, what: format!("extend to={target} fill={mode}") }
            }
            3 => {
                if flds.is_empty() {
                    continue;
                }
                let fl = &flds[(start + k) % flds.len()];
                let cur = read_field(data, fl);
                let vals = boundary_values(fl, cur);
                if vals.is_empty() {
                    continue;
                }
                let val = vals[((start / 64) + k / flds.len().max(1) + k) % vals.len()];
                let mut d = data.to_vec();
                write_field(&mut d, fl, val);
                Mutant { bytes: d, what: format!("lenfield {}@{} {}->{}", fl.what, fl.off, cur, val) }
            }
            4 => {
                let Some((head, us)) = units(proto, data) else { continue };
                if us.is_empty() {
                    continue;
                }
                let mut us2 = us.clone();
                let what = match (start + k) % 5 {
                    0 => {
                        let i = r.below(us.len() as u64) as usize;
                        us2.insert(i, us[i].clone());
                        format!("shuffle duplicate unit {i}")
                    }
                    1 => {
                        us2.reverse();
                        "shuffle reverse units".to_string()
                    }
                    2 => {
                        let i = r.below(us.len() as u64) as usize;
                        us2.remove(i);
                        format!("shuffle delete unit {i}")
                    }
                    3 => {
                        let i = r.below(us.len() as u64) as usize;
                        let reps = 2 + r.below(60) as usize;
                        let u = us[i].clone();
                        for _ in 0..reps {
                            if us2.iter().map(|x| x.len()).sum::<usize>() + u.len() > 1400 {
                                break;
                            }
                            us2.push(u.clone());
                        }
                        format!("shuffle repeat unit {i} up to {reps} times")
                    }
                    _ => {
                        let i = r.below(us.len() as u64) as usize;
                        let j = r.below(us.len() as u64) as usize;
                        us2.swap(i, j);
                        let cut = r.below(us2[us2.len() - 1].len() as u64 + 1) as usize;
                        let last = us2.len() - 1;
                        us2[last].truncate(cut);
                        format!("shuffle swap {i}/{j} and cut last unit to {cut}")
                    }
                };
                Mutant { bytes: join(proto, &head, &us2), what }
            }
            5 => match refragment(data, &mut r, start + k) {
                Some(m) => m,
                None => continue,
            },
            6 => {
                let pos = if !flds.is_empty() && k % 2 == 0 { flds[(start + k) % flds.len()].off } else { (start + k * 13) % n };
                let val = [0x00u8, 0xff, 0x7f, 0x80, 0x01, 0xfe, 0x40, 0x0f][(start / 3 + k) % 8];
                let mut d = data.to_vec();
                d[pos] = val;
                Mutant { bytes: d, what: format!("byteset [{pos}]={val:#04x}") }
            }
            _ => {
                let mut d = data.to_vec();
                let pos = r.below(n as u64) as usize;
                let span = 1 + r.below(24.min(n as u64)) as usize;
                let what = match (start + k) % 3 {
                    0 => {
                        let e = (pos + span).min(n);
                        for b in d[pos..e].iter_mut() {
                            *b = r.next() as u8;
                        }
                        format!("splice randomise [{pos}..{e}]")
                    }
                    1 => {
                        let e = (pos + span).min(n);
                        d.drain(pos..e);
                        format!("splice delete [{pos}..{e}]")
                    }
                    _ => {
                        let mut ins = vec![0u8; span];
                        r.fill(&mut ins);
                        let tail = d.split_off(pos);
                        d.extend_from_slice(&ins);
                        d.extend_from_slice(&tail);
                        format!("splice insert {span} at {pos}")
                    }
                };
                Mutant { bytes: d, what }
            }
        };
        if m.bytes.as_slice() != data {
            out.push(m);
        }
    }
    out
}

pub fn hex48(b: &[u8]) -> String {
    b.iter().take(48).map(|x| format!("{x:02x}")).collect()
}
