//! Scenario `signaling` (C09): two PeerConnections A and B on the simulated network execute a
//! PROGRAM of 1..12 signaling API calls (plan.ops, strictly in order). After every call the
//! reported signaling state is compared with a reference JSEP offer/answer machine (C09.state)
//! and, when the call returned Err, a snapshot of {signaling state, local/remote description,
//! every transceiver's mid / direction / kind / payload map / extmap, transceiver count} taken
//! before the call is compared with one taken after it (C09.atomic).
//!
//! Op encoding (all values <= 64 so that the generic shrinker leaves them alone):
//!   kind in {create_offer, create_answer, set_local, set_remote, close}
//!   a = [side (0 = A, 1 = B), what, edit, pause_ms]        (what/edit ignored by create_* / close)
//!   what: 0 own latest create_offer/create_answer result   1 peer's latest offer (as text)
//!         2 peer's latest answer (as text)                 3 peer's previous (stale) offer
//!         4 peer's previous (stale) answer                 5 duplicate of the description last applied by this call kind
//!         6 provisional answer (set_local: own latest retyped, set_remote: peer's latest answer retyped)
//!         7 rollback                                       8 own previous (stale) create_* result
//!   edit: 0 none; 1 payload type changed; 2 direction changed; 3 a=mid changed; 4 extra m-section;
//!         5 fingerprint changed; 6 fingerprint removed; 7 a=mid:65535; 8 media kind swapped; 9 duplicate mids;
//!         10 fingerprint algorithm sha-1; 11 no m-sections; 12 extmap id changed; 13 unknown media kind
//!         (does not parse -> the call cannot be made, counted); 14 a=crypto removed; 15 c= address changed
//! Knobs: mode 0 WebRtc / 1 Srtp / 2 Rtp; mix (rig_pc, data channels dropped outside WebRtc mode);
//!   pre 0 fresh / 1 negotiated once, transports still starting / 2 negotiated once and connected;
//!   bmedia 1 = B owns its tracks / channel before anything is signalled; offerer (of the pre round);
//!   bundle / mux / compat as in rig_pc.
use super::Tier;
use crate::plan::*;
use crate::rig_pc::{negotiate, PcKnobs, Peer};
use crate::sim::Ctx;
use futures::FutureExt;
use rustrtc::{RtcError, SdpType, SessionDescription, SignalingState};
use std::time::Duration;

// ---------------------------------------------------------------------------------------------
// reference model
// ---------------------------------------------------------------------------------------------
#[derive(Clone, Copy, PartialEq, Eq, Debug)]
enum St {
    Stable,
    HaveLocalOffer,
    HaveRemoteOffer,
    Closed,
}

fn st_of(s: SignalingState) -> St {
    match s {
        SignalingState::Stable => St::Stable,
        SignalingState::HaveLocalOffer => St::HaveLocalOffer,
        SignalingState::HaveRemoteOffer => St::HaveRemoteOffer,
        SignalingState::Closed => St::Closed,
    }
}

#[derive(Clone, Copy, PartialEq, Eq, Debug)]
enum Call {
    CreateOffer,
    CreateAnswer,
    SetLocal(SdpType),
    SetRemote(SdpType),
}

/// None = the JSEP machine (as rustrtc documents it: no pranswer states, no rollback) forbids the
/// call in this state, it must return Err. Some(next) = the machine allows it; if it returns Ok the
/// state must be `next` (it may still return Err for reasons of content, or because rustrtc is
/// stricter than JSEP - re-offer in have-local-offer - and then nothing may change).
fn model(st: St, call: Call) -> Option<St> {
    use St::*;
    if st == Closed {
        return None;
    }
    match call {
        Call::CreateOffer => match st {
            Stable | HaveLocalOffer => Some(st),
            _ => None,
        },
        Call::CreateAnswer => match st {
            HaveRemoteOffer => Some(st),
            _ => None,
        },
        Call::SetLocal(SdpType::Offer) => match st {
            Stable | HaveLocalOffer => Some(HaveLocalOffer),
            _ => None,
        },
        Call::SetLocal(SdpType::Answer) => match st {
            HaveRemoteOffer => Some(Stable),
            _ => None,
        },
        Call::SetLocal(SdpType::Pranswer) => match st {
            HaveRemoteOffer => Some(HaveRemoteOffer),
            _ => None,
        },
        Call::SetRemote(SdpType::Offer) => match st {
            Stable | HaveRemoteOffer => Some(HaveRemoteOffer),
            _ => None,
        },
        Call::SetRemote(SdpType::Answer) => match st {
            HaveLocalOffer => Some(Stable),
            _ => None,
        },
        Call::SetRemote(SdpType::Pranswer) => match st {
            HaveLocalOffer => Some(HaveLocalOffer),
            _ => None,
        },
        Call::SetLocal(SdpType::Rollback) | Call::SetRemote(SdpType::Rollback) => None,
    }
}

// ---------------------------------------------------------------------------------------------
// snapshot
// ---------------------------------------------------------------------------------------------
#[derive(Clone, PartialEq, Debug)]
struct TrSnap {
    id: u64,
    mid: Option<String>,
    dir: String,
    kind: String,
    pm: Vec<String>,
    ext: Vec<String>,
}

#[derive(Clone, PartialEq, Debug)]
struct Snap {
    state: St,
    local: Option<(String, Vec<String>)>,
    remote: Option<(String, Vec<String>)>,
    trs: Vec<TrSnap>,
}

fn desc_lines(d: &Option<SessionDescription>) -> Option<(String, Vec<String>)> {
    d.as_ref().map(|d| {
        let lines = d.to_sdp_string().lines().map(|l| l.trim_end().to_string()).filter(|l| !l.starts_with("a=candidate:") && l != "a=end-of-candidates").collect();
        (d.sdp_type.as_str().to_string(), lines)
    })
}

fn snapshot(pc: &rustrtc::PeerConnection) -> Snap {
    let trs = pc
        .get_transceivers()
        .iter()
        .map(|t| {
            let mut pm: Vec<(u8, String)> = t.get_payload_map().into_iter().map(|(pt, c)| (pt, format!("{pt}:{}/{}/{}", c.name, c.clock_rate, c.channels))).collect();
            pm.sort();
            let mut ext: Vec<(u8, String)> = t.get_extmap().into_iter().map(|(id, u)| (id, format!("{id}={u}"))).collect();
            ext.sort();
            TrSnap { id: t.id(), mid: t.mid(), dir: format!("{:?}", t.direction()), kind: format!("{:?}", t.kind()), pm: pm.into_iter().map(|x| x.1).collect(), ext: ext.into_iter().map(|x| x.1).collect() }
        })
        .collect();
    Snap { state: st_of(pc.signaling_state()), local: desc_lines(&pc.local_description()), remote: desc_lines(&pc.remote_description()), trs }
}

fn desc_diff(name: &str, a: &Option<(String, Vec<String>)>, b: &Option<(String, Vec<String>)>, out: &mut Vec<String>) {
    if a == b {
        return;
    }
    let show = |d: &Option<(String, Vec<String>)>| match d {
        None => "none".to_string(),
        Some((t, l)) => format!("{t}/{} lines", l.len()),
    };
    let mut first = String::new();
    if let (Some((_, la)), Some((_, lb))) = (a, b) {
        let n = la.len().max(lb.len());
        for i in 0..n {
            if la.get(i) != lb.get(i) {
                first = format!(" first difference at line {i}: {:?} -> {:?}", la.get(i).map(|s| s.as_str()).unwrap_or("<end>"), lb.get(i).map(|s| s.as_str()).unwrap_or("<end>"));
                break;
            }
        }
    }
    out.push(format!("{name}: {} -> {}{first}", show(a), show(b)));
}

/// names of the fields that differ (empty = equal), with their before -> after values
fn diff(a: &Snap, b: &Snap) -> Vec<String> {
    let mut out = Vec::new();
    if a.state != b.state {
        out.push(format!("signaling_state: {:?} -> {:?}", a.state, b.state));
    }
    desc_diff("local_description", &a.local, &b.local, &mut out);
    desc_diff("remote_description", &a.remote, &b.remote, &mut out);
    if a.trs.len() != b.trs.len() {
        out.push(format!("transceiver_count: {} -> {}", a.trs.len(), b.trs.len()));
    }
    for (i, (x, y)) in a.trs.iter().zip(b.trs.iter()).enumerate() {
        if x.id != y.id {
            out.push(format!("tr[{i}].identity: replaced"));
        }
        if x.mid != y.mid {
            out.push(format!("tr[{i}].mid: {:?} -> {:?}", x.mid, y.mid));
        }
        if x.dir != y.dir {
            out.push(format!("tr[{i}].direction: {} -> {}", x.dir, y.dir));
        }
        if x.kind != y.kind {
            out.push(format!("tr[{i}].kind: {} -> {}", x.kind, y.kind));
        }
        if x.pm != y.pm {
            out.push(format!("tr[{i}].payload_map: {:?} -> {:?}", x.pm, y.pm));
        }
        if x.ext != y.ext {
            out.push(format!("tr[{i}].extmap: {:?} -> {:?}", x.ext, y.ext));
        }
    }
    out
}

// ---------------------------------------------------------------------------------------------
// SDP text edits (what an application or an intermediary could do to the text in transit)
// ---------------------------------------------------------------------------------------------
fn section_starts(lines: &[String]) -> Vec<usize> {
    lines.iter().enumerate().filter(|(_, l)| l.starts_with("m=")).map(|(i, _)| i).collect()
}
fn section_end(lines: &[String], starts: &[usize], k: usize) -> usize {
    starts.get(k + 1).copied().unwrap_or(lines.len())
}
fn first_rtp_section(lines: &[String], starts: &[usize]) -> Option<usize> {
    (0..starts.len()).find(|k| lines[starts[*k]].starts_with("m=audio") || lines[starts[*k]].starts_with("m=video"))
}
fn extra_section(lines: &[String], starts: &[usize], mid: &str) -> Vec<String> {
    if let Some(k) = first_rtp_section(lines, starts) {
        let mut blk: Vec<String> = lines[starts[k]..section_end(lines, starts, k)].to_vec();
        for l in blk.iter_mut() {
            if l.starts_with("a=mid:") {
                *l = format!("a=mid:{mid}");
            }
        }
        blk.retain(|l| !l.starts_with("a=ssrc") && !l.starts_with("a=msid"));
        blk
    } else {
        let mut blk = vec!["m=audio 9 UDP/TLS/RTP/SAVPF 111".to_string(), "c=IN IP4 0.0.0.0".to_string()];
        if let Some(s0) = starts.first() {
            for l in &lines[*s0..section_end(lines, starts, 0)] {
                if l.starts_with("a=ice-ufrag") || l.starts_with("a=ice-pwd") || l.starts_with("a=fingerprint") || l.starts_with("a=setup") {
                    blk.push(l.clone());
                }
            }
        }
        blk.extend([format!("a=mid:{mid}"), "a=sendrecv".into(), "a=rtcp-mux".into(), "a=rtpmap:111 opus/48000/2".into()]);
        blk
    }
}

pub fn edit_sdp(text: &str, edit: i64) -> String {
    let mut lines: Vec<String> = text.lines().map(|l| l.trim_end().to_string()).filter(|l| !l.is_empty()).collect();
    let starts = section_starts(&lines);
    match edit {
        1 => {
            if let Some(k) = first_rtp_section(&lines, &starts) {
                let (s, e) = (starts[k], section_end(&lines, &starts, k));
                let toks: Vec<String> = lines[s].split_whitespace().map(|x| x.to_string()).collect();
                if toks.len() > 3 {
                    let old = toks[3].clone();
                    let new = ["119", "118", "117"].iter().find(|c| !toks[3..].iter().any(|t| t == *c)).unwrap_or(&"119").to_string();
                    let mut t2 = toks.clone();
                    t2[3] = new.clone();
                    lines[s] = t2.join(" ");
                    for l in lines[s + 1..e].iter_mut() {
                        for p in ["a=rtpmap:", "a=fmtp:", "a=rtcp-fb:"] {
                            if let Some(rest) = l.strip_prefix(p) {
                                if let Some(r2) = rest.strip_prefix(old.as_str()) {
                                    if r2.starts_with(' ') {
                                        *l = format!("{p}{new}{r2}");
                                    }
                                }
                            }
                        }
                    }
                }
            }
        }
        2 => {
            if let Some(k) = first_rtp_section(&lines, &starts) {
                let e = section_end(&lines, &starts, k);
                for l in lines[starts[k]..e].iter_mut() {
                    let n = match l.as_str() {
                        "a=sendrecv" => "a=recvonly",
                        "a=sendonly" => "a=inactive",
                        "a=recvonly" => "a=sendrecv",
                        "a=inactive" => "a=sendonly",
                        _ => continue,
                    };
                    *l = n.to_string();
                    break;
                }
            }
        }
        3 | 7 => {
            if let Some(l) = lines.iter_mut().find(|l| l.starts_with("a=mid:")) {
                let old = l["a=mid:".len()..].to_string();
                *l = if edit == 7 {
                    "a=mid:65535".to_string()
                } else {
                    match old.parse::<u32>() {
                        Ok(n) => format!("a=mid:{}", n + 7),
                        Err(_) => format!("a=mid:{old}x"),
                    }
                };
            }
        }
        4 => {
            let blk = extra_section(&lines, &starts, "9");
            lines.extend(blk);
        }
        5 => {
            for l in lines.iter_mut() {
                if let Some(rest) = l.strip_prefix("a=fingerprint:sha-256 ") {
                    let flipped = if rest.starts_with("00") { "01" } else { "00" };
                    if rest.len() >= 2 {
                        *l = format!("a=fingerprint:sha-256 {flipped}{}", &rest[2..]);
                    }
                }
            }
        }
        6 => lines.retain(|l| !l.starts_with("a=fingerprint:")),
        8 => {
            if let Some(l) = lines.iter_mut().find(|l| l.starts_with("m=audio ")) {
                *l = l.replacen("m=audio ", "m=video ", 1);
            } else if let Some(l) = lines.iter_mut().find(|l| l.starts_with("m=video ")) {
                *l = l.replacen("m=video ", "m=audio ", 1);
            } else if let Some(l) = lines.iter_mut().find(|l| l.starts_with("m=application ")) {
                *l = l.replacen("m=application ", "m=audio ", 1);
            }
        }
        9 => {
            let first_mid = lines.iter().find(|l| l.starts_with("a=mid:")).map(|l| l["a=mid:".len()..].to_string()).unwrap_or_else(|| "0".into());
            if starts.len() >= 2 {
                let (s, e) = (starts[1], section_end(&lines, &starts, 1));
                for l in lines[s..e].iter_mut() {
                    if l.starts_with("a=mid:") {
                        *l = format!("a=mid:{first_mid}");
                    }
                }
            } else {
                let blk = extra_section(&lines, &starts, &first_mid);
                lines.extend(blk);
            }
        }
        10 => {
            for l in lines.iter_mut() {
                if l.starts_with("a=fingerprint:sha-256 ") {
                    *l = l.replacen("sha-256", "sha-1", 1);
                }
            }
        }
        11 => {
            if let Some(s0) = starts.first() {
                lines.truncate(*s0);
            }
        }
        12 => {
            if let Some(l) = lines.iter_mut().find(|l| l.starts_with("a=extmap:")) {
                let rest = l["a=extmap:".len()..].to_string();
                let mut it = rest.splitn(2, ' ');
                let id = it.next().unwrap_or("");
                let uri = it.next().unwrap_or("");
                let nid = if id == "14" { "13" } else { "14" };
                *l = format!("a=extmap:{nid} {uri}");
            }
        }
        13 => {
            if let Some(l) = lines.iter_mut().find(|l| l.starts_with("m=")) {
                let rest = l.splitn(2, ' ').nth(1).unwrap_or("").to_string();
                *l = format!("m=text {rest}");
            }
        }
        14 => lines.retain(|l| !l.starts_with("a=crypto:")),
        15 => {
            for l in lines.iter_mut() {
                if l.starts_with("c=IN IP4 ") {
                    *l = "c=IN IP4 10.0.0.77".to_string();
                }
            }
        }
        _ => {}
    }
    let mut s = lines.join("\r\n");
    s.push_str("\r\n");
    s
}

// ---------------------------------------------------------------------------------------------
// program generation
// ---------------------------------------------------------------------------------------------
const N_EDITS: u64 = 15;

fn op(kind: &str, side: i64, what: i64, edit: i64, pause: i64) -> Op {
    Op::new(0, kind, &[side, what, edit, pause])
}

/// reduced alphabet of the exhaustive part: 2 sides x 8 letters
fn letter(sym: u64, pause: i64) -> Op {
    let side = (sym / 8) as i64;
    match sym % 8 {
        0 => op("create_offer", side, 0, 0, pause),
        1 => op("create_answer", side, 0, 0, pause),
        2 => op("set_local", side, 0, 0, pause),
        3 => op("set_remote", side, 1, 0, pause),
        4 => op("set_remote", side, 2, 0, pause),
        5 => op("set_local", side, 6, 0, pause),
        6 => op("set_remote", side, 7, 0, pause),
        _ => op("close", side, 0, 0, pause),
    }
}

fn max_len(tier: Tier) -> u32 {
    if tier == Tier::Quick { 3 } else { 4 }
}
fn n_programs(max_len: u32) -> u64 {
    (1..=max_len).map(|l| 16u64.pow(l)).sum()
}
const N_CFG: u64 = 6; // 3 modes x {fresh, negotiated once and connected}
pub fn exhaustive_runs(tier: Tier) -> u64 {
    N_CFG * n_programs(max_len(tier))
}
/// n-th program of the enumeration: all words of length 1, then 2, ... over the 16 symbols
fn nth_program(mut n: u64, max_len: u32) -> Vec<u64> {
    for l in 1..=max_len {
        let c = 16u64.pow(l);
        if n < c {
            let mut w = Vec::new();
            for _ in 0..l {
                w.push(n % 16);
                n /= 16;
            }
            w.reverse();
            return w;
        }
        n -= c;
    }
    Vec::new()
}

fn pause(r: &mut Rng) -> i64 {
    match r.below(10) {
        0..=3 => 0,
        4..=5 => r.range(1, 5) as i64,
        6..=8 => r.range(6, 50) as i64,
        _ => 50,
    }
}

fn rand_what(r: &mut Rng, local: bool) -> i64 {
    if local { *r.pick(&[0, 0, 0, 0, 5, 5, 6, 7, 8, 8, 1, 2]) } else { *r.pick(&[1, 1, 2, 2, 3, 3, 4, 4, 5, 5, 6, 7, 0]) }
}
fn rand_edit(r: &mut Rng) -> i64 {
    if r.chance(65) { 0 } else { r.range(1, N_EDITS) as i64 }
}
fn rand_op(r: &mut Rng) -> Op {
    let side = r.below(2) as i64;
    match r.below(11) {
        0..=1 => op("create_offer", side, 0, 0, pause(r)),
        2..=3 => op("create_answer", side, 0, 0, pause(r)),
        4..=6 => {
            let w = rand_what(r, true);
            op("set_local", side, w, rand_edit(r), pause(r))
        }
        7..=9 => {
            let w = rand_what(r, false);
            op("set_remote", side, w, rand_edit(r), pause(r))
        }
        _ => op("close", side, 0, 0, pause(r)),
    }
}

fn random_program(r: &mut Rng) -> Vec<Op> {
    let target = match r.below(10) {
        0 => r.range(1, 3),
        1..=5 => r.range(4, 8),
        _ => r.range(9, 12),
    } as usize;
    let mutate_pct = *r.pick(&[0u64, 10, 25, 50]);
    let mut ops: Vec<Op> = Vec::new();
    while ops.len() < target {
        let x = r.below(2) as i64;
        let y = 1 - x;
        let frag: Vec<Op> = match r.below(10) {
            // a full round offered by x
            0..=4 => vec![op("create_offer", x, 0, 0, 0), op("set_local", x, 0, 0, 0), op("set_remote", y, 1, 0, 0), op("create_answer", y, 0, 0, 0), op("set_local", y, 0, 0, 0), op("set_remote", x, 2, 0, 0)],
            // glare: both sides offer before anything is exchanged
            5..=6 => {
                if r.chance(50) {
                    vec![op("create_offer", x, 0, 0, 0), op("create_offer", y, 0, 0, 0), op("set_local", x, 0, 0, 0), op("set_local", y, 0, 0, 0), op("set_remote", x, 1, 0, 0), op("set_remote", y, 1, 0, 0)]
                } else {
                    vec![op("create_offer", x, 0, 0, 0), op("set_local", x, 0, 0, 0), op("create_offer", y, 0, 0, 0), op("set_local", y, 0, 0, 0), op("set_remote", y, 1, 0, 0), op("set_remote", x, 1, 0, 0)]
                }
            }
            // a round with a provisional answer first
            7 => vec![op("create_offer", x, 0, 0, 0), op("set_local", x, 0, 0, 0), op("set_remote", y, 1, 0, 0), op("create_answer", y, 0, 0, 0), op("set_local", y, 6, 0, 0), op("set_remote", x, 6, 0, 0), op("set_local", y, 0, 0, 0), op("set_remote", x, 2, 0, 0)],
            _ => (0..r.range(1, 3)).map(|_| rand_op(r)).collect(),
        };
        for mut o in frag {
            o.a[3] = pause(r);
            if r.chance(mutate_pct) {
                match r.below(6) {
                    0 => continue, // lost
                    1 => {
                        ops.push(o.clone()); // delivered twice
                    }
                    2 => {
                        if o.kind.starts_with("set_") {
                            o.a[1] = rand_what(r, o.kind == "set_local");
                        }
                    }
                    3 => {
                        if o.kind.starts_with("set_") {
                            o.a[2] = r.range(1, N_EDITS) as i64;
                        }
                    }
                    4 => ops.push(rand_op(r)),
                    _ => {
                        // reordered: swapped with the previous call
                        if let Some(prev) = ops.pop() {
                            ops.push(o.clone());
                            o = prev;
                        }
                    }
                }
            }
            ops.push(o);
        }
    }
    ops.truncate(target);
    ops
}

pub fn generate(prop: &str, seed: u64, idx: u64, tier: Tier) -> Plan {
    let mut r = Rng::new(mix(mix(seed, idx), fnv(FNV0, prop.as_bytes())));
    let mut p = Plan { prop: prop.into(), scenario: "signaling".into(), seed: r.next(), ..Default::default() };
    p.latency_us = [r.range(200, 40_000), r.range(200, 40_000)];
    p.sched = Sched { rng_seed: r.next(), defer_pct: if r.chance(60) { 0 } else { r.range(1, 30) as u8 } };
    p.heal_at_ms = 0;
    let ex = exhaustive_runs(tier);
    if idx < ex {
        let cfg = idx % N_CFG;
        let mode = (cfg % 3) as i64;
        p.knobs.insert("exh".into(), 1);
        p.knobs.insert("mode".into(), mode);
        p.knobs.insert("mix".into(), if mode == 0 { 3 } else { 1 });
        p.knobs.insert("pre".into(), if cfg / 3 == 0 { 0 } else { 2 });
        p.knobs.insert("bmedia".into(), 1);
        for s in nth_program(idx / N_CFG, max_len(tier)) {
            let ps = pause(&mut r);
            p.ops.push(letter(s, ps));
        }
    } else {
        let mode = r.below(3) as i64;
        p.knobs.insert("mode".into(), mode);
        let mix = if mode == 0 { r.below(5) as i64 } else { r.range(1, 2) as i64 };
        p.knobs.insert("mix".into(), mix);
        p.knobs.insert("pre".into(), *r.pick(&[0, 0, 1, 2, 2]));
        p.knobs.insert("bmedia".into(), if r.chance(65) { 1 } else { 0 });
        if r.chance(30) {
            p.knobs.insert("offerer".into(), 1);
        }
        if r.chance(25) {
            p.knobs.insert("bundle".into(), r.range(1, 2) as i64);
        }
        if r.chance(20) {
            p.knobs.insert("mux".into(), 1);
        }
        if mode != 0 && r.chance(20) {
            p.knobs.insert("compat".into(), 1);
        }
        p.ops = random_program(&mut r);
    }
    p
}

pub fn budget(_prop: &str, tier: Tier) -> u64 {
    match tier {
        Tier::Quick => exhaustive_runs(tier) + 40_000,
        Tier::Thorough => exhaustive_runs(tier) + 600_000,
    }
}

// ---------------------------------------------------------------------------------------------
// run
// ---------------------------------------------------------------------------------------------
struct Side {
    peer: Peer,
    st: St,
    own_latest: Option<SessionDescription>,
    own_prev: Option<SessionDescription>,
    offers: Vec<String>,
    answers: Vec<String>,
    applied_local: Option<SessionDescription>,
    applied_remote: Option<SessionDescription>,
}

impl Side {
    fn new(peer: Peer) -> Side {
        Side { peer, st: St::Stable, own_latest: None, own_prev: None, offers: Vec::new(), answers: Vec::new(), applied_local: None, applied_remote: None }
    }
    fn produced(&mut self, d: &SessionDescription) {
        self.own_prev = self.own_latest.take();
        self.own_latest = Some(d.clone());
        match d.sdp_type {
            SdpType::Offer => self.offers.push(d.to_sdp_string()),
            _ => self.answers.push(d.to_sdp_string()),
        }
    }
}

fn err_class(e: &RtcError) -> &'static str {
    match e {
        RtcError::InvalidConfiguration(_) => "InvalidConfiguration",
        RtcError::InvalidState(_) => "InvalidState",
        RtcError::NotImplemented(_) => "NotImplemented",
        RtcError::Protocol(_) => "Protocol",
        RtcError::Transport(_) => "Transport",
        RtcError::Internal(_) => "Internal",
    }
}

fn stale(v: &[String]) -> Option<String> {
    if v.len() >= 2 { Some(v[v.len() - 2].clone()) } else { None }
}

/// The description a set_local / set_remote op applies, or why the call cannot be made.
fn resolve(sides: &[Side; 2], i: usize, local: bool, what: i64, edit: i64) -> Result<SessionDescription, &'static str> {
    let me = &sides[i];
    let peer = &sides[1 - i];
    enum Src {
        Obj(SessionDescription),
        Text(SdpType, String),
    }
    let src = match what {
        0 => Src::Obj(me.own_latest.clone().ok_or("no own description yet")?),
        1 => Src::Text(SdpType::Offer, peer.offers.last().cloned().ok_or("peer made no offer yet")?),
        2 => Src::Text(SdpType::Answer, peer.answers.last().cloned().ok_or("peer made no answer yet")?),
        3 => Src::Text(SdpType::Offer, stale(&peer.offers).ok_or("no stale offer")?),
        4 => Src::Text(SdpType::Answer, stale(&peer.answers).ok_or("no stale answer")?),
        5 => Src::Obj(if local { me.applied_local.clone() } else { me.applied_remote.clone() }.ok_or("nothing applied yet")?),
        6 => {
            if local {
                let mut d = me.own_latest.clone().ok_or("no own description yet")?;
                d.sdp_type = SdpType::Pranswer;
                Src::Obj(d)
            } else {
                Src::Text(SdpType::Pranswer, peer.answers.last().cloned().ok_or("peer made no answer yet")?)
            }
        }
        7 => Src::Obj(SessionDescription::new(SdpType::Rollback)),
        8 => Src::Obj(me.own_prev.clone().ok_or("no stale own description")?),
        _ => return Err("unknown source"),
    };
    match src {
        Src::Obj(d) if edit == 0 || what == 7 => Ok(d),
        Src::Obj(d) => SessionDescription::parse(d.sdp_type, &edit_sdp(&d.to_sdp_string(), edit)).map_err(|_| "edited text does not parse"),
        Src::Text(t, s) => {
            let s = if edit == 0 { s } else { edit_sdp(&s, edit) };
            SessionDescription::parse(t, &s).map_err(|_| "text does not parse")
        }
    }
}

enum Res {
    Offer(Result<SessionDescription, RtcError>),
    Unit(Result<(), RtcError>),
}

pub async fn run(ctx: &Ctx) {
    let mut k = PcKnobs::from_plan(&ctx.plan);
    // data channels exist in WebRtc mode only; the other PeerConnection features outside their domain are switched off
    if k.mode != 0 {
        k.mix = match k.mix {
            0 | 1 | 3 => 1,
            _ => 2,
        };
    } else {
        k.latch = 0;
        k.compat = 0;
    }
    k.lite = 0;
    k.udpmux = 0;
    if let Err(why) = k.compatible() {
        ctx.violate("HARNESS.config", format!("incompatible rig configuration: {why}"));
        return;
    }
    let pre = ctx.plan.knob("pre", 0);
    let bmedia = ctx.plan.knob("bmedia", 0);
    ctx.net.install_binder();
    ctx.ev(&format!("rig mode={} mix={} pre={pre} bmedia={bmedia} offerer={} bundle={} mux={} compat={}", k.mode, k.mix, k.offerer, k.bundle, k.mux, k.compat), "");
    let mut a = Peer::new(ctx, &k, 0);
    let mut b = Peer::new(ctx, &k, 1);
    if k.has_dc() {
        a.add_dc(true);
        if bmedia != 0 || pre != 0 {
            b.add_dc(true);
        }
    }
    a.add_media(&k);
    // the side that offers in the preliminary round needs something to offer
    if bmedia != 0 || (pre != 0 && k.offerer == 1) {
        b.add_media(&k);
    }
    let mut sides = [Side::new(a), Side::new(b)];
    if pre != 0 {
        let (o, n) = if k.offerer == 0 { (0usize, 1usize) } else { (1, 0) };
        let r = {
            let (x, y) = sides.split_at_mut(1);
            let (off, ans) = if o == 0 { (&mut x[0], &mut y[0]) } else { (&mut y[0], &mut x[0]) };
            negotiate(&mut off.peer, &mut ans.peer, &k, ctx).await
        };
        match r {
            Ok((offer_s, answer_s)) => {
                sides[o].offers.push(offer_s);
                sides[n].answers.push(answer_s);
                for s in sides.iter_mut() {
                    s.applied_local = s.peer.pc.local_description();
                    s.applied_remote = s.peer.pc.remote_description();
                    s.own_latest = s.applied_local.clone();
                }
            }
            Err(e) => {
                // the fault-free first exchange is C10's subject; without it this run has no starting point
                ctx.violate("HARNESS.pre", format!("preliminary offer/answer exchange failed: {e}"));
                finish(ctx, sides).await;
                return;
            }
        }
        if pre == 2 {
            let ok = tokio::time::timeout(Duration::from_secs(130), async {
                let ra = sides[0].peer.pc.wait_for_connected().await;
                let rb = sides[1].peer.pc.wait_for_connected().await;
                ra.is_ok() && rb.is_ok()
            })
            .await;
            ctx.ev(&format!("pre connected={:?}", ok.unwrap_or(false)), "");
        }
        for s in sides.iter() {
            if st_of(s.peer.pc.signaling_state()) != St::Stable {
                ctx.violate("C09.state", format!("{}: state {:?} after a complete offer/answer exchange, model Stable", s.peer.name, s.peer.pc.signaling_state()));
            }
        }
    }

    let mut nontrivial = false;
    let mut reported: Vec<String> = Vec::new();
    let ops = ctx.plan.ops.clone();
    'prog: for (n, o) in ops.iter().enumerate() {
        let i = (o.arg(0) & 1) as usize;
        let (what, edit, pause_ms) = (o.arg(1), o.arg(2), o.arg(3).clamp(0, 1000) as u64);
        if pause_ms > 0 {
            tokio::time::sleep(Duration::from_millis(pause_ms)).await;
        }
        let name = sides[i].peer.name;
        // nothing but an API call may move the signaling state
        let cur = st_of(sides[i].peer.pc.signaling_state());
        if cur != sides[i].st {
            ctx.violate("C09.state", format!("op {n}: {name} signaling state moved from {:?} to {cur:?} between two calls (no API call was made)", sides[i].st));
            sides[i].st = cur;
        }
        let st0 = sides[i].st;
        if o.kind == "close" {
            sides[i].peer.pc.close();
            let s = st_of(sides[i].peer.pc.signaling_state());
            ctx.ev(&format!("{name} close st={st0:?} -> st={s:?}"), "");
            if s != St::Closed {
                ctx.violate("C09.state", format!("op {n}: call={name}.close() state_before={st0:?}: signaling state is {s:?} after close, model Closed"));
            }
            sides[i].st = s;
            continue;
        }
        // the call and its argument
        let (call, desc) = match o.kind.as_str() {
            "create_offer" => (Call::CreateOffer, None),
            "create_answer" => (Call::CreateAnswer, None),
            "set_local" | "set_remote" => {
                let local = o.kind == "set_local";
                match resolve(&sides, i, local, what, edit) {
                    Ok(d) => (if local { Call::SetLocal(d.sdp_type) } else { Call::SetRemote(d.sdp_type) }, Some(d)),
                    Err(why) => {
                        ctx.ev(&format!("{name} {} what={what} edit={edit} skipped: {why}", o.kind), "");
                        ctx.stat("ops_skipped", 1);
                        if why.ends_with("does not parse") {
                            ctx.stat("probe.unparseable_edit", 1);
                        }
                        continue;
                    }
                }
            }
            other => {
                ctx.violate("HARNESS.op", format!("unknown op kind {other}"));
                continue;
            }
        };
        let call_s = match call {
            Call::CreateOffer => "create_offer".to_string(),
            Call::CreateAnswer => "create_answer".to_string(),
            Call::SetLocal(t) => format!("set_local({})", t.as_str()),
            Call::SetRemote(t) => format!("set_remote({})", t.as_str()),
        };
        let verdict = model(st0, call);
        if matches!(what, 3 | 4 | 5 | 8) && desc.is_some() {
            nontrivial = true;
            ctx.stat("probe.stale_or_duplicate_input", 1);
        }
        if call == Call::SetRemote(SdpType::Offer) && st0 == St::HaveLocalOffer {
            nontrivial = true;
            ctx.stat("probe.glare", 1);
        }
        let before = snapshot(&sides[i].peer.pc);
        let pc = sides[i].peer.pc.clone();
        let applied = desc.clone();
        let fut = async {
            match call {
                Call::CreateOffer => Res::Offer(pc.create_offer().await),
                Call::CreateAnswer => Res::Offer(pc.create_answer().await),
                Call::SetLocal(_) => Res::Unit(pc.set_local_description(desc.unwrap())),
                Call::SetRemote(_) => Res::Unit(pc.set_remote_description(desc.unwrap()).await),
            }
        };
        let res = tokio::time::timeout(Duration::from_secs(60), std::panic::AssertUnwindSafe(fut).catch_unwind()).await;
        let res = match res {
            Ok(Ok(r)) => r,
            Ok(Err(_)) => {
                // a panic inside the call is C07's subject (recorded by the panic hook); the program ends here
                ctx.ev(&format!("{name} {call_s} what={what} edit={edit} st={st0:?} -> panicked"), "");
                ctx.stat("probe.call_panicked", 1);
                break 'prog;
            }
            Err(_) => {
                ctx.ev(&format!("{name} {call_s} what={what} edit={edit} st={st0:?} -> no return within 60 s"), "");
                ctx.stat("probe.call_timeout", 1);
                break 'prog;
            }
        };
        let (ok, err): (bool, Option<RtcError>) = match res {
            Res::Offer(Ok(d)) => {
                sides[i].produced(&d);
                (true, None)
            }
            Res::Offer(Err(e)) => (false, Some(e)),
            Res::Unit(Ok(())) => {
                match call {
                    Call::SetLocal(_) => sides[i].applied_local = applied,
                    _ => sides[i].applied_remote = applied,
                }
                (true, None)
            }
            Res::Unit(Err(e)) => (false, Some(e)),
        };
        let after = snapshot(&sides[i].peer.pc);
        let s1 = after.state;
        let cls = match &err {
            None => "Ok".to_string(),
            Some(e) => format!("Err:{}", err_class(e)),
        };
        let err_s = err.as_ref().map(|e| e.to_string()).unwrap_or_default();
        ctx.ev(&format!("{name} {call_s} what={what} edit={edit} st={st0:?} -> {cls} st={s1:?}"), &err_s);
        ctx.stat(if ok { "calls_ok" } else { "calls_err" }, 1);
        let head = format!("op {n}: call={name}.{call_s} what={what} edit={edit} state_before={st0:?}");
        let mut report = |oracle: &str, sig: String, detail: String| {
            if !reported.contains(&sig) {
                reported.push(sig);
                ctx.violate(oracle, detail);
            }
        };
        if ok {
            match verdict {
                None => report("C09.state", format!("forbidden {call_s} {st0:?}"), format!("{head}: the JSEP machine forbids this call in this state but it returned Ok (state now {s1:?})")),
                Some(next) if next != s1 => report("C09.state", format!("next {call_s} {st0:?} {s1:?}"), format!("{head}: returned Ok, signaling state is {s1:?}, model {next:?}")),
                _ => {}
            }
        } else {
            if !(before.local.is_none() && before.remote.is_none() && before.trs.is_empty()) {
                nontrivial = true;
            }
            let d = diff(&before, &after);
            if !d.is_empty() {
                let fields: Vec<String> = d.iter().map(|x| x.split(':').next().unwrap_or("").to_string()).collect();
                report(
                    "C09.atomic",
                    format!("atomic {call_s} {st0:?} {fields:?}"),
                    format!("{head} {}: returned Err({err_s}) but changed=[{}] :: {}", if verdict.is_none() { "(forbidden by the machine)" } else { "(allowed by the machine)" }, fields.join(","), d.join(" | ")),
                );
            }
        }
        sides[i].st = s1;
    }

    // background tasks alone never move the signaling state
    tokio::time::sleep(Duration::from_millis(120)).await;
    for s in sides.iter() {
        let cur = st_of(s.peer.pc.signaling_state());
        if cur != s.st {
            ctx.violate("C09.state", format!("end: {} signaling state moved from {:?} to {cur:?} after the last call (no API call was made)", s.peer.name, s.st));
        }
    }
    if nontrivial {
        ctx.stat("nontrivial", 1);
    }
    finish(ctx, sides).await;
}

async fn finish(ctx: &Ctx, sides: [Side; 2]) {
    for s in sides.iter() {
        s.peer.pc.close();
    }
    drop(sides);
    tokio::time::sleep(Duration::from_millis(200)).await;
    let now = ctx.now_ms();
    ctx.stat("virt_ms", now);
}
