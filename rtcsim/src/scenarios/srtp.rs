//! Scenario `srtp_hist` (C04, C05): a rustrtc `SrtpSession` sender, an in-module simulated
//! link (drop / duplicate / reorder / hold, all drawn from sub-seeds in the plan) and several
//! receivers on the same wire. No sockets: the "network" is the `Link` below.
//!
//! C04: receivers = rustrtc session, webrtc-srtp context (reference), and a second rustrtc
//!      session fed with what the *reference* protected (reverse pairing). Judged against the
//!      RFC 3711 index model in `srtp_pk`.
//! C05: receivers = rustrtc session under test (genuine + forged traffic) and a shadow rustrtc
//!      session fed only the genuine packets in the same order.
use super::srtp_pk::*;
use crate::plan::*;
use crate::sim::Ctx;
use bytes::BytesMut;
use rustrtc::srtp::SrtpPacket;
use rustrtc::{SrtpContext, SrtpDirection, SrtpKeyingMaterial, SrtpSession};
use std::collections::{BTreeMap, BTreeSet, HashSet, VecDeque};
use std::time::Duration;
use webrtc_srtp::context::Context as RefCtx;

const MAX_OP_PACKETS: i64 = 140_000;

#[derive(Clone)]
struct Wire {
    key: i64,
    ord: u32,
    rtcp: bool,
    si: usize,
    /// RTP: true 48-bit index; RTCP: packet number n (1-based, == SRTCP index of both senders)
    index: u64,
    shape: u64,
    size_mode: i64,
    /// protected by rustrtc
    a: Vec<u8>,
    /// protected by the reference (C04 only, profiles the reference has)
    b: Option<Vec<u8>>,
}

#[derive(Default)]
struct SendState {
    next_index: Option<u64>,
    rtcp_n: u32,
}

struct World<'a> {
    ctx: &'a Ctx,
    prof: Prof,
    /// SRTCP tag length rustrtc really uses for this profile (measured, not assumed)
    rtcp_tl: usize,
    c05: bool,
    key: Vec<u8>,
    salt: Vec<u8>,
    ssrcs: Vec<u32>,
    seq0: Vec<u16>,
    tx: SrtpSession,
    tx_ref: Option<RefCtx>,
    rx: SrtpSession,
    rx_ref: Option<RefCtx>,
    rx_rev: Option<SrtpSession>,
    shadow: Option<SrtpSession>,
    /// context-level probe pair for SSRC 0 (observes the SRTCP index through `protect_rtcp`)
    cx_real: Option<SrtpContext>,
    cx_shadow: Option<SrtpContext>,
    send: Vec<SendState>,
    m_rfc: Vec<RfcModel>,
    m_ref: Vec<RefModel>,
    seen_rtp: Vec<HashSet<u64>>,
    seen_rtcp: Vec<HashSet<u64>>,
    held: Vec<Wire>,
    genuine: [HashSet<Vec<u8>>; 2],
    recent: VecDeque<(bool, usize, Vec<u8>)>,
    stats: BTreeMap<String, u64>,
    reported: BTreeSet<String>,
    ord: u32,
    max_roc: u32,
    // C05 bookkeeping
    offered_ssrcs: HashSet<u32>,
    last_fed_ms: Vec<u64>,
    /// harness-side estimate: the receive context of this SSRC met rustrtc's eviction predicate at some point
    evict_suspect: Vec<bool>,
    now_ms: u64,
    forged_since_genuine: Vec<String>,
    forged_total: u64,
    genuine_after_forgery: u64,
    genuine_accepted: u64,
    link_faults: u64,
    delivered: u64,
}

fn errkind(e: &str) -> &'static str {
    if e.contains("authentication") {
        "auth"
    } else if e.contains("too short") {
        "short"
    } else if e.starts_with("parse") {
        "parse"
    } else {
        "other"
    }
}

fn rust_rtp(s: &mut SrtpSession, bytes: &[u8]) -> Result<Vec<u8>, String> {
    let p = SrtpPacket::parse(BytesMut::from(bytes)).map_err(|e| format!("parse: {e}"))?;
    let out = s.unprotect_rtp(p).map_err(|e| e.to_string())?;
    out.marshal().map_err(|e| format!("accepted but result does not marshal: {e}"))
}

fn rust_rtcp(s: &mut SrtpSession, bytes: &[u8]) -> Result<Vec<u8>, String> {
    let mut v = bytes.to_vec();
    s.unprotect_rtcp(&mut v).map_err(|e| e.to_string())?;
    Ok(v)
}

fn hex(b: &[u8]) -> String {
    let n = b.len().min(48);
    let mut s: String = b[..n].iter().map(|x| format!("{x:02x}")).collect();
    if b.len() > n {
        s.push_str("..");
    }
    s
}

fn first_diff(a: &[u8], b: &[u8]) -> String {
    if a.len() != b.len() {
        return format!("lengths {} vs {}", a.len(), b.len());
    }
    match a.iter().zip(b.iter()).position(|(x, y)| x != y) {
        Some(i) => format!("first difference at byte {i} of {}", a.len()),
        None => "equal".into(),
    }
}

impl<'a> World<'a> {
    fn stat(&mut self, k: &str, n: u64) {
        *self.stats.entry(k.to_string()).or_insert(0) += n;
    }

    /// report a violation once per (oracle, class) and run; later ones are only counted
    fn violate(&mut self, oracle: &str, class: &str, detail: String) {
        let k = format!("{oracle}/{class}");
        if self.reported.insert(k) {
            self.ctx.violate(oracle, format!("[{class}] profile={} {detail}", self.prof.name()));
        } else {
            self.stat("viol.suppressed_repeats", 1);
        }
    }

    fn new(ctx: &'a Ctx) -> Result<World<'a>, String> {
        let plan = &ctx.plan;
        let prof = Prof::from_knob(plan.knob("profile", 0));
        let c05 = plan.prop == "C05";
        let mut kr = Rng::new(mix(plan.seed, plan.knob("key_seed", 0) as u64 ^ 0x6b65_79));
        let mut key = vec![0u8; 16];
        let mut salt = vec![0u8; prof.salt_len()];
        match plan.knob("key_mode", 0) {
            1 => {}
            2 => {
                key.fill(0xff);
                salt.fill(0xff);
            }
            _ => {
                kr.fill(&mut key);
                kr.fill(&mut salt);
            }
        }
        let mut other = vec![0u8; 16];
        kr.fill(&mut other);
        let n = plan.knob("nssrc", 1).clamp(1, 4) as usize;
        let mut ssrcs: Vec<u32> = Vec::new();
        for i in 0..n {
            let forced = plan.knob(&format!("ssrc{i}"), -1);
            let mut v = if forced >= 0 { forced as u32 } else { kr.next() as u32 };
            while ssrcs.contains(&v) {
                v = v.wrapping_add(1);
            }
            ssrcs.push(v);
        }
        let seq0: Vec<u16> = (0..n).map(|i| plan.knob(&format!("seq0_{i}"), 0) as u16).collect();
        let km = |k: &Vec<u8>, s: &Vec<u8>| SrtpKeyingMaterial::new(k.clone(), s.clone());
        let unused = km(&other, &salt);
        let mk_rx = || SrtpSession::new(prof.rustrtc(), unused.clone(), km(&key, &salt)).map_err(|e| e.to_string());
        let tx = SrtpSession::new(prof.rustrtc(), km(&key, &salt), unused.clone()).map_err(|e| e.to_string())?;
        let mk_ref = || -> Result<Option<RefCtx>, String> {
            match prof.reference() {
                Some(p) if !c05 => RefCtx::new(&key, &salt, p, None, None).map(Some).map_err(|e| format!("reference context: {e}")),
                _ => Ok(None),
            }
        };
        let rtcp_tl = {
            let mut probe = SrtpSession::new(prof.rustrtc(), km(&key, &salt), unused.clone()).map_err(|e| e.to_string())?;
            let mut p = vec![0x80, 201, 0, 1, 0, 0, 0, 1];
            probe.protect_rtcp(&mut p).map_err(|e| format!("probe protect_rtcp: {e}"))?;
            p.len().saturating_sub(12)
        };
        let tx_ref = mk_ref()?;
        let rx_ref = mk_ref()?;
        let has_ref = tx_ref.is_some();
        let (cx_real, cx_shadow) = if c05 {
            let c = SrtpContext::new(ssrcs[0], prof.rustrtc(), km(&key, &salt), SrtpDirection::Receiver).map_err(|e| e.to_string())?;
            (Some(c.clone()), Some(c))
        } else {
            (None, None)
        };
        Ok(World {
            ctx,
            prof,
            rtcp_tl,
            c05,
            ssrcs,
            seq0,
            tx,
            tx_ref,
            rx: mk_rx()?,
            rx_ref,
            rx_rev: if has_ref { Some(mk_rx()?) } else { None },
            shadow: if c05 { Some(mk_rx()?) } else { None },
            cx_real,
            cx_shadow,
            send: (0..n).map(|_| SendState::default()).collect(),
            m_rfc: vec![RfcModel::default(); n],
            m_ref: vec![RefModel::default(); n],
            seen_rtp: vec![HashSet::new(); n],
            seen_rtcp: vec![HashSet::new(); n],
            held: Vec::new(),
            genuine: [HashSet::new(), HashSet::new()],
            recent: VecDeque::new(),
            stats: BTreeMap::new(),
            reported: BTreeSet::new(),
            ord: 0,
            max_roc: 0,
            offered_ssrcs: HashSet::new(),
            last_fed_ms: vec![0; n],
            evict_suspect: vec![false; n],
            now_ms: 0,
            forged_since_genuine: Vec::new(),
            forged_total: 0,
            genuine_after_forgery: 0,
            genuine_accepted: 0,
            link_faults: 0,
            delivered: 0,
            key,
            salt,
        })
    }

    // ---- sender ------------------------------------------------------------
    fn remember(&mut self, rtcp: bool, si: usize, a: &[u8]) {
        if self.c05 {
            self.genuine[rtcp as usize].insert(a.to_vec());
            self.recent.push_back((rtcp, si, a.to_vec()));
            if self.recent.len() > 48 {
                self.recent.pop_front();
            }
        }
    }

    fn send_rtp(&mut self, si: usize, shape: u64, size_mode: i64) -> Option<Wire> {
        let ssrc = self.ssrcs[si];
        let index = self.send[si].next_index.unwrap_or(self.seq0[si] as u64);
        self.send[si].next_index = Some(index + 1);
        self.max_roc = self.max_roc.max((index >> 16) as u32);
        let (pkt, raw) = gen_rtp(ssrc, index, shape, size_mode);
        match pkt.marshal() {
            Ok(m) if m == raw => {}
            other => {
                self.ctx.violate("HARNESS.raw_mismatch", format!("rustrtc marshal of the generated packet != independent serialisation: {other:?} vs {}", hex(&raw)));
                return None;
            }
        }
        let mut a = vec![0u8; self.tx.protected_rtp_len(&pkt)];
        if let Err(e) = self.tx.protect_rtp(&pkt, &mut a) {
            self.violate("C04.roundtrip", "protect-rtp-failed", format!("protect_rtp failed for ssrc {ssrc:#x} index {index}: {e}; plaintext {}", hex(&raw)));
            return None;
        }
        let b = match self.tx_ref.as_mut() {
            Some(r) => match r.encrypt_rtp(&raw) {
                Ok(b) => Some(b.to_vec()),
                Err(e) => {
                    let _ = e;
                    self.stat("excluded.ref_protect_error", 1);
                    None
                }
            },
            None => None,
        };
        if let Some(b) = &b {
            if *b != a {
                self.stat("probe.protected_bytes_differ_rtp", 1);
            }
        }
        self.remember(false, si, &a);
        self.ord += 1;
        Some(Wire { key: 0, ord: self.ord, rtcp: false, si, index, shape, size_mode, a, b })
    }

    fn send_rtcp(&mut self, si: usize, shape: u64, size_mode: i64) -> Option<Wire> {
        let ssrc = self.ssrcs[si];
        self.send[si].rtcp_n += 1;
        let n = self.send[si].rtcp_n;
        let raw = gen_rtcp(ssrc, n, shape, size_mode);
        let mut a = raw.clone();
        if let Err(e) = self.tx.protect_rtcp(&mut a) {
            self.violate("C04.roundtrip", "protect-rtcp-failed", format!("protect_rtcp failed for ssrc {ssrc:#x} packet {n}: {e}"));
            return None;
        }
        let b = match self.tx_ref.as_mut() {
            Some(r) => match r.encrypt_rtcp(&raw) {
                Ok(b) => Some(b.to_vec()),
                Err(_) => {
                    self.stat("excluded.ref_protect_error", 1);
                    None
                }
            },
            None => None,
        };
        if let Some(b) = &b {
            if *b != a {
                self.stat("probe.protected_bytes_differ_rtcp", 1);
            }
        }
        self.remember(true, si, &a);
        self.ord += 1;
        Some(Wire { key: 0, ord: self.ord, rtcp: true, si, index: n as u64, shape, size_mode, a, b })
    }

    // ---- link --------------------------------------------------------------
    /// a = [.., drop_pm, dup_pm, reord_pm, window, hold_pm] taken from the op by the caller
    #[allow(clippy::too_many_arguments)]
    fn link(&mut self, items: Vec<Wire>, seed: u64, drop_pm: u64, dup_pm: u64, reord_pm: u64, window: i64, hold_pm: u64, burst: (i64, i64), fired: &mut BTreeSet<&'static str>) -> Vec<Wire> {
        let mut lr = Rng::new(mix(seed, 0x6c69_6e6b));
        let n = items.len() as i64;
        let mut out: Vec<Wire> = Vec::with_capacity(items.len() + 8);
        for h in std::mem::take(&mut self.held) {
            let mut h = h;
            h.key = lr.below(n.max(1) as u64) as i64;
            self.stat("fault.late_release", 1);
            fired.insert("late");
            out.push(h);
        }
        let w = window.clamp(1, 70_000);
        for (pos, mut it) in items.into_iter().enumerate() {
            let pos = pos as i64;
            if burst.1 > 0 && pos >= burst.0 && pos < burst.0 + burst.1 {
                self.stat("fault.drop_burst", 1);
                fired.insert("burst");
                continue;
            }
            if lr.below(1000) < drop_pm {
                self.stat("fault.drop", 1);
                fired.insert("drop");
                continue;
            }
            it.key = pos;
            if lr.below(1000) < reord_pm {
                let d = 1 + lr.below(w as u64) as i64;
                it.key = if lr.chance(50) { pos + d } else { pos - d };
                self.stat("fault.reorder", 1);
                fired.insert("reorder");
            }
            if lr.below(1000) < hold_pm {
                self.stat("fault.hold", 1);
                fired.insert("hold");
                self.held.push(it);
                continue;
            }
            if lr.below(1000) < dup_pm {
                let mut c = it.clone();
                c.key = it.key + lr.below(w as u64 + 1) as i64;
                self.ord += 1;
                c.ord = self.ord;
                self.stat("fault.dup", 1);
                fired.insert("dup");
                out.push(c);
            }
            out.push(it);
        }
        self.link_faults += fired.len() as u64;
        out.sort_by_key(|x| (x.key, x.ord));
        out
    }

    // ---- delivery: C04 -------------------------------------------------------
    fn deliver_c04(&mut self, w: &Wire, classes: &mut BTreeSet<&'static str>) {
        self.delivered += 1;
        let ssrc = self.ssrcs[w.si];
        let orig = if w.rtcp { gen_rtcp(ssrc, w.index as u32, w.shape, w.size_mode) } else { gen_rtp(ssrc, w.index, w.shape, w.size_mode).1 };
        let dup = if w.rtcp { !self.seen_rtcp[w.si].insert(w.index) } else { !self.seen_rtp[w.si].insert(w.index) };
        let (dec_rfc, dec_ref, ref_diff, st) = if w.rtcp {
            (true, true, 0, String::new())
        } else {
            let before = format!("model before: s_l={:?} roc={}", self.m_rfc[w.si].s_l, self.m_rfc[w.si].roc);
            let (d, diff) = self.m_ref[w.si].peek(w.index);
            (self.m_rfc[w.si].deliver(w.index), d, diff, before)
        };
        let proto = if w.rtcp { "rtcp" } else { "rtp" };
        let what = if w.rtcp { format!("SRTCP ssrc={ssrc:#x} index={}", w.index) } else { format!("SRTP ssrc={ssrc:#x} index={} (roc={} seq={}) {st}", w.index, w.index >> 16, w.index as u16) };
        classes.insert(if dec_rfc { "decodable" } else { "undecodable" });
        if dup {
            self.stat("deliveries.duplicate", 1);
        }

        // (a) rustrtc receives what rustrtc protected
        let v = if w.rtcp { rust_rtcp(&mut self.rx, &w.a) } else { rust_rtp(&mut self.rx, &w.a) };
        match &v {
            Ok(p) => {
                self.stat("rust.accept", 1);
                if *p != orig {
                    self.violate("C04.roundtrip", &format!("{proto}-plaintext"), format!("{what}: accepted but the result differs from the original packet ({}); got {} want {}", first_diff(p, &orig), hex(p), hex(&orig)));
                }
                if !dec_rfc {
                    self.stat("probe.accept_beyond_model", 1);
                    // Not a violation by itself (a genuine packet was decoded correctly) and not a harness error
                    // either: a receiver whose index state has drifted from RFC 3711 3.3.1 can decode what a
                    // conformant one cannot. The model stays the conformant receiver; if the drift matters, the
                    // packets it decodes and rustrtc rejects are reported by C04.roundtrip below. Counted in evidence
                    // (0 on the unchanged tree).
                }
            }
            Err(e) => {
                self.stat("rust.reject", 1);
                if dec_rfc && !dup {
                    self.violate("C04.roundtrip", &format!("{proto}-rejected"), format!("{what}: the RFC 3711 index model decodes this packet but rustrtc rejected it: {e}; header {}", hex(&w.a[..w.a.len().min(24)])));
                } else if !dec_rfc {
                    self.stat("expected_reject.index_out_of_reach", 1);
                }
            }
        }
        // (b) the reference receives what rustrtc protected
        if let Some(r) = self.rx_ref.as_mut() {
            let vr = if w.rtcp { r.decrypt_rtcp(&w.a) } else { r.decrypt_rtp(&w.a) };
            let vr: Result<Vec<u8>, String> = vr.map(|b| b.to_vec()).map_err(|e| e.to_string());
            if !w.rtcp && vr.is_ok() && dec_ref {
                self.m_ref[w.si].commit(w.index, ref_diff);
            }
            match (&v, &vr) {
                (Ok(_), Ok(pr)) => {
                    self.stat("interop.both_accept", 1);
                    if *pr != orig {
                        let hint = self.tag_hint(w);
                        self.violate("C04.interop", &format!("{proto}-ref-plaintext"), format!("{what}: the reference accepts rustrtc's packet but decodes a different packet ({}){hint}", first_diff(pr, &orig)));
                    }
                }
                (Err(_), Err(_)) => self.stat("interop.both_reject", 1),
                (Ok(_), Err(er)) => {
                    if dup {
                        self.stat("excluded.duplicate", 1);
                    } else if dec_rfc != dec_ref {
                        self.stat("excluded.ref_estimator_deviation", 1);
                    } else {
                        let hint = self.tag_hint(w);
                        self.violate("C04.interop", &format!("{proto}-ref-rejects"), format!("{what}: protected by rustrtc, accepted by rustrtc, rejected by the reference: {er}{hint}"));
                    }
                }
                (Err(e), Ok(pr)) => {
                    if dup {
                        self.stat("excluded.duplicate", 1);
                    } else if dec_rfc != dec_ref {
                        self.stat("excluded.ref_estimator_deviation", 1);
                    } else if *pr != orig {
                        // the reference returns unauthenticated bytes for some inputs (E-bit clear): not an accept
                        self.stat("excluded.ref_unauthenticated_passthrough", 1);
                    } else {
                        self.violate("C04.interop", &format!("{proto}-rust-rejects"), format!("{what}: protected by rustrtc, decoded correctly by the reference, rejected by rustrtc: {e}"));
                    }
                }
            }
        }
        // (c) rustrtc receives what the reference protected
        if let (Some(rev), Some(b)) = (self.rx_rev.as_mut(), w.b.as_ref()) {
            let vv = if w.rtcp { rust_rtcp(rev, b) } else { rust_rtp(rev, b) };
            match vv {
                Ok(p) => {
                    self.stat("reverse.accept", 1);
                    if p != orig {
                        self.violate("C04.interop", &format!("{proto}-reverse-plaintext"), format!("{what}: protected by the reference, accepted by rustrtc, but decoded to a different packet ({})", first_diff(&p, &orig)));
                    }
                }
                Err(e) => {
                    self.stat("reverse.reject", 1);
                    if dec_rfc && !dup {
                        let hint = self.tag_hint(w);
                        self.violate("C04.interop", &format!("{proto}-reverse-rejected"), format!("{what}: protected by the reference, decodable by the RFC index model, rejected by rustrtc: {e}{hint}"));
                    }
                }
            }
        }
    }

    fn tag_hint(&self, w: &Wire) -> String {
        match &w.b {
            Some(b) if b.len() != w.a.len() => format!(
                " [protected length: rustrtc {} bytes, reference {} bytes{}]",
                w.a.len(),
                b.len(),
                if w.rtcp && self.prof == Prof::S32 && b.len() == w.a.len() + 6 { "; srtcp-tag-len: rustrtc appends a 4-byte SRTCP tag, the reference (RFC 5764 4.1.2: 80-bit SRTCP tag for SRTP_AES128_CM_HMAC_SHA1_32) a 10-byte one" } else { "" }
            ),
            Some(b) if *b != w.a => format!(" [same length, {}]", first_diff(&w.a, b)),
            _ => String::new(),
        }
    }
}

include!("srtp_c05.rs");
include!("srtp_run.rs");
