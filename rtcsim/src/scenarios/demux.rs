//! Scenario `demux` (C19): one plain-RTP `RtpTransport` on host B fed through the real
//! socket -> pump -> IceConn::receive path.
//!
//! Part 1 (demux): listener registrations (SSRC / RID / MID / payload type / payload-type
//! list / provisional), listener close (receiver dropped) and listener stall (bounded channel
//! not drained -> full) interleaved in plan order with RTP packets of arbitrary SSRC / PT /
//! header-extension contents. A reference model of the DOCUMENTED priority
//! RID -> MID -> SSRC (incl. learnt bindings) -> unique payload type -> single provisional
//! yields, per packet, the set of receivers the documentation allows; "nowhere" is always allowed.
//!   C19.single  a packet is handed to at most one receiver, at most once
//!   C19.route   the receiver that got the packet is one the model allows
//! Where code/documentation leave a choice the model branches and accepts every branch:
//!   * a closed (receiver dropped) listener that is still registered may still capture the
//!     packet (-> dropped, its SSRC binding removed) or may already have been pruned (-> next level);
//!   * a binding learnt from a unique-payload-type match may or may not exist later;
//!   * a drop is never a violation (full listener, or any other reason).
//!
//! Part 2 (bridge): `bridge_rewrite_rules_to[_with_video]` towards target transports on host C
//! whose wire (every datagram leaving C, in emission order == arrival order at the peer, the
//! C->peer link is FIFO and fault-free) is recorded. Every source packet carries its plan
//! op index in the payload, so each output is attributed to its source packet even under
//! duplication and reordering. Per bridge installation and per source SSRC:
//!   C19.bridge-ssrc  one output SSRC (and one output PT) per matched rule
//!   C19.bridge-seq   output sequence numbers consecutive (mod 2^16) in arrival order
//!   C19.bridge-ts    d(out ts) == d(src ts) for consecutive outputs unless the source step is a
//!                    discontinuity (forward step > 900 000 ticks, or backwards i.e. >= 2^31)
//!
//! knob `wire`=0: packets are injected one at a time and fully processed before the next op
//! (exact attribution for the demux oracles; duplication / reordering / jumps are plan ops).
//! knob `wire`=1: packets leave bound sockets on host A and are subject to `plan.faults`
//! (drop / dup / delay / hold on class "RTP"); only the bridge oracles are evaluated.
use super::Tier;
use crate::monitor::{StdMonitor, WireOracle};
use crate::net::{addr, Shared};
use crate::plan::*;
use crate::rig::bare_conn;
use crate::sim::Ctx;
use rustrtc::rtp::RtpPacket;
use rustrtc::transports::rtp::RtpTransport;
use rustrtc::transports::PacketReceiver;
use rustrtc::verif_hooks::SimUdp;
use rustrtc::{RtpRewriteBridgeOptions, RtpRewriteRule};
use std::collections::{BTreeMap, BTreeSet, HashSet};
use std::net::{IpAddr, SocketAddr};
use std::sync::{Arc, Mutex};
use std::time::Duration;
use tokio::sync::mpsc;

// ---------------------------------------------------------------------------
// plan vocabulary
// ---------------------------------------------------------------------------
pub const F_MARKER: i64 = 1;
pub const F_TWOBYTE: i64 = 2;
pub const F_EXTRA_BEFORE: i64 = 4;
pub const F_EXTRA_AFTER: i64 = 8;
pub const F_CSRC: i64 = 16;
pub const F_WRONG_MID_ID: i64 = 32;
pub const F_TRUNC_EXT: i64 = 64;
pub const F_OTHER_PROFILE: i64 = 128;

const LABELS: &[&[u8]] = &[b"0", b"1", b"2", b"a", b"audio", b"v1", b"0123456789abcdef", b"\xff\xfe", b"\xc3\xa9", b"h", b"m", b"l", b"q"];
pub const L_NONUTF8: i64 = 8;

/// MID / RID value table shared by registrations and packets (code 0 = absent).
pub fn label(code: i64) -> Option<Vec<u8>> {
    if code <= 0 { None } else { Some(LABELS[((code - 1) as usize) % LABELS.len()].to_vec()) }
}
fn label_str(code: i64) -> Option<String> {
    label(code).and_then(|b| String::from_utf8(b).ok())
}

#[derive(Clone, Debug)]
struct PktSpec {
    ssrc: u32,
    pt: u8,
    seq: u16,
    ts: u32,
    mid: Option<Vec<u8>>,
    rid: Option<Vec<u8>>,
    flags: i64,
}

/// pkt a = [ssrc, pt, seq, ts, mid_code, rid_code, flags]; total for every i64.
fn pkt_spec(op: &Op) -> PktSpec {
    PktSpec { ssrc: op.arg(0) as u32, pt: (op.arg(1) & 0x7f) as u8, seq: op.arg(2) as u16, ts: op.arg(3) as u32, mid: label(op.arg(4)), rid: label(op.arg(5)), flags: op.arg(6) }
}

const MAGIC: [u8; 2] = [0xC1, 0x9D];

/// The harness' own RTP serialiser (RFC 3550 header, RFC 8285 one-/two-byte extensions).
fn build_rtp(s: &PktSpec, id: u32, mid_id: u8, rid_id: u8) -> Vec<u8> {
    let mut els: Vec<(u8, Vec<u8>)> = Vec::new();
    let pkt_mid_id = {
        let base = if mid_id != 0 { mid_id } else { 9 };
        if s.flags & F_WRONG_MID_ID != 0 { (base % 14) + 1 } else { base }
    };
    let pkt_rid_id = if rid_id != 0 { rid_id } else { 10 };
    let extra_id = [13u8, 12, 11, 8].into_iter().find(|x| *x != pkt_mid_id && *x != pkt_rid_id && *x != mid_id && *x != rid_id).unwrap_or(13);
    if s.flags & F_EXTRA_BEFORE != 0 {
        els.push((extra_id, vec![0xAA, 0xBB, 0xCC]));
    }
    if let Some(m) = &s.mid {
        els.push((pkt_mid_id, m.clone()));
    }
    if let Some(rv) = &s.rid {
        els.push((pkt_rid_id, rv.clone()));
    }
    if s.flags & F_EXTRA_AFTER != 0 {
        els.push((extra_id, vec![0x11]));
    }
    let two = s.flags & F_TWOBYTE != 0;
    let mut ext: Vec<u8> = Vec::new();
    let mut last_hdr = None;
    for (eid, data) in els.iter() {
        let data = if data.is_empty() { vec![0u8] } else { data.clone() };
        let data = if data.len() > 16 { data[..16].to_vec() } else { data };
        last_hdr = Some(ext.len());
        if two {
            ext.push(*eid);
            ext.push(data.len() as u8);
        } else {
            ext.push(((*eid & 15) << 4) | ((data.len() - 1) as u8));
        }
        ext.extend_from_slice(&data);
    }
    if s.flags & F_TRUNC_EXT != 0 {
        if let Some(h) = last_hdr {
            // the last element claims more bytes than the extension block holds
            if two { ext[h + 1] = 200 } else { ext[h] |= 0x0f };
            ext.truncate((h + 3).min(ext.len()));
        }
    }
    while ext.len() % 4 != 0 {
        ext.push(0);
    }
    let has_ext = !els.is_empty();
    let csrc = s.flags & F_CSRC != 0;
    let mut b1 = s.pt & 0x7f;
    // RFC 5761: second byte 192..=223 is RTCP territory; keep the datagram an RTP packet
    if s.flags & F_MARKER != 0 && !(64..96).contains(&s.pt) {
        b1 |= 0x80;
    }
    let mut v = vec![0x80 | if has_ext { 0x10 } else { 0 } | if csrc { 2 } else { 0 }, b1];
    v.extend_from_slice(&s.seq.to_be_bytes());
    v.extend_from_slice(&s.ts.to_be_bytes());
    v.extend_from_slice(&s.ssrc.to_be_bytes());
    if csrc {
        v.extend_from_slice(&0x0102_0304u32.to_be_bytes());
        v.extend_from_slice(&0xfffe_fdfcu32.to_be_bytes());
    }
    if has_ext {
        let profile: u16 = if s.flags & F_OTHER_PROFILE != 0 { 0x1234 } else if two { 0x1000 } else { 0xBEDE };
        v.extend_from_slice(&profile.to_be_bytes());
        v.extend_from_slice(&((ext.len() / 4) as u16).to_be_bytes());
        v.extend_from_slice(&ext);
    }
    v.extend_from_slice(&MAGIC);
    v.extend_from_slice(&id.to_be_bytes());
    v.extend_from_slice(&[0x55, 0x66]);
    v
}

#[derive(Clone, Debug)]
struct Parsed {
    pt: u8,
    seq: u16,
    ts: u32,
    ssrc: u32,
    ext: Option<(u16, Vec<u8>)>,
    payload: Vec<u8>,
}

/// The harness' own RTP parser (not rustrtc's).
fn parse_rtp(d: &[u8]) -> Option<Parsed> {
    if d.len() < 12 || d[0] >> 6 != 2 {
        return None;
    }
    let cc = (d[0] & 15) as usize;
    let x = d[0] & 0x10 != 0;
    let p = d[0] & 0x20 != 0;
    let mut o = 12 + 4 * cc;
    if d.len() < o {
        return None;
    }
    let mut ext = None;
    if x {
        if d.len() < o + 4 {
            return None;
        }
        let profile = u16::from_be_bytes([d[o], d[o + 1]]);
        let l = u16::from_be_bytes([d[o + 2], d[o + 3]]) as usize * 4;
        o += 4;
        if d.len() < o + l {
            return None;
        }
        ext = Some((profile, d[o..o + l].to_vec()));
        o += l;
    }
    let mut end = d.len();
    if p {
        let pl = *d.last()? as usize;
        if pl > end - o {
            return None;
        }
        end -= pl;
    }
    Some(Parsed {
        pt: d[1] & 0x7f,
        seq: u16::from_be_bytes([d[2], d[3]]),
        ts: u32::from_be_bytes([d[4], d[5], d[6], d[7]]),
        ssrc: u32::from_be_bytes([d[8], d[9], d[10], d[11]]),
        ext,
        payload: d[o..end].to_vec(),
    })
}

/// RFC 8285 element lookup; an element that overruns the block ends the walk.
fn ext_get(ext: &Option<(u16, Vec<u8>)>, id: u8) -> Option<Vec<u8>> {
    let (profile, data) = ext.as_ref()?;
    if id == 0 {
        return None;
    }
    let mut o = 0usize;
    if *profile == 0xBEDE {
        while o < data.len() {
            let b = data[o];
            o += 1;
            if b == 0 {
                continue;
            }
            let eid = b >> 4;
            let len = (b & 15) as usize + 1;
            if eid == 15 || o + len > data.len() {
                return None;
            }
            if eid == id {
                return Some(data[o..o + len].to_vec());
            }
            o += len;
        }
        None
    } else if *profile == 0x1000 {
        while o < data.len() {
            let eid = data[o];
            o += 1;
            if eid == 0 {
                continue;
            }
            if o >= data.len() {
                return None;
            }
            let len = data[o] as usize;
            o += 1;
            if o + len > data.len() {
                return None;
            }
            if eid == id {
                return Some(data[o..o + len].to_vec());
            }
            o += len;
        }
        None
    } else {
        None
    }
}

fn payload_id(p: &[u8]) -> Option<u32> {
    if p.len() >= 6 && p[0..2] == MAGIC { Some(u32::from_be_bytes([p[2], p[3], p[4], p[5]])) } else { None }
}

// ---------------------------------------------------------------------------
// reference model of the documented demux priority
// ---------------------------------------------------------------------------
#[derive(Clone, Debug, Default)]
struct ML {
    alive: bool,
    pts: Vec<u8>,
    prov: bool,
}

#[derive(Default)]
struct Model {
    ls: BTreeMap<usize, ML>,
    by_rid: BTreeMap<String, usize>,
    by_mid: BTreeMap<String, usize>,
    /// possible values of the transport's SSRC binding (None = unbound); absent key == {None}
    by_ssrc: BTreeMap<u32, BTreeSet<Option<usize>>>,
    mid_id: u8,
    rid_id: u8,
}

#[derive(Clone, Debug, PartialEq)]
struct Branch {
    out: Option<usize>,
    bind: Option<usize>,
    lvl: &'static str,
}

impl Model {
    fn alive(&self, l: usize) -> bool {
        self.ls.get(&l).map(|x| x.alive).unwrap_or(false)
    }
    /// All documented outcomes for one packet: (receiver or nowhere, resulting SSRC binding).
    fn branches(&self, p: &Parsed) -> (Vec<Branch>, usize) {
        let mut out = Vec::new();
        let mut matched: BTreeSet<usize> = BTreeSet::new();
        let rid = ext_get(&p.ext, self.rid_id).and_then(|b| String::from_utf8(b).ok());
        let mid = ext_get(&p.ext, self.mid_id).and_then(|b| String::from_utf8(b).ok());
        let cands: BTreeSet<Option<usize>> = self.by_ssrc.get(&p.ssrc).cloned().unwrap_or_else(|| [None].into_iter().collect());
        let lr: Vec<usize> = self.ls.iter().filter(|(_, m)| m.alive && m.pts.contains(&p.pt)).map(|(l, _)| *l).collect();
        let cr: Vec<usize> = self.ls.iter().filter(|(_, m)| !m.alive && m.pts.contains(&p.pt)).map(|(l, _)| *l).collect();
        let lp: Vec<usize> = self.ls.iter().filter(|(_, m)| m.alive && m.prov).map(|(l, _)| *l).collect();
        let cp: Vec<usize> = self.ls.iter().filter(|(_, m)| !m.alive && m.prov).map(|(l, _)| *l).collect();
        if let Some(h) = rid.as_ref().and_then(|r| self.by_rid.get(r)) {
            matched.insert(*h);
        }
        if let Some(h) = mid.as_ref().and_then(|r| self.by_mid.get(r)) {
            matched.insert(*h);
        }
        matched.extend(cands.iter().flatten().copied());
        matched.extend(lr.iter().chain(cr.iter()).chain(lp.iter()).chain(cp.iter()).copied());

        // level 4+5: unique payload type, then single provisional (binding is None here)
        let tail = |out: &mut Vec<Branch>| {
            let prov = |out: &mut Vec<Branch>| {
                if lp.len() == 1 {
                    out.push(Branch { out: Some(lp[0]), bind: None, lvl: "prov" });
                    if !cp.is_empty() {
                        out.push(Branch { out: None, bind: None, lvl: "prov-blocked" });
                    }
                } else {
                    out.push(Branch { out: None, bind: None, lvl: "none" });
                }
            };
            if lr.len() == 1 {
                // a binding learnt from a payload-type match is optional
                out.push(Branch { out: Some(lr[0]), bind: Some(lr[0]), lvl: "pt" });
                out.push(Branch { out: Some(lr[0]), bind: None, lvl: "pt" });
                if !cr.is_empty() {
                    prov(out);
                }
            } else if lr.is_empty() && !cr.is_empty() {
                out.push(Branch { out: None, bind: None, lvl: "pt-closed" });
                prov(out);
            } else {
                prov(out);
            }
        };
        // level 3: SSRC binding, one branch per possible binding value
        let ssrc_lvl = |out: &mut Vec<Branch>| {
            for c in cands.iter() {
                match c {
                    Some(h) if self.alive(*h) => out.push(Branch { out: Some(*h), bind: Some(*h), lvl: "ssrc" }),
                    Some(_) => {
                        out.push(Branch { out: None, bind: None, lvl: "ssrc-closed" });
                        tail(out);
                    }
                    None => tail(out),
                }
            }
        };
        // level 2: MID
        let mid_lvl = |out: &mut Vec<Branch>| match mid.as_ref().and_then(|m| self.by_mid.get(m)) {
            Some(h) if self.alive(*h) => out.push(Branch { out: Some(*h), bind: Some(*h), lvl: "mid" }),
            Some(_) => {
                out.push(Branch { out: None, bind: None, lvl: "mid-closed" });
                ssrc_lvl(out);
            }
            None => ssrc_lvl(out),
        };
        // level 1: RID
        match rid.as_ref().and_then(|x| self.by_rid.get(x)) {
            Some(h) if self.alive(*h) => out.push(Branch { out: Some(*h), bind: Some(*h), lvl: "rid" }),
            Some(_) => {
                out.push(Branch { out: None, bind: None, lvl: "rid-closed" });
                mid_lvl(&mut out);
            }
            None => mid_lvl(&mut out),
        }
        out.dedup();
        (out, matched.len())
    }
    fn describe(&self) -> String {
        let ls: Vec<String> = self.ls.iter().map(|(l, m)| format!("L{l}{{{}pts={:?}{}}}", if m.alive { "" } else { "closed " }, m.pts, if m.prov { " prov" } else { "" })).collect();
        format!("listeners [{}] by_rid {:?} by_mid {:?} by_ssrc {:?} mid_ext {} rid_ext {}", ls.join(", "), self.by_rid, self.by_mid, self.by_ssrc.iter().map(|(k, v)| (format!("{k:#x}"), v.clone())).collect::<Vec<_>>(), self.mid_id, self.rid_id)
    }
}

// ---------------------------------------------------------------------------
// bridge configuration (plan op -> rustrtc rule table + the model's copy)
// ---------------------------------------------------------------------------
#[derive(Clone, Debug)]
struct RuleM {
    match_pt: Option<u8>,
    fixed: Option<u32>,
    offset: u32,
    out_pt: Option<u8>,
    mid_ext: Option<u8>,
    mid: Option<String>,
}
#[derive(Clone, Debug)]
struct BridgeM {
    strip: bool,
    init_seq: Option<u16>,
    init_off: Option<u32>,
    init_out_ts: Option<u32>,
    video_pt: Option<u8>,
    rules: Vec<RuleM>,
}

/// bridge_install a = [flags(1 strip), init_seq|-1, init_ts_off|-1, init_out_ts|-1, video_pt|-1,
///                     (match_pt|-1, fixed_ssrc|-1, ssrc_offset, out_pt|-1, mid_ext_id|0, mid_code|0)*]
fn bridge_cfg(op: &Op) -> BridgeM {
    let opt = |v: i64| if v < 0 { None } else { Some(v) };
    let mut rules = Vec::new();
    let mut i = 5;
    while i + 5 < op.a.len() && rules.len() < 8 {
        let me = (op.arg(i + 4) & 15) as u8;
        rules.push(RuleM {
            match_pt: opt(op.arg(i)).map(|v| (v & 0x7f) as u8),
            fixed: opt(op.arg(i + 1)).map(|v| v as u32),
            offset: op.arg(i + 2) as u32,
            out_pt: opt(op.arg(i + 3)).map(|v| (v & 0x7f) as u8),
            mid_ext: if me == 0 || me == 15 { None } else { Some(me) },
            mid: label_str(op.arg(i + 5)),
        });
        i += 6;
    }
    BridgeM {
        strip: op.arg(0) & 1 != 0,
        init_seq: opt(op.arg(1)).map(|v| v as u16),
        init_off: opt(op.arg(2)).map(|v| v as u32),
        init_out_ts: opt(op.arg(3)).map(|v| v as u32),
        video_pt: opt(op.arg(4)).map(|v| (v & 0x7f) as u8),
        rules,
    }
}

impl BridgeM {
    /// documented selection: exact payload-type match wins, otherwise the catch-all, otherwise none
    fn rule_for(&self, pt: u8) -> Option<usize> {
        self.rules.iter().position(|r| r.match_pt == Some(pt)).or_else(|| self.rules.iter().position(|r| r.match_pt.is_none()))
    }
}

// ---------------------------------------------------------------------------
// wire tap on everything host C emits (bridge targets' wire)
// ---------------------------------------------------------------------------
struct EmitLog {
    epoch: u64,
    out: Vec<(u64, SocketAddr, Vec<u8>)>,
}
struct EmitTap {
    log: Arc<Mutex<EmitLog>>,
    ip: IpAddr,
}
impl WireOracle for EmitTap {
    fn on_other(&mut self, from: SocketAddr, to: SocketAddr, data: &[u8], _class: &str, _sh: &mut Shared) {
        if from.ip() == self.ip {
            let mut l = self.log.lock().unwrap();
            let e = l.epoch;
            l.out.push((e, to, data.to_vec()));
        }
    }
}

struct Lst {
    tx: mpsc::Sender<(RtpPacket, SocketAddr)>,
    rx: Option<mpsc::Receiver<(RtpPacket, SocketAddr)>>,
    stalled: bool,
    /// ids the harness believes are queued in the undrained channel
    pending: Vec<u32>,
}

fn sgn_fwd(d: u32) -> bool {
    d < 0x8000_0000
}

pub async fn run(ctx: &Ctx) {
    let plan = ctx.plan.clone();
    let wire = plan.knob("wire", 0) != 0;
    let cap = plan.knob("cap", 4).clamp(1, 64) as usize;
    let lat_a = Duration::from_micros(plan.latency_us[0].max(1));
    let lat_o = Duration::from_micros(plan.latency_us[1].max(1));
    let b_addr = addr("B", 5000);
    let c_ip: IpAddr = addr("C", 1).ip();
    let peer = addr("10.0.0.4", 7000);
    let peer_v = addr("10.0.0.4", 7002);

    let emit = Arc::new(Mutex::new(EmitLog { epoch: 0, out: Vec::new() }));
    {
        let mut m = StdMonitor::new(ctx.keys.clone());
        m.oracles.push(Box::new(EmitTap { log: emit.clone(), ip: c_ip }));
        ctx.net.set_monitor(Box::new(m));
    }
    // transport under test on B; bridge targets on C (audio/default and video)
    let (conn_b, _keep_b, pump_b, _) = bare_conn(ctx, "B", 5000, addr("A", 7000));
    let rtp = Arc::new(RtpTransport::new(conn_b.clone(), false));
    conn_b.set_rtp_receiver(rtp.clone() as Arc<dyn PacketReceiver>);
    let (conn_c, _keep_c, pump_c, _) = bare_conn(ctx, "C", 6000, peer);
    let tgt = Arc::new(RtpTransport::new(conn_c.clone(), false));
    let (conn_v, _keep_v, pump_v, _) = bare_conn(ctx, "C", 6002, peer_v);
    let tgt_v = Arc::new(RtpTransport::new(conn_v.clone(), false));
    let peer_sock = ctx.net.bind(peer).expect("bind peer");
    let peer_sock_v = ctx.net.bind(peer_v).expect("bind peer_v");
    let mut src_socks: BTreeMap<u16, Arc<crate::net::SimSock>> = BTreeMap::new();

    let mut model = Model { mid_id: plan.knob("mid_ext", 0).clamp(0, 14) as u8, rid_id: plan.knob("rid_ext", 0).clamp(0, 14) as u8, ..Default::default() };
    rtp.set_sdes_mid_extension_id(if model.mid_id == 0 { None } else { Some(model.mid_id) });
    rtp.set_rid_extension_id(if model.rid_id == 0 { None } else { Some(model.rid_id) });

    let mut lsts: BTreeMap<usize, Lst> = BTreeMap::new();
    let mut bridge: Option<BridgeM> = None;
    let mut tables: BTreeMap<u64, BridgeM> = BTreeMap::new();
    let mut seen_out = 0usize;
    let mut competed = 0u64;
    let mut pkts = 0u64;
    let mut explicit_ssrc: BTreeSet<u32> = BTreeSet::new();

    macro_rules! lst {
        ($l:expr) => {{
            let l: usize = $l;
            if !lsts.contains_key(&l) {
                let (tx, rx) = mpsc::channel(cap);
                lsts.insert(l, Lst { tx, rx: Some(rx), stalled: false, pending: Vec::new() });
                model.ls.insert(l, ML { alive: true, ..Default::default() });
            }
            lsts.get(&l).unwrap().tx.clone()
        }};
    }

    for (i, op) in plan.ops.iter().enumerate() {
        ctx.sleep_until_ms(op.at_ms).await;
        let l = (op.arg(0).rem_euclid(16)) as usize;
        match op.kind.as_str() {
            "reg_ssrc" => {
                let tx = lst!(l);
                let ssrc = op.arg(1) as u32;
                rtp.register_listener_sync(ssrc, tx);
                model.by_ssrc.insert(ssrc, [Some(l)].into_iter().collect());
                explicit_ssrc.insert(ssrc);
                ctx.ev(&format!("reg_ssrc L{l}"), &format!("{ssrc:#x}"));
            }
            "reg_mid" => {
                if let Some(m) = label_str(op.arg(1)) {
                    let tx = lst!(l);
                    rtp.register_mid_listener(m.clone(), tx);
                    ctx.ev(&format!("reg_mid L{l} {m:?}"), "");
                    model.by_mid.insert(m, l);
                }
            }
            "reg_rid" => {
                if let Some(m) = label_str(op.arg(1)) {
                    let tx = lst!(l);
                    rtp.register_rid_listener(m.clone(), tx);
                    ctx.ev(&format!("reg_rid L{l} {m:?}"), "");
                    model.by_rid.insert(m, l);
                }
            }
            "reg_pt" => {
                let tx = lst!(l);
                let pt = (op.arg(1) & 0x7f) as u8;
                rtp.register_pt_listener(pt, tx);
                let m = model.ls.get_mut(&l).unwrap();
                if !m.pts.contains(&pt) {
                    m.pts.push(pt);
                }
                ctx.ev(&format!("reg_pt L{l} {pt}"), "");
            }
            "reg_pts" => {
                let tx = lst!(l);
                let mut pts: Vec<u8> = Vec::new();
                for v in op.a.iter().skip(1) {
                    let pt = (*v & 0x7f) as u8;
                    if !pts.contains(&pt) {
                        pts.push(pt);
                    }
                }
                rtp.register_payload_list_listener(pts.clone(), tx);
                ctx.ev(&format!("reg_pts L{l} {pts:?}"), "");
                model.ls.get_mut(&l).unwrap().pts = pts;
            }
            "reg_prov" => {
                let tx = lst!(l);
                rtp.register_provisional_listener(tx);
                model.ls.get_mut(&l).unwrap().prov = true;
                ctx.ev(&format!("reg_prov L{l}"), "");
            }
            "close_listener" => {
                if let Some(s) = lsts.get_mut(&l) {
                    if s.rx.take().is_some() {
                        s.pending.clear();
                        model.ls.get_mut(&l).unwrap().alive = false;
                        ctx.ev(&format!("close L{l}"), "");
                        ctx.stat("fault.listener_closed", 1);
                    }
                }
            }
            "stall" => {
                if let Some(s) = lsts.get_mut(&l) {
                    if s.rx.is_some() && !s.stalled {
                        s.stalled = true;
                        ctx.ev(&format!("stall L{l}"), "");
                    }
                }
            }
            "resume" => {
                if let Some(s) = lsts.get_mut(&l) {
                    if s.stalled {
                        s.stalled = false;
                        let mut got = Vec::new();
                        if let Some(rx) = s.rx.as_mut() {
                            while let Ok((p, _)) = rx.try_recv() {
                                got.push(payload_id(&p.payload).unwrap_or(u32::MAX));
                            }
                        }
                        if got != s.pending {
                            ctx.violate("HARNESS.backlog", format!("listener L{l} backlog {got:?} != recorded {:?}", s.pending));
                        }
                        s.pending.clear();
                        ctx.ev(&format!("resume L{l}"), "");
                    }
                }
            }
            "set_ext" => {
                model.mid_id = op.arg(0).clamp(0, 14) as u8;
                model.rid_id = op.arg(1).clamp(0, 14) as u8;
                rtp.set_sdes_mid_extension_id(if model.mid_id == 0 { None } else { Some(model.mid_id) });
                rtp.set_rid_extension_id(if model.rid_id == 0 { None } else { Some(model.rid_id) });
                ctx.ev(&format!("set_ext mid={} rid={}", model.mid_id, model.rid_id), "");
            }
            "clear_all" => {
                rtp.clear_listeners();
                model.by_ssrc.clear();
                model.by_rid.clear();
                model.by_mid.clear();
                for m in model.ls.values_mut() {
                    m.pts.clear();
                    m.prov = false;
                }
                ctx.ev("clear_all", "");
            }
            "bridge_install" => {
                let cfg = bridge_cfg(op);
                let rules: Vec<RtpRewriteRule> = cfg
                    .rules
                    .iter()
                    .map(|r| RtpRewriteRule { match_payload_type: r.match_pt, fixed_out_ssrc: r.fixed, ssrc_offset: r.offset, out_payload_type: r.out_pt, sdes_mid_extension_id: r.mid_ext, sdes_mid: r.mid.clone() })
                    .collect();
                let opts = RtpRewriteBridgeOptions { strip_extensions: cfg.strip, initial_sequence_number: cfg.init_seq, initial_timestamp_offset: cfg.init_off, initial_output_timestamp: cfg.init_out_ts };
                let epoch = {
                    let mut e = emit.lock().unwrap();
                    e.epoch += 1;
                    e.epoch
                };
                match cfg.video_pt {
                    Some(vpt) => rtp.bridge_rewrite_rules_to_with_video(tgt.clone(), Some(tgt_v.clone()), HashSet::from([vpt]), opts, rules),
                    None => rtp.bridge_rewrite_rules_to(tgt.clone(), opts, rules),
                }
                ctx.ev(&format!("bridge_install rules={:?} strip={} video={:?}", cfg.rules.iter().map(|r| (r.match_pt, r.out_pt, r.fixed.is_some(), r.mid.is_some())).collect::<Vec<_>>(), cfg.strip, cfg.video_pt), &format!("{cfg:?}"));
                tables.insert(epoch, cfg.clone());
                bridge = Some(cfg);
            }
            "bridge_clear" => {
                emit.lock().unwrap().epoch += 1;
                rtp.clear_bridge_rewrite();
                bridge = None;
                ctx.ev("bridge_clear", "");
            }
            "pkt" => {
                let spec = pkt_spec(op);
                let id = i as u32;
                let bytes = build_rtp(&spec, id, model.mid_id, model.rid_id);
                let slot = (spec.ssrc % 4) as u16;
                let from = addr("A", 7000 + slot);
                pkts += 1;
                if wire {
                    let s = src_socks.entry(slot).or_insert_with(|| ctx.net.bind(from).expect("bind source"));
                    let _ = s.try_send_to(&bytes, b_addr);
                    continue;
                }
                let Some(parsed) = parse_rtp(&bytes) else {
                    ctx.violate("HARNESS.build", format!("own parser rejects own packet {bytes:02x?}"));
                    continue;
                };
                let before = rtp.received_rtp_packets();
                ctx.net.inject(from, b_addr, &bytes);
                tokio::time::sleep(lat_a + Duration::from_millis(3)).await;
                if rtp.received_rtp_packets() != before + 1 {
                    ctx.stat("probe.not_accepted_as_rtp", 1);
                    ctx.ev("pkt not-accepted", &format!("{spec:?}"));
                }
                // who got it?
                let mut got: Vec<usize> = Vec::new();
                for (l, s) in lsts.iter_mut() {
                    let Some(rx) = s.rx.as_mut() else { continue };
                    if s.stalled {
                        let n = rx.len();
                        if n < s.pending.len() {
                            ctx.violate("HARNESS.backlog", format!("listener L{l} queue shrank while stalled"));
                        }
                        for _ in s.pending.len()..n {
                            s.pending.push(id);
                            got.push(*l);
                        }
                    } else {
                        while let Ok((p, _)) = rx.try_recv() {
                            match payload_id(&p.payload) {
                                Some(x) if x == id => got.push(*l),
                                other => ctx.violate("HARNESS.stale_item", format!("listener L{l} yielded item {other:?} while packet {id} was in flight")),
                            }
                        }
                    }
                }
                let outs = emit.lock().unwrap().out.len();
                let new_out = outs - seen_out;
                seen_out = outs;
                if bridge.is_some() {
                    // consumed by the rewrite bridge: no listener is involved
                    if new_out != 1 {
                        ctx.stat("probe.bridged_packet_outputs_ne_1", 1);
                    }
                    if !got.is_empty() {
                        ctx.stat("probe.bridged_and_delivered", 1);
                    }
                    ctx.ev(&format!("pkt bridged out={new_out} got={got:?}"), &format!("{spec:?}"));
                    continue;
                }
                if new_out != 0 {
                    ctx.stat("probe.output_without_bridge", 1);
                }
                let (br, nmatch) = model.branches(&parsed);
                if nmatch >= 2 {
                    competed += 1;
                }
                let mut acc: BTreeSet<usize> = br.iter().filter_map(|b| b.out).collect();
                let desc = || format!("packet op#{i} ssrc={:#x} pt={} mid={:?} rid={:?} flags={}", spec.ssrc, spec.pt, spec.mid.as_ref().map(|b| String::from_utf8_lossy(b).to_string()), spec.rid.as_ref().map(|b| String::from_utf8_lossy(b).to_string()), spec.flags);
                let mut uniq = got.clone();
                uniq.dedup();
                if got.len() > 1 {
                    ctx.violate("C19.single", format!("{} was handed to receivers {:?} (at most one delivery allowed); model allows {:?}; {}", desc(), got.iter().map(|l| format!("L{l}")).collect::<Vec<_>>(), acc, model.describe()));
                }
                let full = |l: usize| lsts.get(&l).map(|s| s.stalled && s.pending.len() >= cap).unwrap_or(false);
                let consistent: Vec<&Branch> = match uniq.first() {
                    Some(l) => {
                        if !acc.contains(l) {
                            ctx.violate(
                                "C19.route",
                                format!("{} was delivered to L{l}, but the documented priority RID->MID->SSRC->unique PT->single provisional allows only {:?} or a drop; branches {:?}; {}", desc(), acc.iter().map(|l| format!("L{l}")).collect::<Vec<_>>(), br, model.describe()),
                            );
                        }
                        br.iter().filter(|b| b.out == Some(*l)).collect()
                    }
                    None => {
                        let c: Vec<&Branch> = br.iter().filter(|b| b.out.map(|l| full(l)).unwrap_or(true)).collect();
                        if c.is_empty() {
                            ctx.stat("probe.drop_where_model_delivers", 1);
                            br.iter().collect()
                        } else {
                            if c.iter().any(|b| b.out.is_some()) {
                                ctx.stat("fault.listener_full_drop", 1);
                            }
                            c
                        }
                    }
                };
                acc.clear();
                let lvl = consistent.first().map(|b| b.lvl).unwrap_or("?");
                ctx.stat(&format!("probe.level.{lvl}"), 1);
                if lvl == "ssrc" && !uniq.is_empty() && !explicit_ssrc.contains(&parsed.ssrc) {
                    ctx.stat("probe.learnt_binding_used", 1);
                }
                if matches!(lvl, "rid" | "mid") && explicit_ssrc.remove(&parsed.ssrc) {
                    ctx.stat("probe.mid_rid_rebinds_registered_ssrc", 1);
                }
                if consistent.iter().any(|b| b.lvl.ends_with("closed") || b.lvl == "prov-blocked") {
                    ctx.stat("probe.closed_listener_in_play", 1);
                }
                if !consistent.is_empty() {
                    let nb: BTreeSet<Option<usize>> = consistent.iter().map(|b| b.bind).collect();
                    if nb.len() == 1 && nb.contains(&None) {
                        model.by_ssrc.remove(&parsed.ssrc);
                    } else {
                        model.by_ssrc.insert(parsed.ssrc, nb);
                    }
                }
                ctx.ev(&format!("pkt lvl={lvl} n={nmatch} -> {}", uniq.first().map(|l| format!("L{l}")).unwrap_or_else(|| "none".into())), &desc());
            }
            other => ctx.violate("HARNESS.op", format!("unknown op kind {other}")),
        }
    }

    // let everything in flight land (wire mode: faulted deliveries are clamped to heal_at + latency)
    let last = plan.ops.iter().map(|o| o.at_ms).max().unwrap_or(0);
    let end = plan.heal_at_ms.max(last).max(ctx.now_ms()) + (lat_a + lat_o).as_millis() as u64 + if wire { 520 } else { 5 };
    ctx.sleep_until_ms(end).await;

    // ---- bridge oracles over the recorded wire of host C ------------------------------
    let outs = std::mem::take(&mut emit.lock().unwrap().out);
    // cross-check: what the peers' sockets received is exactly what C emitted, in order
    {
        let mut arrived: Vec<Vec<u8>> = Vec::new();
        let mut arrived_v: Vec<Vec<u8>> = Vec::new();
        let mut buf = vec![0u8; 2048];
        while let Ok((n, _)) = peer_sock.try_recv_from(&mut buf) {
            arrived.push(buf[..n].to_vec());
        }
        while let Ok((n, _)) = peer_sock_v.try_recv_from(&mut buf) {
            arrived_v.push(buf[..n].to_vec());
        }
        let e: Vec<&Vec<u8>> = outs.iter().filter(|o| o.1 == peer).map(|o| &o.2).collect();
        let ev: Vec<&Vec<u8>> = outs.iter().filter(|o| o.1 == peer_v).map(|o| &o.2).collect();
        if e.len() != arrived.len() || e.iter().zip(arrived.iter()).any(|(a, b)| *a != b) || ev.len() != arrived_v.len() || ev.iter().zip(arrived_v.iter()).any(|(a, b)| *a != b) {
            ctx.violate("HARNESS.peer_wire", format!("peer sockets received {}+{} datagrams, host C emitted {}+{} (or contents/order differ)", arrived.len(), arrived_v.len(), e.len(), ev.len()));
        }
    }
    struct OutRec {
        spec: PktSpec,
        out: Parsed,
        rule: Option<usize>,
        op: usize,
    }
    let mut streams: BTreeMap<(u64, u32), Vec<OutRec>> = BTreeMap::new();
    for (epoch, to, data) in outs.iter() {
        let Some(out) = parse_rtp(data) else {
            ctx.violate("HARNESS.output_parse", format!("datagram from C to {to} is not RTP: {data:02x?}"));
            continue;
        };
        let Some(id) = payload_id(&out.payload) else {
            ctx.violate("HARNESS.output_id", format!("output without harness payload id: {data:02x?}"));
            continue;
        };
        let Some(op) = plan.ops.get(id as usize).filter(|o| o.kind == "pkt") else {
            ctx.violate("HARNESS.output_id", format!("output carries unknown op index {id}"));
            continue;
        };
        let Some(cfg) = tables.get(epoch) else {
            ctx.stat("probe.output_without_bridge", 1);
            continue;
        };
        let spec = pkt_spec(op);
        let rule = cfg.rule_for(spec.pt);
        let expect_to = if cfg.video_pt == Some(spec.pt) { peer_v } else { peer };
        if *to != expect_to {
            ctx.stat("probe.bridge_target_unexpected", 1);
        }
        streams.entry((*epoch, spec.ssrc)).or_default().push(OutRec { spec, out, rule, op: id as usize });
    }
    let mut bridge_nontrivial = false;
    let mut per_epoch: BTreeMap<u64, usize> = BTreeMap::new();
    for ((epoch, ssrc), recs) in streams.iter() {
        *per_epoch.entry(*epoch).or_insert(0) += 1;
        let cfg = tables.get(epoch).unwrap();
        ctx.stat("bridge.streams", 1);
        ctx.stat("bridge.outputs", recs.len() as u64);
        // C19.bridge-ssrc: one (out ssrc, out pt) per matched rule (per source pt when the rule keeps the pt)
        let mut per_rule: BTreeMap<(Option<usize>, Option<u8>), (u32, u8, usize)> = BTreeMap::new();
        for r in recs.iter() {
            let rewrites_pt = r.rule.and_then(|k| cfg.rules[k].out_pt).is_some();
            let key = (r.rule, if rewrites_pt { None } else { Some(r.spec.pt) });
            match per_rule.get(&key) {
                None => {
                    per_rule.insert(key, (r.out.ssrc, r.out.pt, r.op));
                }
                Some((s0, p0, op0)) => {
                    if *s0 != r.out.ssrc || *p0 != r.out.pt {
                        ctx.violate(
                            "C19.bridge-ssrc",
                            format!("bridge epoch {epoch}, source ssrc {ssrc:#x}, rule {:?}: op#{op0} was rewritten to ssrc {s0:#x} pt {p0}, op#{} (source pt {}) to ssrc {:#x} pt {}; rules {:?}", r.rule, r.op, r.spec.pt, r.out.ssrc, r.out.pt, cfg.rules),
                        );
                    }
                }
            }
            // informational: does the value equal what the rule says?
            let want_ssrc = match r.rule {
                Some(k) => cfg.rules[k].fixed.unwrap_or(ssrc.wrapping_add(cfg.rules[k].offset)),
                None => *ssrc,
            };
            if r.out.ssrc != want_ssrc {
                ctx.stat("probe.bridge_out_ssrc_not_of_matched_rule", 1);
            }
            if let Some(k) = r.rule {
                if let (false, Some(eid), Some(mid)) = (cfg.strip, cfg.rules[k].mid_ext, cfg.rules[k].mid.as_ref()) {
                    if ext_get(&r.out.ext, eid).as_deref() == Some(mid.as_bytes()) {
                        ctx.stat("probe.bridge_mid_stamped", 1);
                    } else {
                        ctx.stat("probe.bridge_mid_not_stamped", 1);
                    }
                }
            }
            if cfg.strip && r.out.ext.is_some() {
                ctx.stat("probe.bridge_strip_left_extension", 1);
            }
        }
        if let (Some(f), Some(s)) = (recs.first(), cfg.init_seq) {
            if f.out.seq != s {
                ctx.stat("probe.bridge_initial_seq_not_honoured", 1);
            }
        }
        // C19.bridge-seq / C19.bridge-ts over consecutive outputs of this source stream
        ctx.ev(&format!("out e{epoch} s{} r{:?} first", ssrc % 4, recs[0].rule), &format!("op#{} seq {} ts {}", recs[0].op, recs[0].out.seq, recs[0].out.ts));
        for w in recs.windows(2) {
            let (a, b) = (&w[0], &w[1]);
            let dseq = b.out.seq.wrapping_sub(a.out.seq);
            if dseq != 1 {
                ctx.violate(
                    "C19.bridge-seq",
                    format!("bridge epoch {epoch}, source ssrc {ssrc:#x}: consecutive outputs op#{} (src seq {}, out seq {}) and op#{} (src seq {}, out seq {}) are not consecutive", a.op, a.spec.seq, a.out.seq, b.op, b.spec.seq, b.out.seq),
                );
            }
            let dsrc = b.spec.ts.wrapping_sub(a.spec.ts);
            let dout = b.out.ts.wrapping_sub(a.out.ts);
            let class = if !sgn_fwd(dsrc) {
                "back"
            } else if dsrc > 900_000 {
                "jump"
            } else {
                "cont"
            };
            if class == "cont" && dout != dsrc {
                ctx.violate(
                    "C19.bridge-ts",
                    format!("bridge epoch {epoch}, source ssrc {ssrc:#x}: op#{} (src ts {}, out ts {}) -> op#{} (src ts {}, out ts {}): source step {} (<= 900000, forward) but output step {}", a.op, a.spec.ts, a.out.ts, b.op, b.spec.ts, b.out.ts, dsrc, dout),
                );
            }
            let seq_wrap = b.out.seq < a.out.seq;
            let ts_wrap = class == "cont" && b.out.ts < a.out.ts || class == "cont" && b.spec.ts < a.spec.ts;
            let src_seq_irregular = b.spec.seq.wrapping_sub(a.spec.seq) != 1;
            if class != "cont" || seq_wrap || ts_wrap || src_seq_irregular {
                bridge_nontrivial = true;
            }
            if class != "cont" {
                ctx.stat(&format!("probe.bridge_ts_{class}"), 1);
            }
            if seq_wrap {
                ctx.stat("probe.bridge_seq_wrap", 1);
            }
            if ts_wrap {
                ctx.stat("probe.bridge_ts_wrap", 1);
            }
            if src_seq_irregular {
                ctx.stat("probe.bridge_src_seq_irregular", 1);
            }
            ctx.ev(&format!("out e{epoch} s{} r{:?} {class}{}{}{}", ssrc % 4, b.rule, if seq_wrap { " seqwrap" } else { "" }, if ts_wrap { " tswrap" } else { "" }, if src_seq_irregular { " srcseq" } else { "" }), &format!("op#{} dsrc {dsrc} dout {dout}", b.op));
        }
    }
    if per_epoch.values().any(|n| *n >= 2) {
        bridge_nontrivial = true;
        ctx.stat("probe.bridge_concurrent_sources", 1);
    }
    {
        let mut sh = ctx.sh.lock().unwrap();
        sh.stat("pkts", pkts);
        sh.stat("demux.competed", competed);
        let fired = sh.fired.len();
        if competed > 0 || bridge_nontrivial || (wire && fired > 0 && !streams.is_empty()) {
            sh.stat("nontrivial", 1);
        }
        let now = sh.now_ms() as u64;
        sh.stat("virt_ms", now);
    }
    rtp.clear_bridge_rewrite();
    pump_b.abort();
    pump_c.abort();
    pump_v.abort();
    drop(lsts);
    drop(rtp);
    drop(tgt);
    drop(tgt_v);
    drop(src_socks);
    drop(peer_sock);
    drop(peer_sock_v);
    tokio::time::sleep(Duration::from_millis(10)).await;
}

// ---------------------------------------------------------------------------
// plan generator
// ---------------------------------------------------------------------------
/// Percentage of demux-profile runs that may contain `clear_all` (RtpTransport::clear_listeners) ops.
/// 0 while rustrtc's clear_listeners() leaves the by-MID map populated (a MID-tagged packet is
/// still delivered to the "cleared" receiver: C19.route, replay C19-clear_listeners-keeps-mid.json);
/// validated clean at 3 once `by_mid.clear()` is added there.
pub const GEN_CLEAR_ALL_PCT: u64 = 3;
const PTS: &[i64] = &[0, 8, 9, 13, 34, 63, 96, 97, 98, 99, 100, 101, 111, 126, 127];
const SSRC_EDGE: &[u32] = &[0, 1, 0x7fff_ffff, 0x8000_0000, 0xffff_ffff, 0xffff_fffe];

fn gen_ssrc(r: &mut Rng) -> u32 {
    if r.chance(20) { *r.pick(SSRC_EDGE) } else { 0x1000 + (r.below(0x4000) as u32) * 4 + r.below(4) as u32 }
}

fn gen_flags(r: &mut Rng, allow_trunc: bool) -> i64 {
    let mut f = 0;
    for (bit, pct) in [(F_MARKER, 20), (F_TWOBYTE, 15), (F_EXTRA_BEFORE, 20), (F_EXTRA_AFTER, 15), (F_CSRC, 10), (F_WRONG_MID_ID, 5), (F_OTHER_PROFILE, 2)] {
        if r.chance(pct) {
            f |= bit;
        }
    }
    if allow_trunc && r.chance(3) {
        f |= F_TRUNC_EXT;
    }
    f
}

fn gen_bridge(r: &mut Rng, pts: &[i64]) -> Op {
    let opt = |r: &mut Rng, pct: u64, v: i64| if r.chance(pct) { v } else { -1 };
    let init_seq = if r.chance(50) { 65535 - r.below(4) as i64 } else { r.below(65536) as i64 };
    let init_off = if r.chance(50) { (u32::MAX as u64 - r.below(3000)) as i64 } else { r.below(1 << 32) as i64 };
    let strip = if r.chance(30) { 1 } else { 0 };
    let out_ts = (u32::MAX as u64 - r.below(5000)) as i64;
    let mut a = vec![strip, opt(&mut *r, 50, init_seq), opt(&mut *r, 50, init_off), opt(&mut *r, 20, out_ts), -1];
    if r.chance(20) {
        a[4] = *r.pick(pts);
    }
    let nrules = r.below(4);
    let mut used: Vec<i64> = Vec::new();
    let mut have_catch_all = false;
    for k in 0..nrules {
        let m = if (!have_catch_all && r.chance(if k == 0 { 60 } else { 35 })) || pts.iter().all(|p| used.contains(p)) {
            if have_catch_all {
                continue;
            }
            have_catch_all = true;
            -1
        } else {
            let cand: Vec<i64> = pts.iter().filter(|p| !used.contains(p)).copied().collect();
            let v = *r.pick(&cand);
            used.push(v);
            v
        };
        let fixed = if r.chance(50) { if r.chance(30) { *r.pick(SSRC_EDGE) as i64 } else { r.below(1 << 32) as i64 } } else { -1 };
        let offset = *r.pick(&[0i64, 1, 1000, 0x8000_0000, 0xffff_ffff]);
        let out_pt = if r.chance(60) { *r.pick(PTS) } else { -1 };
        let (me, mc) = if r.chance(30) { (r.range(1, 14) as i64, r.range(1, 6) as i64) } else { (0, 0) };
        a.extend_from_slice(&[m, fixed, offset, out_pt, me, mc]);
    }
    Op::new(0, "bridge_install", &a)
}

struct Src {
    ssrc: u32,
    seq: u16,
    ts: u32,
    step: u32,
    pt: i64,
    last: Option<(u16, u32)>,
}

fn gen_src(r: &mut Rng, pts: &[i64]) -> Src {
    Src {
        ssrc: gen_ssrc(r),
        seq: if r.chance(50) { 65535 - r.below(6) as u16 } else { r.below(65536) as u16 },
        ts: if r.chance(50) { u32::MAX - r.below(3000) as u32 } else { r.next() as u32 },
        step: *r.pick(&[160u32, 160, 960, 3000, 0, 90_000, 450_000, 900_000]),
        pt: *r.pick(pts),
        last: None,
    }
}

/// next packet of one source stream; `anomalies` enables jumps, wraps, duplicates, reordering
fn src_next(r: &mut Rng, s: &mut Src, pts: &[i64], anomalies: bool, out: &mut Vec<(u32, i64, u16, u32)>) {
    let roll = if anomalies { r.below(100) } else { 0 };
    match roll {
        0..=69 => {}
        70..=75 => s.ts = s.ts.wrapping_add((*r.pick(&[900_000u32, 900_001, 1_000_000, 0x7fff_ffff, 0x8000_0000, 0x8000_0001, 3_000_000_000])).wrapping_sub(s.step)),
        76..=80 => s.ts = s.ts.wrapping_sub((*r.pick(&[1u32, 160, 10_000, 1_000_000, 0x7fff_ffff])).wrapping_add(s.step)),
        81..=85 => s.seq = s.seq.wrapping_add(*r.pick(&[1u16, 99, 32767, 32768, 65534])),
        86..=90 => {
            if let Some((q, t)) = s.last {
                out.push((s.ssrc, s.pt, q, t));
                return;
            }
        }
        91..=95 => {
            // swap with the next packet of this stream
            let (q1, t1) = (s.seq, s.ts);
            let (q2, t2) = (s.seq.wrapping_add(1), s.ts.wrapping_add(s.step));
            out.push((s.ssrc, s.pt, q2, t2));
            out.push((s.ssrc, s.pt, q1, t1));
            s.last = Some((q1, t1));
            s.seq = s.seq.wrapping_add(2);
            s.ts = s.ts.wrapping_add(s.step.wrapping_mul(2));
            return;
        }
        _ => s.pt = *r.pick(pts),
    }
    out.push((s.ssrc, s.pt, s.seq, s.ts));
    s.last = Some((s.seq, s.ts));
    s.seq = s.seq.wrapping_add(1);
    s.ts = s.ts.wrapping_add(s.step);
}

pub fn generate(prop: &str, seed: u64, idx: u64, tier: Tier) -> Plan {
    let mut r = Rng::new(mix(mix(seed, idx), fnv(FNV0, prop.as_bytes())));
    let mut p = Plan { prop: prop.into(), scenario: "demux".into(), seed: r.next(), ..Default::default() };
    p.latency_us = [r.range(100, 4000), r.range(100, 4000)];
    p.sched = Sched { rng_seed: r.next(), defer_pct: if r.chance(50) { 0 } else { r.range(1, 40) as u8 } };
    let profile = r.below(100);
    let clean = r.chance(8);
    let max_ops = if tier == Tier::Thorough { 160 } else { 50 };
    let n_ops = if r.chance(20) { r.range(3, 10) } else { r.range(6, max_ops) };
    let gap = *r.pick(&[0u64, 0, 1, 5, 20]);
    let npt = r.range(2, 4) as usize;
    let mut pts: Vec<i64> = Vec::new();
    while pts.len() < npt {
        let v = *r.pick(PTS);
        if !pts.contains(&v) {
            pts.push(v);
        }
    }
    p.knobs.insert("cap".into(), *r.pick(&[1i64, 1, 2, 4]));
    let mut t = r.range(1, 20);
    let mut ops: Vec<Op> = Vec::new();
    if profile < 45 {
        // ---- demux: registrations x packets ---------------------------------------
        let mid_ext = *r.pick(&[0i64, 1, 1, 3, 5, 14]);
        let mut rid_ext = *r.pick(&[0i64, 0, 2, 2, 4, 14]);
        if r.chance(5) {
            rid_ext = mid_ext;
        }
        p.knobs.insert("mid_ext".into(), mid_ext);
        p.knobs.insert("rid_ext".into(), rid_ext);
        // `clear_listeners()` is outside C19's stated quantifier; explored at a low rate
        let clear_ops = r.chance(GEN_CLEAR_ALL_PCT);
        let nl = if r.chance(15) { 1 } else { r.range(2, 6) as i64 };
        let ns = r.range(2, 5) as usize;
        let ssrcs: Vec<u32> = (0..ns).map(|_| gen_ssrc(&mut r)).collect();
        let mids: Vec<i64> = vec![1, 2, 3, 4, 5, 6, 7, 9];
        let rids: Vec<i64> = vec![10, 11, 12, 13, 1];
        let mut ctr: BTreeMap<u32, (u16, u32)> = BTreeMap::new();
        let reg = |r: &mut Rng, l: i64, t: u64, ssrcs: &[u32], pts: &[i64]| -> Op {
            match r.below(100) {
                0..=19 => Op::new(t, "reg_ssrc", &[l, *r.pick(ssrcs) as i64]),
                20..=44 => Op::new(t, "reg_mid", &[l, if r.chance(80) { mids[(l as usize) % mids.len()] } else { *r.pick(&mids) }]),
                45..=54 => Op::new(t, "reg_rid", &[l, *r.pick(&rids)]),
                55..=64 => Op::new(t, "reg_pt", &[l, if r.chance(85) { *r.pick(pts) } else { *r.pick(PTS) }]),
                65..=89 => {
                    let mut a = vec![l];
                    for _ in 0..r.range(0, 3) {
                        a.push(*r.pick(pts));
                    }
                    Op::new(t, "reg_pts", &a)
                }
                _ => Op::new(t, "reg_prov", &[l]),
            }
        };
        for l in 0..nl {
            for _ in 0..r.range(1, 4) {
                ops.push(reg(&mut r, l, t, &ssrcs, &pts));
            }
        }
        while (ops.len() as u64) < n_ops + nl as u64 {
            t += r.below(gap + 1);
            let extra = if r.chance(10) { 1 } else { 0 };
            let l = r.below(nl as u64 + extra) as i64;
            let roll = r.below(100);
            if roll < 72 {
                let ssrc = if r.chance(90) { *r.pick(&ssrcs) } else { gen_ssrc(&mut r) };
                let pt = if r.chance(88) { *r.pick(&pts) } else { *r.pick(PTS) };
                let mid = match r.below(100) {
                    0..=44 => 0,
                    45..=79 => mids[r.below(nl as u64) as usize % mids.len()],
                    80..=89 => *r.pick(&mids),
                    90..=94 => L_NONUTF8,
                    _ => *r.pick(&rids),
                };
                let rid = match r.below(100) {
                    0..=74 => 0,
                    75..=94 => *r.pick(&rids),
                    _ => *r.pick(&mids),
                };
                let c = ctr.entry(ssrc).or_insert((r.below(65536) as u16, r.next() as u32));
                c.0 = c.0.wrapping_add(1);
                c.1 = c.1.wrapping_add(960);
                let (seq, ts) = *c;
                ops.push(Op::new(t, "pkt", &[ssrc as i64, pt, seq as i64, ts as i64, mid, rid, gen_flags(&mut r, true)]));
            } else if roll < 84 {
                ops.push(reg(&mut r, l, t, &ssrcs, &pts));
            } else if clean {
                continue;
            } else if roll < 88 {
                ops.push(Op::new(t, "close_listener", &[l]));
            } else if roll < 94 {
                ops.push(Op::new(t, "stall", &[l]));
            } else if roll < 97 {
                ops.push(Op::new(t, "resume", &[l]));
            } else if roll < 98 {
                ops.push(Op::new(t, "set_ext", &[*r.pick(&[0i64, 1, 3, 5, 14]), *r.pick(&[0i64, 2, 4, 14])]));
            } else if clear_ops {
                ops.push(Op::new(t, "clear_all", &[]));
            }
        }
    } else {
        // ---- bridge: rule tables x interleaved source streams -----------------------
        let wire = profile >= 75;
        if wire {
            p.knobs.insert("wire".into(), 1);
        }
        let mid_ext = *r.pick(&[0i64, 1, 3]);
        p.knobs.insert("mid_ext".into(), mid_ext);
        p.knobs.insert("rid_ext".into(), 0);
        let ns = r.range(1, 4) as usize;
        let mut srcs: Vec<Src> = (0..ns).map(|_| gen_src(&mut r, &pts)).collect();
        if ns >= 2 && r.chance(30) {
            // two sources that differ only in the high bits / by one
            srcs[1].ssrc = srcs[0].ssrc.wrapping_add(*r.pick(&[1u32, 4, 0x8000_0000]));
        }
        // a listener or two, so that packets arriving while no bridge is installed have somewhere to go
        if !wire {
            for l in 0..r.below(3) as i64 {
                let mut a = vec![l];
                for _ in 0..r.range(1, 2) {
                    a.push(*r.pick(&pts));
                }
                ops.push(Op::new(t, "reg_pts", &a));
                if r.chance(50) {
                    ops.push(Op::new(t, "reg_ssrc", &[l, srcs[r.below(ns as u64) as usize].ssrc as i64]));
                }
            }
        }
        let mut install = gen_bridge(&mut r, &pts);
        install.at_ms = t;
        if wire || r.chance(85) {
            ops.push(install);
        }
        let anomalies = !clean && !(wire && r.chance(50));
        let mut npk = 0u32;
        let mut buf = Vec::new();
        let target = n_ops as usize + ops.len();
        while ops.len() < target {
            t += r.below(gap + 1);
            let roll = r.below(100);
            if !wire && !clean && roll < 4 {
                let mut o = gen_bridge(&mut r, &pts);
                o.at_ms = t;
                ops.push(o);
            } else if !wire && !clean && roll < 7 {
                ops.push(Op::new(t, "bridge_clear", &[]));
            } else {
                let k = r.below(ns as u64) as usize;
                buf.clear();
                src_next(&mut r, &mut srcs[k], &pts, anomalies, &mut buf);
                for (ssrc, pt, seq, ts) in buf.iter() {
                    let (mid, flags) = if r.chance(30) { (r.range(1, 6) as i64, gen_flags(&mut r, false) & !(F_WRONG_MID_ID)) } else { (0, gen_flags(&mut r, false) & (F_MARKER | F_CSRC)) };
                    ops.push(Op::new(t, "pkt", &[*ssrc as i64, *pt, *seq as i64, *ts as i64, mid, 0, flags]));
                    npk += 1;
                }
            }
        }
        if wire && !clean {
            for _ in 0..r.range(1, 4) {
                let action = match r.below(10) {
                    0..=2 => Action::Drop,
                    3..=5 => Action::Dup { delay_ms: r.range(1, 60), copies: r.range(1, 2) as u8 },
                    6..=8 => Action::Delay { ms: r.range(1, 120) },
                    _ => Action::Hold { n: r.range(1, 3) as u32 },
                };
                p.faults.push(Rule { from: "A".into(), class: "RTP".into(), ordinal: r.below(npk.max(1) as u64) as u32, action });
            }
            p.heal_at_ms = t + 400;
        }
    }
    p.ops = ops;
    p
}

pub fn budget(_prop: &str, tier: Tier) -> u64 {
    match tier {
        Tier::Quick => 100_000,
        Tier::Thorough => 4_000_000,
    }
}
