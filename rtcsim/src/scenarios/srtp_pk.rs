//! Building blocks of the `srtp_hist` scenario that do not touch rustrtc's SRTP code:
//! deterministic RTP / RTCP packet shapes, the RFC 3711 index model, a mirror of the
//! reference implementation's (webrtc-srtp) rollover estimator, and an independent
//! key derivation + HMAC used only to classify truncated-tag collisions.
use crate::plan::*;
use rustrtc::rtp::{RtpHeader, RtpHeaderExtension, RtpPacket};

#[derive(Clone, Copy, PartialEq, Debug)]
pub enum Prof {
    S80,
    S32,
    Gcm,
    Null,
}

impl Prof {
    pub fn from_knob(k: i64) -> Prof {
        match k.rem_euclid(4) {
            0 => Prof::S80,
            1 => Prof::S32,
            2 => Prof::Gcm,
            _ => Prof::Null,
        }
    }
    pub fn name(&self) -> &'static str {
        match self {
            Prof::S80 => "AES_CM_128_HMAC_SHA1_80",
            Prof::S32 => "AES_CM_128_HMAC_SHA1_32",
            Prof::Gcm => "AEAD_AES_128_GCM",
            Prof::Null => "NULL_HMAC_SHA1_80",
        }
    }
    pub fn rustrtc(&self) -> rustrtc::SrtpProfile {
        match self {
            Prof::S80 => rustrtc::SrtpProfile::Aes128Sha1_80,
            Prof::S32 => rustrtc::SrtpProfile::Aes128Sha1_32,
            Prof::Gcm => rustrtc::SrtpProfile::AeadAes128Gcm,
            Prof::Null => rustrtc::SrtpProfile::NullCipherHmac,
        }
    }
    pub fn reference(&self) -> Option<webrtc_srtp::protection_profile::ProtectionProfile> {
        use webrtc_srtp::protection_profile::ProtectionProfile as P;
        match self {
            Prof::S80 => Some(P::Aes128CmHmacSha1_80),
            Prof::S32 => Some(P::Aes128CmHmacSha1_32),
            Prof::Gcm => Some(P::AeadAes128Gcm),
            Prof::Null => None,
        }
    }
    pub fn salt_len(&self) -> usize {
        if *self == Prof::Gcm { 12 } else { 14 }
    }
    /// tag length rustrtc uses (RTP and, in rustrtc, also RTCP)
    pub fn tag_len(&self) -> usize {
        match self {
            Prof::S80 | Prof::Null => 10,
            Prof::S32 => 4,
            Prof::Gcm => 16,
        }
    }
    pub fn is_hmac(&self) -> bool {
        *self != Prof::Gcm
    }
}

// ---------------------------------------------------------------------------
// packet shapes
// ---------------------------------------------------------------------------
fn pick_size(r: &mut Rng, mode: i64) -> usize {
    match mode {
        0 => *r.pick(&[0usize, 0, 1, 2, 3, 15, 16, 17, 20, 31, 32, 33]),
        1 => {
            if r.chance(30) { *r.pick(&[0usize, 1, 15, 16, 17, 160, 200]) } else { r.range(0, 200) as usize }
        }
        _ => {
            if r.chance(40) { *r.pick(&[0usize, 1, 15, 16, 17, 31, 32, 33, 1199, 1200, 1399, 1400]) } else { r.range(0, 1400) as usize }
        }
    }
}

/// Header length of a raw RTP packet produced by `gen_rtp` (for diagnostics).
pub fn rtp_header_len(raw: &[u8]) -> usize {
    if raw.len() < 12 {
        return raw.len();
    }
    let cc = (raw[0] & 0x0f) as usize;
    let mut n = 12 + 4 * cc;
    if raw[0] & 0x10 != 0 && raw.len() >= n + 4 {
        n += 4 + 4 * u16::from_be_bytes([raw[n + 2], raw[n + 3]]) as usize;
    }
    n.min(raw.len())
}

/// The RTP packet with 48-bit index `index` of stream `ssrc`: a pure function of its arguments.
/// Returns rustrtc's struct form and the independently serialised wire form of the same packet.
pub fn gen_rtp(ssrc: u32, index: u64, shape_seed: u64, size_mode: i64) -> (RtpPacket, Vec<u8>) {
    let mut r = Rng::new(mix(mix(shape_seed, ssrc as u64 ^ 0x5254_5000_0000), index));
    let seq = index as u16;
    let ts = (index as u32).wrapping_mul(960).wrapping_add(r.below(960) as u32);
    let marker = r.chance(30);
    // payload types that never collide with the RTCP demultiplexing range (RFC 5761)
    let pt = if r.chance(70) { r.range(96, 127) } else { r.range(0, 34) } as u8;
    let cc = match r.below(10) {
        0..=6 => 0,
        7 => 1,
        8 => r.range(2, 14) as usize,
        _ => 15,
    };
    let csrcs: Vec<u32> = (0..cc).map(|_| r.next() as u32).collect();
    let ext: Option<(u16, Vec<u8>)> = match r.below(20) {
        0..=9 => None,
        10..=13 => {
            // RFC 8285 one-byte elements, ids 1..14, lengths 1..16
            let mut d = Vec::new();
            for _ in 0..r.range(1, 4) {
                let id = r.range(1, 14) as u8;
                let len = if r.chance(30) { *r.pick(&[1usize, 3, 16]) } else { r.range(1, 16) as usize };
                d.push((id << 4) | (len as u8 - 1));
                for _ in 0..len {
                    d.push(r.next() as u8);
                }
                if r.chance(20) {
                    d.push(0);
                }
            }
            while d.len() % 4 != 0 {
                d.push(0);
            }
            Some((0xBEDE, d))
        }
        14..=16 => {
            // RFC 8285 two-byte elements
            let mut d = Vec::new();
            for _ in 0..r.range(1, 3) {
                let id = r.range(1, 255) as u8;
                let len = match r.below(10) {
                    0 => 0usize,
                    1 => 255,
                    _ => r.range(1, 40) as usize,
                };
                d.push(id);
                d.push(len as u8);
                for _ in 0..len {
                    d.push(r.next() as u8);
                }
            }
            while d.len() % 4 != 0 {
                d.push(0);
            }
            Some((0x1000, d))
        }
        17..=18 => {
            let mut profile = r.next() as u16;
            if profile == 0xBEDE || profile == 0x1000 {
                profile ^= 0x0101;
            }
            let mut d = vec![0u8; 4 * r.range(0, 8) as usize];
            r.fill(&mut d);
            Some((profile, d))
        }
        _ => Some((0xBEDE, Vec::new())),
    };
    let pad: u8 = if r.chance(15) { if r.chance(60) { *r.pick(&[1u8, 1, 2, 3, 4, 7, 8, 16, 255]) } else { r.range(1, 255) as u8 } } else { 0 };
    let mut payload = vec![0u8; pick_size(&mut r, size_mode)];
    r.fill(&mut payload);

    // wire form, written independently of rustrtc's marshaller
    let mut raw = Vec::with_capacity(12 + 4 * cc + payload.len() + pad as usize + 64);
    raw.push(0x80 | if pad != 0 { 0x20 } else { 0 } | if ext.is_some() { 0x10 } else { 0 } | cc as u8);
    raw.push(if marker { 0x80 } else { 0 } | pt);
    raw.extend_from_slice(&seq.to_be_bytes());
    raw.extend_from_slice(&ts.to_be_bytes());
    raw.extend_from_slice(&ssrc.to_be_bytes());
    for c in csrcs.iter() {
        raw.extend_from_slice(&c.to_be_bytes());
    }
    if let Some((p, d)) = &ext {
        raw.extend_from_slice(&p.to_be_bytes());
        raw.extend_from_slice(&((d.len() / 4) as u16).to_be_bytes());
        raw.extend_from_slice(d);
    }
    raw.extend_from_slice(&payload);
    for _ in 0..pad {
        raw.push(pad);
    }

    let mut h = RtpHeader::new(pt, seq, ts, ssrc);
    h.marker = marker;
    h.csrcs = csrcs;
    h.extension = ext.map(|(p, d)| RtpHeaderExtension::new(p, d));
    let mut pkt = RtpPacket::new(h, payload);
    pkt.padding_len = pad;
    (pkt, raw)
}

fn rtcp_hdr(out: &mut Vec<u8>, count: u8, pt: u8, body: &[u8]) {
    debug_assert!(body.len() % 4 == 0);
    out.push(0x80 | (count & 0x1f));
    out.push(pt);
    out.extend_from_slice(&((body.len() / 4) as u16).to_be_bytes());
    out.extend_from_slice(body);
}

/// The n-th compound RTCP packet of `ssrc` (SR|RR [+SDES] [+BYE] [+APP]).
pub fn gen_rtcp(ssrc: u32, n: u32, shape_seed: u64, size_mode: i64) -> Vec<u8> {
    let mut r = Rng::new(mix(mix(shape_seed, ssrc as u64 ^ 0x5254_4350_0000), n as u64));
    let mut out = Vec::new();
    let rc = *r.pick(&[0u8, 0, 0, 1, 2, 3, 31]);
    let sr = r.chance(50);
    let mut body = Vec::new();
    body.extend_from_slice(&ssrc.to_be_bytes());
    if r.chance(10) {
        // the shortest possible packet: an empty receiver report (8 bytes, nothing to encrypt)
        rtcp_hdr(&mut out, 0, 201, &body);
        return out;
    }
    let mut blk = vec![0u8; if sr { 20 } else { 0 } + 24 * rc as usize];
    r.fill(&mut blk);
    body.extend_from_slice(&blk);
    rtcp_hdr(&mut out, rc, if sr { 200 } else { 201 }, &body);
    if r.chance(85) {
        let mut b = Vec::new();
        b.extend_from_slice(&ssrc.to_be_bytes());
        let l = if r.chance(5) { 255 } else { r.range(1, 40) as usize };
        b.push(1);
        b.push(l as u8);
        for _ in 0..l {
            b.push(b'a' + (r.below(26) as u8));
        }
        b.push(0);
        while b.len() % 4 != 0 {
            b.push(0);
        }
        rtcp_hdr(&mut out, 1, 202, &b);
    }
    if r.chance(20) {
        let mut b = Vec::new();
        b.extend_from_slice(&ssrc.to_be_bytes());
        if r.chance(50) {
            let l = r.range(1, 30) as usize;
            b.push(l as u8);
            for _ in 0..l {
                b.push(b'A' + (r.below(26) as u8));
            }
            while b.len() % 4 != 0 {
                b.push(0);
            }
        }
        rtcp_hdr(&mut out, 1, 203, &b);
    }
    if size_mode >= 2 && r.chance(50) {
        let mut b = vec![0u8; 8 + 4 * r.range(0, 300) as usize];
        r.fill(&mut b);
        b[..4].copy_from_slice(&ssrc.to_be_bytes());
        rtcp_hdr(&mut out, 0, 204, &b);
    }
    out
}

// ---------------------------------------------------------------------------
// RFC 3711 section 3.3.1 / appendix A index estimation (the receiver of the RFC)
// ---------------------------------------------------------------------------
#[derive(Default, Clone, Debug)]
pub struct RfcModel {
    pub s_l: Option<u16>,
    pub roc: u32,
}

impl RfcModel {
    pub fn estimate(&self, seq: u16) -> u32 {
        match self.s_l {
            None => self.roc,
            Some(s_l) => {
                if s_l < 32768 {
                    if (seq as i32) - (s_l as i32) > 32768 { self.roc.wrapping_sub(1) } else { self.roc }
                } else if (s_l as i32) - 32768 > (seq as i32) {
                    self.roc.wrapping_add(1)
                } else {
                    self.roc
                }
            }
        }
    }
    /// state update after a packet with estimated rollover counter `v` authenticated
    pub fn accept(&mut self, seq: u16, v: u32) {
        match self.s_l {
            None => {
                self.s_l = Some(seq);
                self.roc = v;
            }
            Some(s_l) => {
                if v == self.roc.wrapping_add(1) {
                    self.s_l = Some(seq);
                    self.roc = v;
                } else if v == self.roc && seq > s_l {
                    self.s_l = Some(seq);
                }
            }
        }
    }
    /// Deliver the genuine packet with true index `index`; true iff the RFC receiver decodes it.
    pub fn deliver(&mut self, index: u64) -> bool {
        let seq = index as u16;
        let v = self.estimate(seq);
        if v as u64 == index >> 16 {
            self.accept(seq, v);
            true
        } else {
            false
        }
    }
}

// ---------------------------------------------------------------------------
// mirror of webrtc-srtp 0.17 SrtpSsrcState::{next_rollover_count, update_rollover_count}
// (it tracks the LAST accepted index, not the highest, and never guesses ROC-1 while index <= 2^15;
// both are deviations from RFC 3711 that only matter for far reordering / gaps)
// ---------------------------------------------------------------------------
#[derive(Default, Clone, Debug)]
pub struct RefModel {
    pub index: u64,
    pub processed: bool,
}

impl RefModel {
    fn guess(&self, seq: u16) -> (u32, i32) {
        let local_roc = (self.index >> 16) as u32;
        let local_seq = self.index as u16;
        let mut g = local_roc;
        let diff = if self.processed {
            let s = (seq as i32) - (local_seq as i32);
            if self.index > 32768 {
                if local_seq < 32768 {
                    if s > 32768 {
                        g = local_roc.wrapping_sub(1);
                        s - 65536
                    } else {
                        s
                    }
                } else if local_seq - 32768 > seq {
                    g = local_roc.wrapping_add(1);
                    s + 65536
                } else {
                    s
                }
            } else {
                s
            }
        } else {
            0
        };
        (g, diff)
    }
    /// (would the reference decode the genuine packet with this true index?, its `diff` for commit)
    pub fn peek(&self, index: u64) -> (bool, i32) {
        let (g, diff) = self.guess(index as u16);
        (g as u64 == index >> 16, diff)
    }
    /// state change of the reference after it really accepted the packet
    pub fn commit(&mut self, index: u64, diff: i32) {
        if !self.processed {
            self.index |= (index as u16) as u64;
            self.processed = true;
        } else {
            self.index = self.index.wrapping_add(diff as i64 as u64);
        }
    }
}

// ---------------------------------------------------------------------------
// independent key derivation + HMAC (only used to recognise a forged packet whose
// truncated tag is valid by chance: probability 2^-32 per attempt for the _32 profile)
// ---------------------------------------------------------------------------
pub fn kdf(master_key: &[u8], master_salt: &[u8], label: u8, len: usize) -> Vec<u8> {
    use aes_gcm::aes::cipher::{BlockEncrypt, KeyInit};
    let aes = aes_gcm::aes::Aes128::new_from_slice(&master_key[..16]).expect("key");
    let mut x = [0u8; 16];
    for (i, b) in master_salt.iter().take(14).enumerate() {
        x[i] = *b;
    }
    x[7] ^= label;
    let mut out = Vec::new();
    let mut ctr: u16 = 0;
    while out.len() < len {
        let mut blk = x;
        blk[14..16].copy_from_slice(&ctr.to_be_bytes());
        let mut ga = aes_gcm::aes::cipher::generic_array::GenericArray::clone_from_slice(&blk);
        aes.encrypt_block(&mut ga);
        out.extend_from_slice(&ga);
        ctr += 1;
    }
    out.truncate(len);
    out
}

pub fn hmac_sha1(key: &[u8], parts: &[&[u8]]) -> Vec<u8> {
    use hmac::{Hmac, KeyInit, Mac};
    let mut m = <Hmac<sha1::Sha1> as KeyInit>::new_from_slice(key).expect("hmac key");
    for p in parts {
        m.update(p);
    }
    m.finalize().into_bytes().to_vec()
}

pub fn seeds(s: &str) -> (u64, u64) {
    let mut it = s.split(':').map(|x| u64::from_str_radix(x, 16).unwrap_or(0));
    (it.next().unwrap_or(1), it.next().unwrap_or(2))
}
pub fn seed_str(a: u64, b: u64) -> String {
    format!("{a:x}:{b:x}")
}
