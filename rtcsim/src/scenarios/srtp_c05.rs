// ---- C05: forgeries, shadow receiver (included into srtp.rs) -------------------------------

fn wire_ssrc(bytes: &[u8], rtcp: bool) -> Option<u32> {
    let o = if rtcp { 4 } else { 8 };
    bytes.get(o..o + 4).map(|b| u32::from_be_bytes([b[0], b[1], b[2], b[3]]))
}

impl<'a> World<'a> {
    /// Mirrors (approximately) SrtpSession::evict_stale_rx: a packet for `ssrc` arrives now.
    fn note_arrival(&mut self, ssrc: Option<u32>) {
        if self.offered_ssrcs.len() > 32 {
            for k in 0..self.ssrcs.len() {
                if Some(self.ssrcs[k]) != ssrc && self.now_ms.saturating_sub(self.last_fed_ms[k]) >= 60_000 {
                    self.evict_suspect[k] = true;
                }
            }
        }
        if let Some(s) = ssrc {
            self.offered_ssrcs.insert(s);
            if let Some(k) = self.ssrcs.iter().position(|x| *x == s) {
                self.last_fed_ms[k] = self.now_ms;
            }
        }
    }

    /// A genuine packet (possibly duplicated / reordered / late) reaches both the receiver under
    /// test and the shadow receiver.
    fn deliver_c05(&mut self, w: &Wire, classes: &mut BTreeSet<&'static str>) {
        self.delivered += 1;
        let ssrc = self.ssrcs[w.si];
        let silent = self.now_ms.saturating_sub(self.last_fed_ms[w.si]);
        self.note_arrival(wire_ssrc(&w.a, w.rtcp));
        let (vr, vs) = if w.rtcp {
            (rust_rtcp(&mut self.rx, &w.a), rust_rtcp(self.shadow.as_mut().unwrap(), &w.a))
        } else {
            (rust_rtp(&mut self.rx, &w.a), rust_rtp(self.shadow.as_mut().unwrap(), &w.a))
        };
        if w.rtcp && w.si == 0 {
            let mut x = w.a.clone();
            let _ = self.cx_real.as_mut().unwrap().unprotect_rtcp(&mut x);
            let mut y = w.a.clone();
            let _ = self.cx_shadow.as_mut().unwrap().unprotect_rtcp(&mut y);
        }
        let suspect = self.evict_suspect[w.si];
        let what = if w.rtcp { format!("genuine SRTCP ssrc={ssrc:#x} index={}", w.index) } else { format!("genuine SRTP ssrc={ssrc:#x} index={} (roc={} seq={})", w.index, w.index >> 16, w.index as u16) };
        match (&vr, &vs) {
            (Ok(a), Ok(b)) => {
                self.genuine_accepted += 1;
                classes.insert("accept");
                if a != b {
                    let d = format!("{what}: both receivers accept but the plaintexts differ ({}); {}", first_diff(a, b), self.ctxinfo(silent, suspect));
                    self.violate("C05.undisturbed", "plaintext", d);
                }
            }
            (Err(_), Err(_)) => {
                classes.insert("both-reject");
                self.stat("genuine.both_reject", 1);
            }
            (Err(e), Ok(_)) => {
                let d = format!("{what}: the shadow receiver (genuine traffic only) accepts, the receiver that also saw forged packets rejects: {e}; {}", self.ctxinfo(silent, suspect));
                self.violate("C05.undisturbed", "rejected-after-forgery", d);
            }
            (Ok(_), Err(e)) => {
                let d = format!("{what}: the receiver that also saw forged packets accepts, the shadow receiver rejects: {e}; {}", self.ctxinfo(silent, suspect));
                self.violate("C05.undisturbed", "accepted-only-after-forgery", d);
            }
        }
        if self.forged_total > 0 {
            self.genuine_after_forgery += 1;
        }
        self.forged_since_genuine.clear();
    }

    fn ctxinfo(&self, silent: u64, suspect: bool) -> String {
        let mut recent: Vec<String> = self.forged_since_genuine.iter().rev().take(6).cloned().collect();
        recent.reverse();
        format!(
            "forged packets since the last genuine one: {} (latest kinds: {:?}); distinct SSRC values offered to the receiver so far: {}; this SSRC was silent for {} ms{}",
            self.forged_since_genuine.len(),
            recent,
            self.offered_ssrcs.len(),
            silent,
            if suspect || (self.offered_ssrcs.len() > 32 && silent >= 60_000) { " [hint=stale-context-eviction: more than 32 SSRC values had been offered and this SSRC had been silent for >= 60 s when a packet of another SSRC arrived]" } else { "" }
        )
    }

    /// true iff the truncated HMAC tag of an accepted forgery is valid by chance
    fn tag_collision(&self, f: &[u8], rtcp: bool) -> bool {
        if !self.prof.is_hmac() {
            return false;
        }
        let t = if rtcp { self.rtcp_tl } else { self.prof.tag_len() };
        if f.len() < t {
            return false;
        }
        let (msg, tag) = f.split_at(f.len() - t);
        if rtcp {
            let k = kdf(&self.key, &self.salt, 4, 20);
            hmac_sha1(&k, &[msg])[..t] == *tag
        } else {
            let k = kdf(&self.key, &self.salt, 1, 20);
            let mut rocs: Vec<u32> = (0..=self.max_roc + 1).collect();
            rocs.push(u32::MAX);
            rocs.iter().any(|roc| hmac_sha1(&k, &[msg, &roc.to_be_bytes()])[..t] == *tag)
        }
    }

    /// One attacker-made datagram reaches the receiver under test (never the shadow).
    /// `path`: None = demultiplex like RtpTransport (is_rtcp); Some(rtcp) = force that entry point.
    fn feed_forgery(&mut self, f: &[u8], path: Option<bool>, kind: &str, desc: &dyn Fn() -> String) {
        let rtcp = path.unwrap_or_else(|| rustrtc::rtp::is_rtcp(f));
        if self.genuine[rtcp as usize].contains(f) {
            self.stat("forge.skipped_equals_genuine", 1);
            return;
        }
        self.note_arrival(wire_ssrc(f, rtcp));
        self.forged_total += 1;
        if self.forged_since_genuine.len() < 64 {
            self.forged_since_genuine.push(kind.to_string());
        }
        let v = if rtcp { rust_rtcp(&mut self.rx, f) } else { rust_rtp(&mut self.rx, f) };
        if rtcp && wire_ssrc(f, true) == Some(self.ssrcs[0]) {
            let mut x = f.to_vec();
            if x.len() >= 14 {
                let _ = self.cx_real.as_mut().unwrap().unprotect_rtcp(&mut x);
            }
        }
        match v {
            Err(e) => {
                let k = format!("forged.rejected.{}", errkind(&e));
                self.stat(&k, 1);
            }
            Ok(p) => {
                if self.tag_collision(f, rtcp) {
                    self.stat("escape.truncated_tag_collision", 1);
                } else {
                    let d = format!("forged {} packet ({kind}: {}) of {} bytes was ACCEPTED and yielded {} bytes: forged={} output={}", if rtcp { "SRTCP" } else { "SRTP" }, desc(), f.len(), p.len(), hex(f), hex(&p));
                    self.violate("C05.reject", &format!("accepted-{}-{kind}", if rtcp { "rtcp" } else { "rtp" }), d);
                }
            }
        }
    }

    /// a recent genuine protected packet to mutate; produces (and "loses") a fresh one if none exists
    fn source_packet(&mut self, rtcp: bool, si: usize, r: &mut Rng) -> (usize, Vec<u8>) {
        let cands: Vec<usize> = self.recent.iter().enumerate().filter(|(_, (k, s, _))| *k == rtcp && (*s == si || si >= self.ssrcs.len())).map(|(i, _)| i).collect();
        if !cands.is_empty() {
            let (_, s, b) = &self.recent[cands[r.below(cands.len() as u64) as usize]];
            return (*s, b.clone());
        }
        let si = si.min(self.ssrcs.len() - 1);
        let shape = r.next();
        let w = if rtcp { self.send_rtcp(si, shape, 0) } else { self.send_rtp(si, shape, 0) };
        self.stat("forge.source_generated", 1);
        (si, w.map(|w| w.a).unwrap_or_else(|| vec![0x80; 40]))
    }

    /// `flips`: every single-bit flip, every truncation and a few extensions of one fresh genuine packet.
    /// a = [is_rtcp, ssrc_idx, mode (0 forgeries first, 1 genuine first, 2 genuine in the middle), size_mode]
    fn op_flips(&mut self, op: &Op) -> String {
        let rtcp = op.arg(0) != 0;
        let si = (op.arg(1).max(0) as usize) % self.ssrcs.len();
        let mode = op.arg(2).rem_euclid(3);
        let (shape, seed) = seeds(&op.s);
        let Some(w) = (if rtcp { self.send_rtcp(si, shape, op.arg(3)) } else { self.send_rtp(si, shape, op.arg(3)) }) else { return "send-failed".into() };
        let g = w.a.clone();
        if self.prof.is_hmac() && !self.tag_collision(&g, rtcp) {
            // the independent KDF + HMAC must reproduce the tag of a genuine packet, else the collision escape is blind
            self.ctx.violate("HARNESS.hmac_selfcheck", format!("independent HMAC does not reproduce the tag of a genuine {} packet: {}", if rtcp { "SRTCP" } else { "SRTP" }, hex(&g)));
        }
        let hl = if rtcp { 8 } else { rtp_header_len(&g) };
        let tl = if rtcp { self.rtcp_tl } else { self.prof.tag_len() };
        let mut classes = BTreeSet::new();
        let mut forged: Vec<(Vec<u8>, String)> = Vec::with_capacity(g.len() * 9 + 8);
        for bit in 0..g.len() * 8 {
            let mut f = g.clone();
            f[bit / 8] ^= 0x80 >> (bit % 8);
            let region = if bit / 8 < hl { "header" } else if bit / 8 >= g.len().saturating_sub(tl + if rtcp { 4 } else { 0 }) { "index/tag" } else { "body" };
            forged.push((f, format!("bit {} of byte {} ({region}; header {hl} B, total {} B)", bit % 8, bit / 8, g.len())));
        }
        for l in 0..g.len() {
            forged.push((g[..l].to_vec(), format!("truncated to {l} of {} bytes", g.len())));
        }
        let mut r = Rng::new(seed);
        for extra in 1..=4usize {
            let mut f = g.clone();
            for _ in 0..extra {
                f.push(r.next() as u8);
            }
            forged.push((f, format!("{extra} byte(s) appended")));
        }
        let n = forged.len();
        let genuine_at = match mode {
            0 => n,
            1 => 0,
            _ => n / 2,
        };
        for (i, (f, d)) in forged.iter().enumerate() {
            if i == genuine_at {
                self.deliver_c05(&w, &mut classes);
            }
            let kind = if d.starts_with("bit") { "bitflip" } else if d.starts_with("trunc") { "truncation" } else { "extension" };
            self.feed_forgery(f, None, kind, &|| d.clone());
        }
        if genuine_at >= n {
            self.deliver_c05(&w, &mut classes);
        }
        self.stat("forge.exhaustive_packets", 1);
        self.stat("forge.exhaustive_variants", n as u64);
        format!("variants={n} len={} hdr={hl}", g.len())
    }

    /// `forge`: attacker-built packets. a = [kind, ssrc_idx, count, arg]
    fn op_forge(&mut self, op: &Op) -> String {
        let kind = op.arg(0).rem_euclid(8);
        let si = op.arg(1).max(0) as usize;
        let count = op.arg(2).clamp(1, 4000) as usize;
        let arg = op.arg(3);
        let (seed, _) = seeds(&op.s);
        let mut r = Rng::new(mix(seed, 0x666f_7267));
        let tl = self.prof.tag_len();
        match kind {
            0 => {
                // sequence number far ahead / behind on a live SSRC (attack on the rollover estimate)
                for i in 0..count {
                    let (_, mut f) = self.source_packet(false, si, &mut r);
                    if f.len() < 12 {
                        continue;
                    }
                    let seq = u16::from_be_bytes([f[2], f[3]]);
                    let delta = if i == 0 { arg as u16 } else { *r.pick(&[1u16, 2, 100, 32767, 32768, 32769, 40000, 65535, 65534]) };
                    let ns = seq.wrapping_add(delta.max(1));
                    f[2..4].copy_from_slice(&ns.to_be_bytes());
                    if r.chance(50) {
                        let n = f.len();
                        let t = tl.min(n);
                        r.fill(&mut f[n - t..]);
                    }
                    self.feed_forgery(&f, None, "seq-ahead", &|| format!("genuine packet with sequence {seq} rewritten to {ns}"));
                }
                "seq-ahead".into()
            }
            1 => {
                // many previously unseen SSRCs (RTP and RTCP)
                for i in 0..count {
                    let rtcp = i % 3 == 2;
                    let (_, mut f) = self.source_packet(rtcp, si, &mut r);
                    let o = if rtcp { 4 } else { 8 };
                    if f.len() < o + 4 {
                        continue;
                    }
                    let ns = (mix(seed, i as u64) as u32) | 1;
                    f[o..o + 4].copy_from_slice(&ns.to_be_bytes());
                    self.feed_forgery(&f, None, "new-ssrc", &|| format!("genuine packet re-labelled with unseen SSRC {ns:#x}"));
                }
                "new-ssrc".into()
            }
            2 => {
                // forged SRTCP index word
                for i in 0..count {
                    let (_, mut f) = self.source_packet(true, si, &mut r);
                    let pos = if self.prof == Prof::Gcm { f.len().saturating_sub(4) } else { f.len().saturating_sub(self.rtcp_tl + 4) };
                    if f.len() < 16 || pos < 8 {
                        continue;
                    }
                    let old = u32::from_be_bytes([f[pos], f[pos + 1], f[pos + 2], f[pos + 3]]);
                    let nw = match (i as i64 + arg).rem_euclid(6) {
                        0 => 0xFFFF_FFFF,
                        1 => 0x7FFF_FFFF,
                        2 => old & 0x7FFF_FFFF,
                        3 => old.wrapping_add(1),
                        4 => 0x8000_0000,
                        _ => old.wrapping_add(1 + r.below(1 << 20) as u32) | 0x8000_0000,
                    };
                    f[pos..pos + 4].copy_from_slice(&nw.to_be_bytes());
                    self.feed_forgery(&f, Some(true), "srtcp-index", &|| format!("genuine SRTCP packet with E|index word {old:#010x} rewritten to {nw:#010x}"));
                }
                "srtcp-index".into()
            }
            3 => {
                for _ in 0..count {
                    let rtcp = r.chance(30);
                    let (_, mut f) = self.source_packet(rtcp, si, &mut r);
                    if f.is_empty() {
                        continue;
                    }
                    let nb = r.range(2, 16);
                    for _ in 0..nb {
                        let b = r.below(f.len() as u64 * 8) as usize;
                        f[b / 8] ^= 1 << (b % 8);
                    }
                    self.feed_forgery(&f, None, "multibit", &|| format!("{nb} random bit flips"));
                }
                "multibit".into()
            }
            4 => {
                // splices: SSRC of another live stream; header of one packet with body+tag of another
                for i in 0..count {
                    let (s1, mut f) = self.source_packet(false, si, &mut r);
                    if f.len() < 12 {
                        continue;
                    }
                    if i % 2 == 0 && self.ssrcs.len() > 1 {
                        let other = self.ssrcs[(s1 + 1 + r.below(self.ssrcs.len() as u64 - 1) as usize) % self.ssrcs.len()];
                        f[8..12].copy_from_slice(&other.to_be_bytes());
                        self.feed_forgery(&f, None, "splice-ssrc", &|| format!("genuine packet re-labelled with live SSRC {other:#x}"));
                    } else {
                        let (_, g) = self.source_packet(false, s1, &mut r);
                        let (h1, h2) = (rtp_header_len(&f), rtp_header_len(&g));
                        let mut x = f[..h1].to_vec();
                        x.extend_from_slice(&g[h2..]);
                        self.feed_forgery(&x, None, "splice-body", &|| "header of one genuine packet, body and tag of another".into());
                    }
                }
                "splice".into()
            }
            5 => {
                for _ in 0..count {
                    let l = if r.chance(30) { r.range(0, 20) } else { r.range(12, 300) } as usize;
                    let mut f = vec![0u8; l];
                    r.fill(&mut f);
                    if l > 0 {
                        f[0] = 0x80 | (f[0] & 0x3f);
                    }
                    if l >= 12 && r.chance(60) && si < self.ssrcs.len() {
                        let s = self.ssrcs[si];
                        let o = if rustrtc::rtp::is_rtcp(&f) { 4 } else { 8 };
                        f[o..o + 4].copy_from_slice(&s.to_be_bytes());
                    }
                    self.feed_forgery(&f, None, "random", &|| "random bytes".into());
                }
                "random".into()
            }
            6 => {
                // a genuine packet of one protocol handed to the other protocol's entry point
                for i in 0..count {
                    let rtcp = i % 2 == 0;
                    let (_, f) = self.source_packet(rtcp, si, &mut r);
                    self.feed_forgery(&f, Some(!rtcp), "cross-protocol", &|| format!("genuine {} packet given to the {} entry point", if rtcp { "SRTCP" } else { "SRTP" }, if rtcp { "SRTP" } else { "SRTCP" }));
                }
                "cross-protocol".into()
            }
            _ => {
                // tag games: zero tag, tag of another packet, tag shortened / lengthened
                for i in 0..count {
                    let rtcp = r.chance(30);
                    let (s1, mut f) = self.source_packet(rtcp, si, &mut r);
                    let n = f.len();
                    let tl = if rtcp { self.rtcp_tl } else { tl };
                    if n < tl + 8 {
                        continue;
                    }
                    match i % 3 {
                        0 => f[n - tl..].fill(0),
                        1 => {
                            let (_, g) = self.source_packet(rtcp, s1, &mut r);
                            if g.len() >= tl {
                                let t = g[g.len() - tl..].to_vec();
                                f[n - tl..].copy_from_slice(&t);
                            }
                        }
                        _ => {
                            f.truncate(n - 1 - r.below(tl as u64) as usize);
                        }
                    }
                    self.feed_forgery(&f, None, "tag", &|| "tag replaced / zeroed / shortened".into());
                }
                "tag".into()
            }
        }
    }
}
